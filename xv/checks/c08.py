"""C08 - Attribute equality and hashing form a consistent value semantics.

Monitors `==`, `!=`, `hash()`, dict/set behaviour of the REAL attribute classes against the independent bit-level
canonical form `xv.canon.canon_attr_strict` (never calls __eq__/__hash__/the printer):

  pools     ~200 attributes per pool (xv.genattr values, planted near-duplicates that differ in exactly one leaf,
            float corner cases, rebuilt copies, dialect attributes harvested from the corpus); ALL pairs are compared:
            eq <=> canon-equal, eq => equal hashes, symmetry, reflexivity, transitivity over the complete eq relation of
            the pool, `!=` consistent with `==`, set/dict insertion and lookup through equal copies.
            Values containing order-insensitive containers (DictionaryAttr, set/dict payloads) are also rebuilt with
            their entries inserted in another order (API and parser): equal values along different construction paths
            must hash equally and be interchangeable in sets / dicts.
  twoctx    the same text parsed in two fresh Contexts (and twice in one Context): the results must be equal, hash
            equal and canonically equal - for generated attribute texts and, position-wise, for every attribute of
            every corpus module.
  history   interleaved histories: texts / constructor arguments are used once, then hundreds to thousands of OTHER
            unregistered attribute and type names, generated and corpus attributes are parsed / constructed in several
            Contexts, then the same texts are parsed again in the old and in fresh Contexts and through the constructors;
            all results must be ==, hash-equal, found in sets/dicts (bounded or wrongly keyed memoisation shows here).
  irdl      every IRDL-described dialect (xdsl/dialects/*.irdl, corpus, an inline one) is instantiated several times in
            one process; the same texts / constructor arguments against every load; eq/hash/set/dict laws over all pairs
            (same load: must be equal; across loads: equal or unequal, but consistently and always eq => same hash).
  purity    construction must be a pure function of its arguments: a fixed request list (+-0.0, values rounding to
            them, subnormal boundaries, NaN payloads for every float type, equal-under-== bool/int/float payloads;
            constructors, parser, dense) is run in a different order in every shard; FloatAttr payload bits are compared
            with an independent reference rounding, and every request must give ONE result across all shards.
  cse       downstream: modules of pure ops / arith.constant whose attributes are near-duplicates; after the real CSE
            pass every use must still see an op whose attributes are canonically the ones it saw before."""
from __future__ import annotations

import math
import random

from xv.harness import shash

ID = "C08"
LEVEL = "exploration"
RULE = ("pools of ~200 attributes: xv.genattr builtin values (boundary numerics), near-duplicates differing in exactly one "
        "leaf (sign of zero, NaN payload, +-1, width, signedness, one character, bool-vs-int payload), float corner-case "
        "family, rebuilt copies and dialect attributes harvested from the corpus; all pairs + complete transitivity + "
        "dict/set behaviour per pool; same text parsed in two Contexts (generated texts and all corpus modules), also after "
        "interleaved histories of up to 5000 (quick) / 60000 (thorough) other look-ups with checkpoints; CSE on "
        "modules whose ops differ only in near-duplicate attributes. Non-trivial = a compared pair whose members have "
        "the same class and differ in at most one leaf (incl. equal copies built independently); distinct by hash of "
        "the pair of canonical forms")
LEVEL_TEXT = ("==, !=, hash(), set and dict behaviour of real attribute objects are compared with an independent bit-level "
              "canonical form over all pairs of generated/corpus attribute pools, across Contexts and through the CSE pass; "
              "held = no pair explored violated reflexivity, symmetry, transitivity, eq=>hash, eq<=>same value, other than "
              "the mechanisms listed as known findings.")
LEVEL_NOTE = ("trusts xv.canon.canon_attr_strict as the definition of 'same value' (class + parameters, floats by bit "
              "pattern, bool payloads as ints) and CPython's dict/set")
TECHNIQUE = "invariant at a hook: eq/hash/dict laws evaluated on all pairs of attribute pools against an independent canonical form; differential across Contexts and across the CSE pass"
ENGINES = ["harness", "canon", "corpus"]
ASSUMPTIONS = ["canon_attr_strict equality is the intended value equality (bool and int payloads coincide by rule)",
               "CPython dict/set semantics"]
JOB_TIMEOUT = {"quick": 1800, "thorough": 7200}

K_ZERO = "floatdata-eq-ignores-zero-sign"
K_NAN = "floatdata-eq-ignores-nan-payload"
K_HASHNAN = "floatdata-hash-of-nan-is-identity-based"
K_UNREG = "unregistered-attr-class-per-context"
K_RES = "dense-resource-handle-renamed-process-global-state"


def _imports():
    g = globals()
    if "bi" in g:
        return
    import xdsl.dialects.builtin as bi
    from xdsl.ir import Attribute, Data, ParametrizedAttribute
    from xdsl.parser import Parser
    from xv import corpus, genattr
    from xv.canon import canon_attr_strict as canon
    from xv.corpus import new_ctx
    g.update(locals())


# ------------------------------------------------------------------ classification of eq/canon disagreements
def leaf_diffs(a, b, out, path=()):
    """Parallel walk: appends (path, x, y) for the innermost differing sub-trees (by canonical form)."""
    if canon(a) == canon(b):
        return
    ca, cb = genattr.children(a), genattr.children(b)
    if isinstance(a, bi.DenseResourceAttr):
        ca = cb = []  # leaf: the handle is process-global state
    if type(a).__qualname__ == type(b).__qualname__ and type(a).__module__ == type(b).__module__ and ca and len(ca) == len(cb):
        if isinstance(a, bi.DictionaryAttr):
            ca, cb = sorted(ca), sorted(cb)
        if [s for s, _ in ca] == [s for s, _ in cb]:
            before = len(out)
            for (s, x), (_, y) in zip(ca, cb):
                leaf_diffs(x, y, out, path + (s,))
            if len(out) > before:
                return
    out.append((path, a, b))


def blame(a, b, out):
    """a == b although canon(a) != canon(b): find the node(s) whose own __eq__ ignores a difference (their differing
    children are NOT equal, or they have no children)."""
    ca, cb = genattr.children(a), genattr.children(b)
    if type(a) is type(b) and ca and len(ca) == len(cb):
        if isinstance(a, bi.DictionaryAttr):
            ca, cb = sorted(ca), sorted(cb)
        if [s for s, _ in ca] == [s for s, _ in cb]:
            sub = [(x, y) for (_s, x), (_t, y) in zip(ca, cb) if canon(x) != canon(y)]
            if sub and all(x == y for x, y in sub):
                for x, y in sub:
                    blame(x, y, out)
                return
    out.append((a, b))


def missing_dataclass_fields(x):
    """IRDL parameters of a ParametrizedAttribute class that are no dataclass fields (so the generated __eq__/__hash__
    cannot see them)."""
    import dataclasses
    if not isinstance(x, ParametrizedAttribute):
        return set()
    try:
        params = [p for p, _ in type(x).get_irdl_definition().parameters]
    except Exception:  # noqa: BLE001
        return set()
    return set(params) - {f.name for f in dataclasses.fields(x)}


def classify_eq_but_differs(a, b):
    """a == b although canon differs -> set of mechanism keys (by the node whose __eq__ ignores the difference)."""
    blamed = []
    blame(a, b, blamed)
    keys = set()
    for x, y in blamed:
        if isinstance(x, bi.FloatData) and isinstance(y, bi.FloatData):
            if x.data == 0 and y.data == 0:
                keys.add(K_ZERO)
                continue
            if math.isnan(x.data) and math.isnan(y.data):
                keys.add(K_NAN)
                continue
        if type(x) is type(y) and missing_dataclass_fields(x) and type(x).__eq__ is not object.__eq__:
            differing = {s for (s, u), (_t, v) in zip(genattr.children(x), genattr.children(y)) if canon(u) != canon(v)}
            names = [p for p, _ in type(x).get_irdl_definition().parameters]
            if differing and all(names[i] in missing_dataclass_fields(x) for i in differing):
                keys.add(f"eq-ignores-parameters-missing-from-dataclass-fields:{x.name}")
                continue
        keys.add(f"eq-but-value-differs:{type(x).__name__}")
    return keys or {f"eq-but-value-differs:{type(a).__name__}"}


def has_nan_floatdata(a):
    return any(isinstance(n, bi.FloatData) and math.isnan(n.data) for n, _p, _s in genattr.walk(a))


def nan_hash_unstable(a, b):
    """The known wrong-behaviour model: two NaN FloatData with identical bits hash differently."""
    na = [n for n, _p, _s in genattr.walk(a) if isinstance(n, bi.FloatData) and math.isnan(n.data)]
    nb = [n for n, _p, _s in genattr.walk(b) if isinstance(n, bi.FloatData) and math.isnan(n.data)]
    return any(genattr.f64_bits(x.data) == genattr.f64_bits(y.data) and hash(x) != hash(y) for x in na for y in nb)


def count_leaf_diffs(a, b):
    d = []
    leaf_diffs(a, b, d)
    return len(d)


# ------------------------------------------------------------------ pool construction
def float_family(rng):
    """Planted float corner cases: +-0, NaNs with several payloads/signs, as FloatData, FloatAttr, nested and dense."""
    out = []
    nan_bits = [0x7FF8000000000000, 0xFFF8000000000000, 0x7FF8000000000001, 0x7FF4000000000000]
    vals = [0.0, -0.0] + [genattr.f64_from_bits(u) for u in nan_bits] + [genattr.f64_from_bits(0x7FF8000000000000)]
    tys = [bi.f64, bi.f32, bi.f16, bi.bf16, rng.choice([bi.f8E4M3FN, bi.tf32, bi.f8E5M2, bi.f80])]
    for v in vals:
        out.append(bi.FloatData(v))
    for ty in rng.sample(tys, 3):
        for v in vals:
            out.append(bi.FloatAttr(v, ty))
    out.append(bi.ArrayAttr([bi.FloatAttr(0.0, bi.f32), bi.IntegerAttr(1, bi.i32)]))
    out.append(bi.ArrayAttr([bi.FloatAttr(-0.0, bi.f32), bi.IntegerAttr(1, bi.i32)]))
    out.append(bi.DictionaryAttr({"v": bi.FloatAttr(math.nan, bi.f64)}))
    out.append(bi.DictionaryAttr({"v": bi.FloatAttr(genattr.f64_from_bits(0xFFF8000000000000), bi.f64)}))
    t = bi.TensorType(bi.f32, [2])
    out.append(bi.DenseIntOrFPElementsAttr.from_list(t, [0.0, 0.0]))
    out.append(bi.DenseIntOrFPElementsAttr.from_list(t, [0.0, -0.0]))
    out.append(bi.DenseIntOrFPElementsAttr.from_list(t, [-0.0, -0.0]))
    out.append(bi.DenseArrayBase.from_list(bi.f64, [0.0, math.nan]))
    out.append(bi.DenseArrayBase.from_list(bi.f64, [-0.0, math.nan]))
    # the same dictionaries built / parsed with different entry orders (order-insensitive container: eq => same hash)
    i32 = bi.i32
    d_ab = bi.DictionaryAttr({"a": bi.IntegerAttr(1, i32), "b": bi.IntegerAttr(2, i32)})
    d_ba = bi.DictionaryAttr({"b": bi.IntegerAttr(2, i32), "a": bi.IntegerAttr(1, i32)})
    d3 = {"x": bi.UnitAttr(), "y": bi.StringAttr("s"), "z": bi.FloatAttr(1.0, bi.f32), "w": d_ab}
    ks = list(d3)
    out += [d_ab, d_ba, bi.ArrayAttr([d_ab, bi.UnitAttr()]), bi.ArrayAttr([d_ba, bi.UnitAttr()]),
            bi.DictionaryAttr({"o": d_ab, "p": i32}), bi.DictionaryAttr({"p": i32, "o": d_ba}),
            bi.DictionaryAttr(d3), bi.DictionaryAttr({k: d3[k] for k in reversed(ks)}),
            bi.DictionaryAttr({k: d3[k] for k in rng.sample(ks, len(ks))}),
            bi.TensorType(bi.f32, [2], d_ab), bi.TensorType(bi.f32, [2], d_ba)]
    pctx = new_ctx(True)
    for t in ("{a = 1 : i32, b = 2 : i32}", "{b = 2 : i32, a = 1 : i32}", "[{a = 1 : i32, b = 2 : i32}, unit]",
              "[{b = 2 : i32, a = 1 : i32}, unit]", "{o = {b = 2 : i32, a = 1 : i32}, p = i32}"):
        out.append(Parser(pctx, t).parse_attribute())
    out += [bi.IntAttr(True), bi.IntAttr(1), bi.IntAttr(False), bi.IntAttr(0), bi.IntegerAttr(1, bi.i1), bi.IntegerAttr(-1, bi.i1),
            bi.IntegerAttr(0, bi.i32), bi.IntegerAttr(0, bi.i64), bi.IntegerAttr(0, bi.IndexType()),
            bi.IntegerAttr(0, bi.IntegerType(32, bi.Signedness.SIGNED)), bi.StringAttr(""), bi.BytesAttr(b""),
            bi.StringAttr("a"), bi.BytesAttr(b"a"), bi.NoneAttr(), bi.NoneType(), bi.UnitAttr(), bi.ArrayAttr([]),
            bi.DictionaryAttr({}), bi.TupleType(()), bi.SymbolRefAttr("a"), bi.StringAttr("a ")]
    return out


_HARVEST = {}


def harvest(shard_i, shard_n, limit_chunks):
    """Dialect (and builtin) attributes of the corpus chunks of this shard: op attributes, properties, result and
    block-argument types and everything nested in them; deduplicated by canonical form."""
    key = (shard_i, shard_n, limit_chunks)
    if key in _HARVEST:
        return _HARVEST[key]
    chunks = corpus.shard(corpus.chunks(), shard_i, shard_n)[:limit_chunks]
    seen = {}
    stats = {"chunks": 0, "modules": 0}
    for rel, idx, text in chunks:
        stats["chunks"] += 1
        r = corpus.parse_verified(text, rel)
        if r is None:
            continue
        stats["modules"] += 1
        _ctx, m = r
        for op in m.walk():
            tops = list(op.attributes.values()) + list(op.properties.values()) + [x.type for x in op.results]
            for reg in op.regions:
                for blk in reg.blocks:
                    tops += [x.type for x in blk.args]
            for t in tops:
                for n, _p, _s in genattr.walk(t):
                    c = canon(n)
                    if c not in seen:
                        seen[c] = n
    _HARVEST[key] = (list(seen.values()), stats)
    return _HARVEST[key]


def build_pool(rng, harvested, size=200):
    pool = []
    tags = []

    def add(a, tag):
        pool.append(a)
        tags.append(tag)

    for a in float_family(rng):
        add(a, "family")
    gen_n = size // 2
    bases = []
    for _ in range(gen_n):
        g = genattr.AttrGen(rng, max_depth=rng.choice([0, 1, 1, 2, 3]), avoid=("dense_resource",))
        a = g.attr()
        bases.append(a)
        add(a, "gen")
    for a in rng.sample(bases, min(35, len(bases))):
        for d in genattr.near_duplicates(a, rng, k=rng.choice([1, 2])):
            add(d, "neardup")
    for a in rng.sample(bases, min(20, len(bases))):
        add(genattr.rebuild(a), "copy")
    # the same values along another construction path: entries of order-insensitive containers inserted in another order
    for _ in range(12):
        d = genattr.AttrGen(rng, max_depth=2, avoid=("dense_resource",)).dict_attr(rng.choice([1, 2]))
        if len(d.data) >= 2:
            bases.append(d)
            add(d, "gen")
    unordered = [a for a in bases if genattr.has_unordered_container(a)]
    for a in unordered[:30]:
        add(genattr.rebuild_reordered(a, rng), "reordered")
    if harvested:
        hs = rng.sample(harvested, min(40, len(harvested)))
        for h in hs:
            add(h, "corpus")
        for h in hs:
            if genattr.has_unordered_container(h):
                try:
                    add(genattr.rebuild_reordered(h, rng), "reordered")
                except Exception:  # noqa: BLE001
                    pass
        for h in hs[:12]:
            try:
                add(genattr.rebuild(h), "corpus-copy")
            except Exception:  # noqa: BLE001  (dialect attribute whose generic constructor rejects its own parameters)
                pass
            for d in genattr.near_duplicates(h, rng, k=1):
                add(d, "corpus-neardup")
    return pool, tags


# ------------------------------------------------------------------ the laws on one pool
def check_pool(pool, tags, R, prefix=""):
    n = len(pool)
    canons = [canon(a) for a in pool]
    chash = [shash(c) for c in canons]
    hashes = []
    for i, a in enumerate(pool):
        try:
            hashes.append(hash(a))
        except Exception as e:  # noqa: BLE001
            R.viol(f"hash-raises:{type(e).__name__}:{type(a).__name__}", f"hash() of an attribute raised {e!r}", [a])
            hashes.append(None)
    R.bump("hash_calls", n)
    eq = [[False] * n for _ in range(n)]
    for i in range(n):
        a = pool[i]
        r = a == a
        R.bump("eq_calls")
        if r is not True or (a != a) is not False:
            R.viol(f"not-reflexive:{type(a).__name__}", "a == a is not True (or a != a is not False)", [a])
        eq[i][i] = True
        for j in range(i + 1, n):
            b = pool[j]
            e1 = a == b
            e2 = b == a
            ne = a != b
            R.bump("eq_calls", 3)
            if not isinstance(e1, bool) or not isinstance(e2, bool):
                R.viol(f"eq-returns-non-bool:{type(a).__name__}", f"== returned {e1!r}/{e2!r}", [a, b])
            if bool(e1) != bool(e2):
                R.viol(f"eq-not-symmetric:{type(a).__name__}:{type(b).__name__}", f"a==b is {e1} but b==a is {e2}", [a, b])
            if bool(ne) == bool(e1):
                R.viol(f"ne-inconsistent-with-eq:{type(a).__name__}", f"a==b is {e1} and a!=b is {ne}", [a, b])
            e = bool(e1)
            eq[i][j] = eq[j][i] = e
            same = canons[i] == canons[j]
            sameclass = canons[i][1] == canons[j][1]
            if same and "reordered" in (tags[i], tags[j]) and a is not b:
                R.bump("pairs_equal_value_other_construction_order")
            if sameclass and (same or e or tags[j] in ("neardup", "corpus-neardup", "family")):
                if same or count_leaf_diffs(a, b) <= 1:
                    R.nontrivial.add(shash((chash[i], chash[j])))
                    R.bump("nontrivial_pairs")
            if e and not same:
                R.bump("pairs_eq_but_value_differs")
                for k in classify_eq_but_differs(a, b):
                    R.viol(k, "a == b although their payloads differ observably", [a, b])
            elif same and not e:
                R.bump("pairs_same_value_not_equal")
                R.viol(f"same-value-not-equal:{type(a).__name__}", "two attributes built from the same parameters are not ==",
                       [a, b])
            if e and hashes[i] is not None and hashes[j] is not None and hashes[i] != hashes[j]:
                R.bump("pairs_eq_but_hash_differs")
                if nan_hash_unstable(a, b):
                    R.viol(K_HASHNAN, "a == b but hash(a) != hash(b); both contain a NaN FloatData", [a, b])
                else:
                    R.viol(f"eq-but-hash-differs:{type(a).__name__}", "a == b but hash(a) != hash(b)", [a, b])
            if e:
                R.bump("equal_pairs")
    R.bump(prefix + "pairs_compared", n * (n - 1) // 2)
    # complete transitivity check over the measured relation
    for b in range(n):
        cls = [i for i in range(n) if eq[b][i]]
        if len(cls) > 2:
            R.bump("transitivity_classes_checked")
        for x in range(len(cls)):
            for y in range(x + 1, len(cls)):
                R.bump("transitivity_triples")
                if not eq[cls[x]][cls[y]]:
                    a, m, c = pool[cls[x]], pool[b], pool[cls[y]]
                    diffs = []
                    leaf_diffs(a, c, diffs)
                    R.viol(f"eq-not-transitive:{type(m).__name__}", "a == b and b == c but a != c", [a, m, c])
    # hashing through set / dict
    live = [i for i in range(n) if hashes[i] is not None]
    s = set()
    d = {}
    for i in live:
        s.add(pool[i])
        d.setdefault(pool[i], i)
    R.bump("set_insertions", len(live))
    for i in live:
        a = pool[i]
        if a not in s:
            R.viol(f"set-loses-member:{type(a).__name__}", "an inserted attribute is not found in the set", [a])
        k = d.get(a)
        if k is None:
            R.viol(f"dict-loses-key:{type(a).__name__}", "an inserted key is not found in the dict", [a])
        elif canons[k] != canons[i]:
            R.bump("dict_key_conflations")
            for key in classify_eq_but_differs(pool[k], a):
                R.viol(key, "dict keyed by attributes conflates two observably different values", [pool[k], a])
        if tags[i] in ("copy", "corpus-copy", "reordered"):
            R.bump("lookups_through_equal_copy")
        if tags[i] == "reordered":
            R.bump("reordered_container_copies_checked")
    ncanon = len({canons[i] for i in live})
    R.bump("distinct_values_in_pools", ncanon)
    R.bump("set_sizes", len(s))
    if len(s) > ncanon:
        # some equal values did not merge: must be explained by pairs already reported (eq false or hash differs)
        R.bump("sets_larger_than_value_count")


# ------------------------------------------------------------------ directed: same-class groups of corpus attributes
def check_class_groups(harvested, rng, R, per_class=14):
    """All pairs among (up to per_class) distinct corpus instances of each attribute class plus one near-duplicate
    each: distinct values of one class must be unequal (a generated __eq__ that misses a parameter shows up here)."""
    groups = {}
    for h in harvested:
        groups.setdefault(type(h), []).append(h)
    for cls, members in sorted(groups.items(), key=lambda kv: kv[0].__module__ + kv[0].__qualname__):
        members = members if len(members) <= per_class else rng.sample(members, per_class)
        extra = []
        for m in members[:6]:
            extra += genattr.near_duplicates(m, rng, k=1)
        pool = members + [e for e in extra if type(e) is cls]
        if len(pool) < 2:
            R.bump("class_groups_singleton")
            continue
        R.bump("class_groups")
        R.sets["group_classes"].add(cls.__module__.split(".")[-1] + "." + cls.__name__)
        check_pool(pool, ["corpus"] * len(members) + ["corpus-neardup"] * (len(pool) - len(members)), R, prefix="group_")


# ------------------------------------------------------------------ two contexts
def check_two_contexts_generated(rng, R, n):
    ctxs = [new_ctx(True), new_ctx(True)]
    for _ in range(n):
        g = genattr.AttrGen(rng, max_depth=rng.choice([0, 1, 2, 3]), avoid=genattr.SAFE_AVOID - {"dense_resource"})
        a = g.attr()
        text = str(a)
        try:
            p = [Parser(ctxs[0], text).parse_attribute(), Parser(ctxs[1], text).parse_attribute(),
                 Parser(ctxs[0], text).parse_attribute()]
        except Exception as e:  # noqa: BLE001 - C06's business; count and go on
            R.bump("twoctx_unparsable_text_skipped")
            continue
        R.bump("twoctx_generated_texts")
        R.sets["twoctx_classes"].add(type(a).__name__)
        compare_parsed(p[0], p[1], text, "two-contexts", R)
        compare_parsed(p[0], p[2], text, "same-context-twice", R)


def compare_parsed(x, y, text, how, R):
    R.bump("twoctx_pairs")
    same = canon(x) == canon(y)
    e = x == y
    if same:
        R.nontrivial.add(shash(("2ctx", shash(canon(x)))))
    if not same:
        diffs = []
        leaf_diffs(x, y, diffs)
        keys = set()
        for _p, u, v in diffs:
            if isinstance(u, bi.DenseResourceAttr) and isinstance(v, bi.DenseResourceAttr) and canon(u.type) == canon(v.type) \
                    and u.resource_handle.data.rstrip("0123456789_") == v.resource_handle.data.rstrip("0123456789_"):
                keys.add(K_RES)
            else:
                keys.add(f"same-text-different-value:{how}:{type(u).__name__}")
        for k in keys:
            R.viol(k, f"the same text parsed {how} gives canonically different attributes", [x, y], text=text)
        return
    if e is not True or (y == x) is not True:
        unreg = any(isinstance(n, bi.UnregisteredAttr) for n, _p, _s in genattr.walk(x))
        R.viol(K_UNREG if (unreg and how == "two-contexts") else f"same-text-not-equal:{how}:{type(x).__name__}",
               f"the same text parsed {how} gives attributes that are not ==", [x, y], text=text)
    elif hash(x) != hash(y):
        R.viol(K_HASHNAN if has_nan_floatdata(x) else f"same-text-hash-differs:{how}:{type(x).__name__}",
               f"the same text parsed {how} gives equal attributes with different hashes", [x, y], text=text)


def check_two_contexts_corpus(shard_i, shard_n, limit, R):
    chunks = corpus.shard(corpus.chunks(), shard_i, shard_n)[:limit]
    for rel, idx, text in chunks:
        r1 = corpus.parse_verified(text, rel)
        if r1 is None:
            continue
        r2 = corpus.parse_verified(text, rel)
        if r2 is None:
            R.viol("corpus-chunk-parses-once-only", "a corpus chunk parsed and verified once but not the second time", [],
                   text=f"{rel}#{idx}")
            continue
        R.bump("twoctx_corpus_modules")
        ops1, ops2 = list(r1[1].walk()), list(r2[1].walk())
        if len(ops1) != len(ops2):
            R.viol("corpus-chunk-op-count-differs", "two parses of one chunk give different op counts", [], text=f"{rel}#{idx}")
            continue
        for o1, o2 in zip(ops1, ops2):
            pairs = []
            for k in sorted(set(o1.attributes) | set(o2.attributes)):
                pairs.append((o1.attributes.get(k), o2.attributes.get(k)))
            for k in sorted(set(o1.properties) | set(o2.properties)):
                pairs.append((o1.properties.get(k), o2.properties.get(k)))
            pairs += list(zip([x.type for x in o1.results], [x.type for x in o2.results]))
            for x, y in pairs:
                if x is None or y is None:
                    R.viol("corpus-chunk-attr-missing", "attribute present in one parse only", [], text=f"{rel}#{idx} {o1.name}")
                    continue
                R.bump("twoctx_corpus_attr_pairs")
                compare_parsed(x, y, f"{rel}#{idx} {o1.name}", "two-contexts", R)


# ------------------------------------------------------------------ interleaved histories (memoisation / global state)
# Attribute construction paths with process-global or context-dependent memoisation in xDSL (searched: functools.cache /
# lru_cache / memo dictionaries): UnregisteredAttr.with_name_and_type (functools.cache, keyed (name, is_type)),
# Context._loaded_attrs/_loaded_types (per context), the builtin dialect's resource table (process-global; known finding,
# excluded here), dialect modules incl. IRDL-interpreted ones (sys.modules).  A bounded or wrongly keyed memo only shows
# after a long history of OTHER look-ups between two uses of the same text / constructor arguments.
_HIST_TARGETS = ['#{d}.a<1, 2>', '!{d}.t', '!{d}.t2<i32>', '#{d}<opq 1>', '!{d}<opqt "s">', '[#{d}.a<1>, !{d}.t, 1 : i32]',
                 '{{k = #{d}.b, t = !{d}.t}}', 'tensor<2x!{d}.t>', '(!{d}.t) -> !{d}.t2<f32>', 'memref<2xf32, #{d}.ms>',
                 'tuple<!{d}.t, i1>', 'tensor<2xf32, #{d}.enc<{{x = 1}}>>', 'loc(fused<#{d}.meta>[unknown])',
                 '!cmath.complex<f32>', '#builtin.int<3>', 'vector<4x!{d}.e>']


def _safe_parse(ctx, text):
    return Parser(ctx, text).parse_attribute()


def compare_group(objs, text, stage, R):
    """objs: [(label, attribute)] that all denote the same text / constructor arguments."""
    l0, a0 = objs[0]
    c0 = canon(a0)
    s0 = {a0}
    d0 = {a0: l0}
    for label, a in objs[1:]:
        R.bump("history_comparisons")
        why = None
        if canon(a) != c0:
            why = "canonically different"
        elif (a0 == a) is not True or (a == a0) is not True or (a0 != a) is not False:
            why = "not equal"
        elif hash(a0) != hash(a):
            why = "hashes differ"
        elif a not in s0 or d0.get(a) != l0:
            why = "set/dict lookup fails"
        if why is None:
            R.nontrivial.add(shash(("hist", shash(c0), label, stage)))
            continue
        blamed = "?"
        pairs = list(zip(genattr.walk(a0), genattr.walk(a))) if canon(a) == c0 else []
        for (x, _p, _s), (y, _q, _t) in pairs:
            if type(x) is not type(y):
                blamed = "class-object-differs:" + ("UnregisteredAttr" if isinstance(x, bi.UnregisteredAttr) else type(x).__name__)
                break
        R.viol(f"interleaved-history:same-value-{why.replace(' ', '-').replace('/', '-')}:{blamed}",
               f"{l0} vs {label} after {stage} interleaved look-ups: the same text / constructor arguments give attributes "
               f"that are {why}", [a0, a], text=text)


def check_interleaved_history(rng, R, n_other, harvested, checkpoints):
    """Parse / construct targets, then run a long history of OTHER unregistered names, generated attributes, corpus
    attribute texts and constructions.  Every checkpoint owns its own group of targets (own unregistered dialect name),
    first used at time 0 and not touched again before its checkpoint - so the distance between the two uses really is
    the checkpoint position (re-using targets would refresh an LRU memo).  At its checkpoint a group is re-parsed in the
    old context, in fresh contexts and through the constructors and compared with the first results (kept alive)."""
    checkpoints = sorted({min(cp, n_other) for cp in checkpoints})
    base = f"h{rng.getrandbits(24):x}"
    shared = []
    for h in rng.sample(harvested, min(25, len(harvested))):
        try:
            t = str(h)
            if "dense_resource" in t or len(t) > 400:
                continue
            _safe_parse(new_ctx(True), t)
            shared.append(t)
        except Exception:  # noqa: BLE001 - not every dialect attribute re-parses stand-alone (C05/C06)
            R.bump("history_corpus_texts_unparsable_skipped")
    for _ in range(15):
        shared.append(str(genattr.AttrGen(rng, max_depth=rng.choice([0, 1, 2]), avoid=genattr.SAFE_AVOID).attr()))
    ctx1 = new_ctx(True)
    groups = []
    for k, cp in enumerate(checkpoints):
        tag = f"{base}k{k}"
        texts = [t.format(d=tag) for t in _HIST_TARGETS] + shared[k::len(checkpoints)]
        first = {}
        for t in texts:
            try:
                first[t] = _safe_parse(ctx1, t)
            except Exception:  # noqa: BLE001
                R.bump("history_targets_unparsable_skipped")
        ctor_args = [(f"{tag}.ca", False, "1, 2"), (f"{tag}.ct", True, ""), (f"{tag}.a", False, "1, 2"), (f"{tag}.t", True, "")]
        ctor_first = [bi.UnregisteredAttr.with_name_and_type(n, ty)(n, ty, False, body) for n, ty, body in ctor_args]
        R.bump("history_targets", len(first) + len(ctor_first))
        groups.append((cp, first, ctor_args, ctor_first))
    side_ctx = new_ctx(True)
    done = 0
    for cp, first, ctor_args, ctor_first in groups:
        while done < cp:
            i = done
            done += 1
            p = rng.random()
            name = f"o{base}{i % 97}.n{i}"
            if p < .4:
                _safe_parse(ctx1, f"#{name}<{i}>")
            elif p < .6:
                _safe_parse(side_ctx, f"!{name}")
            elif p < .72:
                _safe_parse(side_ctx, f"[#{name}.x, !{name}.y<i32>]")
            elif p < .82:
                ty = rng.random() < .5
                bi.UnregisteredAttr.with_name_and_type(name, ty)(name, ty, False, str(i))
            elif p < .9:
                g = genattr.AttrGen(rng, max_depth=1, avoid=genattr.SAFE_AVOID).attr()
                _safe_parse(side_ctx, str(g))
            elif p < .97 and harvested:
                try:
                    _safe_parse(side_ctx, str(rng.choice(harvested)))
                except Exception:  # noqa: BLE001
                    pass
            else:
                side_ctx = new_ctx(True)
            R.bump("history_interleaved_lookups")
        stage = str(done)
        fresh_a, fresh_b = new_ctx(True), new_ctx(True)
        for t, a1 in first.items():
            compare_group([("first parse in context 1", a1), ("parse in a fresh context", _safe_parse(fresh_a, t)),
                           ("parse in a second fresh context", _safe_parse(fresh_b, t)),
                           ("parse in the side context", _safe_parse(side_ctx, t)),
                           ("re-parse in context 1", _safe_parse(ctx1, t))], t, stage, R)
        for (n, ty, body), c1 in zip(ctor_args, ctor_first):
            txt = ("!" if ty else "#") + n + (f"<{body}>" if body else "")
            compare_group([("first construction", c1),
                           ("construction through with_name_and_type again", bi.UnregisteredAttr.with_name_and_type(n, ty)(n, ty, False, body)),
                           ("parse in a fresh context", _safe_parse(new_ctx(True), txt)),
                           ("parse in context 1", _safe_parse(ctx1, txt))], txt, stage, R)
        R.bump("history_checkpoints")


# ------------------------------------------------------------------ IRDL-defined dialects loaded several times
_IRDL_INLINE = """
builtin.module {
  irdl.dialect @xvdyn {
    irdl.type @box {
      %0 = irdl.any
      irdl.parameters(elem: %0)
    }
    irdl.type @pair {
      %0 = irdl.any
      %1 = irdl.any
      irdl.parameters(first: %0, second: %1)
    }
    irdl.type @unit {
    }
  }
}
"""


def _irdl_sources():
    """(label, text) of every IRDL dialect description found: xdsl/dialects/*.irdl, corpus chunks with irdl.dialect, and
    an inline one with unconstrained parameters."""
    import glob
    import os
    out = [("inline:xvdyn", _IRDL_INLINE)]
    for f in sorted(glob.glob(os.path.join(corpus.REPO, "xdsl", "dialects", "*.irdl"))):
        out.append((os.path.relpath(f, corpus.REPO), open(f).read()))
    for rel, idx, text in corpus.chunks():
        if "irdl.dialect" in text:
            out.append((f"{rel}#{idx}", text))
    return out


def _load_irdl(text, skip_names=()):
    """One load: parse the description in a fresh context and run the IRDL interpreter -> [(ctx, Dialect)] where ctx
    has the new dialect registered (instead of a builtin factory of the same name)."""
    from xdsl.context import Context
    from xdsl.dialects import get_all_dialects
    from xdsl.dialects.irdl import DialectOp
    from xdsl.interpreters.irdl import make_dialect
    pctx = new_ctx(False)
    module = Parser(pctx, text).parse_module()
    loads = []
    for op in module.walk():
        if isinstance(op, DialectOp):
            d = make_dialect(op)
            ctx = Context(allow_unregistered=False)
            for n, f in get_all_dialects().items():
                if n != d.name:
                    ctx.register_dialect(n, f)
            ctx.register_dialect(d.name, lambda d=d: d)
            loads.append((ctx, d))
    return loads


def check_irdl_multi_load(rng, R, n_loads=3):
    """Every IRDL-described dialect is instantiated n_loads times in this process.  The same attribute texts are parsed
    against each load (twice per context, plus in a second context sharing the same load) and built through the
    generic constructor; then the eq / hash / set / dict laws are checked over ALL pairs.  Same-load pairs of the same
    value must be equal; cross-load pairs may be equal or unequal, but consistently, and always eq => equal hashes."""
    params_pool = [bi.f32, bi.f64, bi.i32, bi.i1, bi.IndexType(), bi.IntegerAttr(1, bi.i32), bi.StringAttr("s"),
                   bi.TensorType(bi.f32, [2])]
    for label, text in _irdl_sources():
        try:
            all_loads = [_load_irdl(text) for _ in range(n_loads)]
        except Exception as e:  # noqa: BLE001 - invalid / unsupported descriptions in the corpus (C17-ish), counted
            R.bump("irdl_sources_not_loadable_skipped")
            R.sets["irdl_skip_reasons"].add(f"{type(e).__name__}")
            continue
        ndial = min(len(x) for x in all_loads)
        for di in range(ndial):
            loads = [x[di] for x in all_loads]
            d0 = loads[0][1]
            R.bump("irdl_dialects_loaded")
            R.bump("irdl_loads", len(loads))
            R.sets["irdl_dialects"].add(d0.name)
            # texts: built against load 0 by trial construction
            texts = []
            types0 = [a for a in d0.attributes if issubclass(a, ParametrizedAttribute)]
            built0 = []
            for cls in types0:
                k = len(cls.get_irdl_definition().parameters)
                got = 0
                for _try in range(60):
                    ps = [rng.choice(params_pool + built0[-4:]) for _ in range(k)]
                    try:
                        a = cls.new(ps)
                    except Exception:  # noqa: BLE001 - constraint of the description rejects these parameters
                        continue
                    built0.append(a)
                    texts.append((str(a), cls.name, ps if not any(type(p).__module__ == "xdsl.ir.core" for p in ps) else None))
                    got += 1
                    if got >= (1 if k == 0 else 5):
                        break
            seen = set()
            texts = [t for t in texts if not (t[0] in seen or seen.add(t[0]))]
            for t, _n, _p in list(texts)[:8]:
                texts.append((f"tensor<2x{t}>", None, None))
                texts.append((f"[{t}, 1 : i32]", None, None))
                texts.append((f"({t}) -> tuple<{t}>", None, None))
            pool = []  # (attr, load index, how)
            for li, (ctx, d) in enumerate(loads):
                ctx_b = None
                for t, cname, ps in texts:
                    try:
                        pool.append((Parser(ctx, t).parse_attribute(), li, "parse"))
                        pool.append((Parser(ctx, t).parse_attribute(), li, "parse-again"))
                        if ctx_b is None:
                            from xdsl.context import Context
                            from xdsl.dialects import get_all_dialects
                            ctx_b = Context()
                            for n, f in get_all_dialects().items():
                                if n != d.name:
                                    ctx_b.register_dialect(n, f)
                            ctx_b.register_dialect(d.name, lambda d=d: d)
                        pool.append((Parser(ctx_b, t).parse_attribute(), li, "parse-second-context-same-load"))
                    except Exception:  # noqa: BLE001 - text of a dynamic type that does not re-parse (C05/C06 territory)
                        R.bump("irdl_texts_unparsable_skipped")
                        continue
                    if ps is not None and cname is not None:
                        cls = next(a for a in d.attributes if a.name == cname)
                        pool.append((cls.new(list(ps)), li, "constructor"))
            R.bump("irdl_pool_members", len(pool))
            _laws_multi_load(pool, f"{label}:{d0.name}", R)


def _laws_multi_load(pool, label, R):
    n = len(pool)
    canons = [canon(a) for a, _l, _h in pool]
    hashes = [hash(a) for a, _l, _h in pool]
    eq = [[False] * n for _ in range(n)]
    cross = {}
    for i in range(n):
        a, la, _ = pool[i]
        if (a == a) is not True or (a != a) is not False:
            R.viol(f"irdl-multi-load:not-reflexive:{a.name}", "a == a is not True", [a], text=label)
        eq[i][i] = True
        for j in range(i + 1, n):
            b, lb, _ = pool[j]
            e1, e2, ne = a == b, b == a, a != b
            R.bump("irdl_pairs_compared")
            if bool(e1) != bool(e2):
                R.viol(f"irdl-multi-load:eq-not-symmetric:{a.name}", f"a==b is {e1}, b==a is {e2}", [a, b], text=label)
            if bool(ne) == bool(e1):
                R.viol(f"irdl-multi-load:ne-inconsistent-with-eq:{a.name}", f"a==b is {e1}, a!=b is {ne}", [a, b], text=label)
            e = bool(e1)
            eq[i][j] = eq[j][i] = e
            same = canons[i] == canons[j]
            if e and not same:
                for k in classify_eq_but_differs(a, b):
                    R.viol("irdl-multi-load:" + k, "a == b although their payloads differ", [a, b], text=label)
            if e and hashes[i] != hashes[j]:
                R.viol(f"irdl-multi-load:eq-but-hash-differs:{'cross-load' if la != lb else 'same-load'}:{a.name}",
                       f"a == b (loads {la} and {lb} of the same IRDL dialect) but hash(a) != hash(b)", [a, b], text=label)
            if e and ((b not in {a}) or {a: 1}.get(b) != 1):
                R.bump("irdl_set_dict_misses")
            if same and la == lb:
                R.bump("irdl_same_load_same_value_pairs")
                R.nontrivial.add(shash(("irdl", label, shash(canons[i]), pool[i][2], pool[j][2])))
                if not e:
                    R.viol(f"irdl-multi-load:same-load-same-value-not-equal:{a.name}",
                           "the same text / parameters against ONE load of an IRDL dialect give unequal attributes", [a, b], text=label)
            if same and la != lb:
                R.bump("irdl_cross_load_same_value_pairs")
                R.bump("irdl_cross_load_pairs_equal" if e else "irdl_cross_load_pairs_unequal")
                cross.setdefault(a.name, set()).add(e)
    for name, outcomes in cross.items():
        if len(outcomes) > 1:
            R.viol(f"irdl-multi-load:cross-load-equality-inconsistent:{name}",
                   "some cross-load pairs of the same value are equal and others are not", [], text=label)
    for b in range(n):
        cls = [i for i in range(n) if eq[b][i]]
        for x in range(len(cls)):
            for y in range(x + 1, len(cls)):
                R.bump("irdl_transitivity_triples")
                if not eq[cls[x]][cls[y]]:
                    R.viol(f"irdl-multi-load:eq-not-transitive:{pool[b][0].name}", "a == b and b == c but a != c",
                           [pool[cls[x]][0], pool[b][0], pool[cls[y]][0]], text=label)
    s = set(a for a, _l, _h in pool)
    for a, _l, _h in pool:
        if a not in s:
            R.viol(f"irdl-multi-load:set-loses-member:{a.name}", "inserted attribute not found in the set", [a], text=label)


# ------------------------------------------------------------------ construction is a pure function of its arguments
# (exponent bits, mantissa bits, bias, has negative zero) - written down independently of xDSL's FloatSemantics
_FLOAT_FORMATS = {"f16": (5, 10, 15, True), "bf16": (8, 7, 127, True), "f32": (8, 23, 127, True), "tf32": (8, 10, 127, True),
                  "f8E5M2": (5, 2, 15, True), "f8E4M3": (4, 3, 7, True), "f8E4M3FN": (4, 3, 7, True),
                  "f8E5M2FNUZ": (5, 2, 16, False), "f8E4M3FNUZ": (4, 3, 8, False), "f8E4M3B11FNUZ": (4, 3, 11, False),
                  "f8E3M4": (3, 4, 3, True), "f6E2M3FN": (2, 3, 1, True), "f6E3M2FN": (3, 2, 3, True),
                  "f4E2M1FN": (2, 1, 1, True)}


def ref_round(v, fmt):
    """Reference round-to-nearest-even of a finite double onto the grid of a binary float format (exact rational
    arithmetic); only used well inside the finite range.  -> python float (with the sign of zero)."""
    from fractions import Fraction
    e, m, bias, negzero = fmt
    if v == 0:
        return v if negzero else 0.0
    x = abs(Fraction(v))
    ex = x.numerator.bit_length() - x.denominator.bit_length()
    if Fraction(2) ** ex > x:
        ex -= 1
    q = Fraction(2) ** (max(ex, 1 - bias) - m)
    k = x / q
    n = k.numerator // k.denominator
    rem = k - n
    if rem > Fraction(1, 2) or (rem == Fraction(1, 2) and n % 2 == 1):
        n += 1
    r = float(n * q)
    if r == 0 and not negzero:
        return 0.0
    return -r if v < 0 else r


def purity_requests(seed):
    """Deterministic list of (request id, thunk) - the same in every shard; thunks build attributes through constructors
    and the parser.  Request ids describe the arguments exactly."""
    reqs = []
    ftypes = [bi.f16, bi.bf16, bi.f32, bi.f64, bi.tf32, bi.f8E5M2, bi.f8E4M3, bi.f8E4M3FN, bi.f8E5M2FNUZ, bi.f8E4M3FNUZ,
              bi.f8E4M3B11FNUZ, bi.f8E3M4, bi.f8E8M0FNU, bi.f6E2M3FN, bi.f6E3M2FN, bi.f4E2M1FN, bi.f80, bi.f128]
    nans = [0x7FF8000000000000, 0xFFF8000000000000, 0x7FF8000000000001, 0x7FF4000000000000, 0xFFFFFFFFFFFFFFFF]
    for ty in ftypes:
        vals = [0.0, -0.0, 1e-30, -1e-30, 1e-300, -1e-300, 5e-324, -5e-324, 1.0, -1.0, 1.5, -1.5, 0.1, -0.1, 2.0, 0.75, 3.0]
        fmt = _FLOAT_FORMATS.get(ty.name)
        if fmt:
            e, m, bias, _nz = fmt
            s = 2.0 ** (1 - bias - m)  # smallest subnormal
            mn = 2.0 ** (1 - bias)     # smallest normal
            for x in (s, s / 2, s / 2 * (1 + 2 ** -20), s * 0.75, s * 1.5, s * 2.5, mn, mn * (1 - 2.0 ** (-m - 1)),
                      mn - s, 1 + 2.0 ** (-m - 1), 1 + 3 * 2.0 ** (-m - 1), 1 + 2.0 ** -m, s / 4):
                vals += [x, -x]
        for v in vals:
            if ty.name == "f8E8M0FNU" and v < 0:
                continue
            reqs.append((f"FloatAttr({v!r}, {ty.name})", ("float", v, ty)))
        for u in nans:
            reqs.append((f"FloatAttr(nan:0x{u:016x}, {ty.name})", ("float", genattr.f64_from_bits(u), ty)))
        if ty.name not in ("f80", "f128"):
            for v in (0.0, -0.0, 1e-30, -1e-30):
                if ty.name == "f8E8M0FNU" and v != 0.0 and v < 0:
                    continue
                reqs.append((f"parse({v:.17e} : {ty.name})", ("parse", f"{v:.17e} : {ty.name}")))
                reqs.append((f"dense([{v!r}, 1.0], {ty.name})", ("dense", [v, 1.0], ty)))
                reqs.append((f"densearray([{v!r}], {ty.name})", ("array", [v], ty)))
    for txt in ("0x7e01 : f16", "0xfe00 : f16", "0x7fc00001 : f32", "0xffc00000 : f32", "0x7ff8000000000001 : f64", "0x7fc1 : bf16",
                "dense<[0.0, -0.0]> : tensor<2xf32>", "dense<[-0.0, 0.0]> : tensor<2xf32>", "dense<-0.0> : tensor<2xf16>",
                "dense<0.0> : tensor<2xf16>", "array<f32: 0.0, -0.0>", "array<f32: -0.0, 0.0>", "true", "1 : i1", "-1 : i1",
                "1 : i32", "1.0 : f32", "1 : index", "0 : i32", "0.0 : f32", "-0.0 : f32", "0 : i64", "false"):
        reqs.append((f"parse({txt})", ("parse", txt)))
    # equal-under-== python payloads
    for tag, mk in (("IntAttr(True)", lambda: bi.IntAttr(True)), ("IntAttr(1)", lambda: bi.IntAttr(1)),
                    ("IntAttr(False)", lambda: bi.IntAttr(False)), ("IntAttr(0)", lambda: bi.IntAttr(0)),
                    ("FloatData(1)", lambda: bi.FloatData(1)), ("FloatData(1.0)", lambda: bi.FloatData(1.0)),
                    ("FloatData(True)", lambda: bi.FloatData(True)), ("FloatData(0)", lambda: bi.FloatData(0)),
                    ("FloatData(0.0)", lambda: bi.FloatData(0.0)), ("FloatData(-0.0)", lambda: bi.FloatData(-0.0)),
                    ("IntegerAttr(True, i1)", lambda: bi.IntegerAttr(True, bi.i1)), ("IntegerAttr(1, i1)", lambda: bi.IntegerAttr(1, bi.i1)),
                    ("IntegerAttr(-1, i1)", lambda: bi.IntegerAttr(-1, bi.i1)), ("IntegerAttr(True, i32)", lambda: bi.IntegerAttr(True, bi.i32)),
                    ("IntegerAttr(1, i32)", lambda: bi.IntegerAttr(1, bi.i32)), ("IntegerAttr(False, i32)", lambda: bi.IntegerAttr(False, bi.i32)),
                    ("IntegerAttr(0, i32)", lambda: bi.IntegerAttr(0, bi.i32)), ("IntegerAttr(255, i8)", lambda: bi.IntegerAttr(255, bi.i8)),
                    ("IntegerAttr(-1, i8)", lambda: bi.IntegerAttr(-1, bi.i8)), ("FloatAttr(1, f32)", lambda: bi.FloatAttr(1, bi.f32)),
                    ("FloatAttr(True, f32)", lambda: bi.FloatAttr(True, bi.f32)), ("FloatAttr(0, f16)", lambda: bi.FloatAttr(0, bi.f16)),
                    ("FloatAttr(False, f16)", lambda: bi.FloatAttr(False, bi.f16)),
                    ("BoolAttr.from_bool(True)", lambda: bi.BoolAttr.from_bool(True)),
                    ("VectorType(f32,[2])", lambda: bi.VectorType(bi.f32, [2]))):
        reqs.append((tag, ("thunk", mk)))
    return reqs


def _typed_canon(a):
    """canonical form + python types of all Data payload leaves (bool / int / float are distinguished here)."""
    kinds = tuple(type(n.data).__name__ for n, _p, _s in genattr.walk(a) if isinstance(n, Data) and not isinstance(n.data, tuple))
    return (canon(a), kinds)


def check_construction_purity(job, R):
    """Runs the request list in a shard-specific order (even shards: as listed, i.e. +0.0 before -0.0; odd shards:
    reversed; then once more shuffled).  In-process oracle: the payload bits of FloatAttr must be the reference rounding
    of the requested value (sign of zero included) and a request must give the same result each time.  Cross-process
    oracle (decided in finish): every request id must give ONE result over all shards, whatever their order."""
    reqs = purity_requests(job["seed"])
    order1 = list(reqs) if job["shard"] % 2 == 0 else list(reversed(reqs))
    order2 = list(reqs)
    random.Random(f"purity:{job['seed']}:{job['shard']}").shuffle(order2)
    ctx = new_ctx(True)
    results = {}
    for rid, spec in order1 + order2:
        try:
            if spec[0] == "float":
                a = bi.FloatAttr(spec[1], spec[2])
            elif spec[0] == "parse":
                a = Parser(ctx, spec[1]).parse_attribute()
            elif spec[0] == "dense":
                a = bi.DenseIntOrFPElementsAttr.from_list(bi.TensorType(spec[2], [len(spec[1])]), spec[1])
            elif spec[0] == "array":
                a = bi.DenseArrayBase.from_list(spec[2], spec[1])
            else:
                a = spec[1]()
        except (OverflowError, ValueError, NotImplementedError) as e:
            sig = f"raises {type(e).__name__}"
            a = None
        R.bump("purity_constructions")
        sig = shash(_typed_canon(a)) if a is not None else sig
        if rid in results and results[rid][0] != sig:
            R.viol(f"construction-result-changes-within-process:{spec[0]}",
                   f"{rid} gives different results at two points of one process history", [x for x in (results[rid][1], a) if x is not None],
                   text=rid)
        results.setdefault(rid, (sig, a))
        if spec[0] == "float" and a is not None:
            v, ty = spec[1], spec[2]
            got = a.value.data
            fmt = _FLOAT_FORMATS.get(ty.name)
            want = None
            if math.isnan(v) and ty.name in ("f6E2M3FN", "f6E3M2FN", "f4E2M1FN"):
                pass  # finite-only formats have no NaN: the constructor saturates by design (cross-shard purity still applies)
            elif math.isnan(v):
                if not math.isnan(got):
                    R.viol(f"floatattr-construction-wrong-value:{ty.name}", f"{rid} holds {got!r}", [a], text=rid)
                elif ty.name in ("f64", "f80", "f128"):
                    want = v
            elif ty.name in ("f64", "f80", "f128"):
                want = v
            elif fmt and abs(v) < 2.0 ** (2 ** fmt[0] - 3 - fmt[2]):
                want = ref_round(v, fmt)
                if ty.name == "bf16":
                    # documented semantics of BFloat16Type: the double is first narrowed to binary32, then rounded to
                    # bf16 (double rounding; differs from direct rounding only within 2^-149 of a tie)
                    want = ref_round(ref_round(v, _FLOAT_FORMATS["f32"]), fmt)
            if want is not None:
                R.bump("purity_reference_comparisons")
                if genattr.f64_bits(got) != genattr.f64_bits(want):
                    R.viol(f"floatattr-construction-differs-from-requested-value:{ty.name}",
                           f"{rid} holds {got!r} (bits {genattr.f64_bits(got):#018x}), the reference rounding of the argument is "
                           f"{want!r} (bits {genattr.f64_bits(want):#018x})", [a], text=rid)
                else:
                    R.nontrivial.add(shash(("purity", rid)))
    R.sets["purity"] = {f"{rid}|{sig}" for rid, (sig, _a) in results.items()}
    R.bump("purity_requests", len(results))


# ------------------------------------------------------------------ CSE downstream
def check_cse(rng, R, n_modules):
    from xdsl.dialects import arith
    from xdsl.dialects.test import TestOp, TestPureOp
    from xdsl.transforms.common_subexpression_elimination import CommonSubexpressionElimination
    ctx = new_ctx(True)
    for _ in range(n_modules):
        ops = []
        uses = []
        groups = rng.randint(2, 6)
        for _g in range(groups):
            kind = rng.random()
            if kind < .45:
                ty = rng.choice([bi.f32, bi.f64, bi.f16, bi.bf16])
                v = rng.choice([0.0, -0.0, math.nan, genattr.f64_from_bits(0xFFF8000000000000), 1.0, -1.0,
                                genattr.f64_from_bits(0x7FF8000000000001)])
                base = bi.FloatAttr(v, ty)
                fam = [base] + genattr.near_duplicates(base, rng, k=2) + [bi.FloatAttr(v, ty)]
                mk = lambda a: arith.ConstantOp(a)  # noqa: E731
                fam = [a for a in fam if isinstance(a, bi.FloatAttr)]
            elif kind < .6:
                w = rng.choice([1, 8, 32, 64])
                base = bi.IntegerAttr(rng.choice([0, 1, -1]), w)
                fam = [base] + genattr.near_duplicates(base, rng, k=2) + [bi.IntegerAttr(base.value.data, w)]
                fam = [a for a in fam if isinstance(a, bi.IntegerAttr) and isinstance(a.type, bi.IntegerType)
                       and a.type.signedness.data == bi.Signedness.SIGNLESS]
                mk = lambda a: arith.ConstantOp(a)  # noqa: E731
            else:
                g = genattr.AttrGen(rng, max_depth=rng.choice([0, 1, 2]), avoid=("dense_resource",))
                base = g.attr()
                fam = [base] + genattr.near_duplicates(base, rng, k=3) + [genattr.rebuild(base)]
                mk = lambda a: TestPureOp(result_types=[bi.i32], attributes={"a": a})  # noqa: E731
            rng.shuffle(fam)
            for a in fam:
                op = mk(a)
                ops.append(op)
                uses.append((op.results[0], canon(a), a))
        user = TestOp.create(operands=[u[0] for u in uses])
        m = bi.ModuleOp(ops + [user])
        n_before = len(ops)
        try:
            m.verify()
        except Exception:  # noqa: BLE001
            R.bump("cse_modules_not_verifying_skipped")
            continue
        CommonSubexpressionElimination().apply(ctx, m)
        R.bump("cse_modules")
        n_after = len(list(m.body.block.ops)) - 1
        R.bump("cse_ops_before", n_before)
        R.bump("cse_ops_merged", n_before - n_after)
        for idx, (old_val, c_before, a_before) in enumerate(uses):
            now = user.operands[idx].owner
            R.bump("cse_uses_checked")
            cur = now.properties.get("value") if now.name == "arith.constant" else now.attributes.get("a")
            if cur is None or canon(cur) != c_before:
                keys = classify_eq_but_differs(a_before, cur) if cur is not None else {"cse-use-rewired-to-foreign-op"}
                for k in keys:
                    kk = {K_ZERO: "cse-merges-constants-differing-in-zero-sign", K_NAN: "cse-merges-constants-differing-in-nan-payload"}.get(
                        k, "cse-merges-distinct-ops:" + k)
                    R.viol(kk, "after CSE a use sees an op whose attribute differs observably from the one it used before",
                           [a_before, cur] if cur is not None else [a_before])
            else:
                if count_leaf_diffs(a_before, cur) == 0:
                    R.nontrivial.add(shash(("cse", shash(c_before), idx)))


# ------------------------------------------------------------------ plumbing
class Rec:
    def __init__(self, job):
        self.job = job
        self.counters = {}
        self.sets = {"twoctx_classes": set(), "pool_classes": set(), "corpus_dialects": set(), "group_classes": set(),
                     "irdl_dialects": set(), "irdl_skip_reasons": set()}
        self.violations = []
        self.nontrivial = set()
        self.per_key = {}

    def bump(self, k, n=1):
        self.counters[k] = self.counters.get(k, 0) + n

    def viol(self, key, summary, attrs, text=None):
        self.per_key[key] = self.per_key.get(key, 0) + 1
        self.bump("mechanism:" + key)
        if self.per_key[key] > 3:
            return
        w = {"values_repr": [repr(a)[:800] for a in attrs], "replay_job": self.job}
        try:
            w["values_text"] = [str(a)[:400] for a in attrs]
        except Exception:  # noqa: BLE001
            pass
        if text:
            w["text"] = text[:1000]
        self.violations.append({"key": key, "summary": summary, "witness": w})


def plan(tier, seed):
    shards = 8 if tier == "quick" else 64
    jobs = []
    for i in range(shards):
        jobs.append({"seed": seed, "shard": i, "nshards": shards,
                     "pools": 3 if tier == "quick" else 32,
                     "twoctx": 250 if tier == "quick" else 4000,
                     "corpus_chunks": 30 if tier == "quick" else 400,
                     "cse": 50 if tier == "quick" else 800, "history": 450 if tier == "quick" else 1500})
    # one directed job: corpus-wide same-class groups (quick: every second chunk)
    jobs.append({"seed": seed, "kind": "groups", "shard": seed % 3 if tier == "quick" else 0,
                 "nshards": 3 if tier == "quick" else 1, "corpus_chunks": 100000})
    # directed job: IRDL-described dialects instantiated several times in one process
    jobs.append({"seed": seed, "kind": "irdl", "shard": 0, "nshards": 1000000, "corpus_chunks": 0,
                 "loads": 3 if tier == "quick" else 5})
    # directed job: long interleaved history between two uses of the same text / constructor arguments
    jobs.append({"seed": seed, "kind": "history", "shard": seed % 8, "nshards": 8 if tier == "quick" else 4,
                 "corpus_chunks": 40 if tier == "quick" else 400, "history": 5000 if tier == "quick" else 60000})
    return jobs


def work(job):
    _imports()
    R = Rec(job)
    rng = random.Random(f"c08:{job['seed']}:{job['shard']}")
    harvested, hstats = harvest(job["shard"], job["nshards"], job["corpus_chunks"])
    R.bump("corpus_chunks_seen", hstats["chunks"])
    R.bump("corpus_modules_harvested", hstats["modules"])
    R.bump("corpus_distinct_attrs_harvested", len(harvested))
    for h in harvested:
        R.sets["corpus_dialects"].add(h.name.split(".")[0] if "." in h.name else "builtin")
    if job.get("kind") == "groups":
        check_class_groups(harvested, rng, R)
        return {"evaluations": R.counters.get("group_pairs_compared", 0), "nontrivial": sorted(R.nontrivial), "samples": [],
                "counters": R.counters, "sets": {k: sorted(v) for k, v in R.sets.items()}, "violations": R.violations}
    if job.get("kind") == "irdl":
        check_irdl_multi_load(rng, R, job["loads"])
        return {"evaluations": R.counters.get("irdl_pairs_compared", 0), "nontrivial": sorted(R.nontrivial), "samples": [],
                "counters": R.counters, "sets": {k: sorted(v) for k, v in R.sets.items()}, "violations": R.violations}
    if job.get("kind") == "history":
        n = job["history"]
        check_interleaved_history(rng, R, n, harvested, [140, 300, 700, 1500, 3000] + list(range(6000, n + 1, 6000)) + [n])
        return {"evaluations": R.counters.get("history_comparisons", 0), "nontrivial": sorted(R.nontrivial),
                "samples": [{"interleaved_history_lookups": R.counters.get("history_interleaved_lookups", 0)}],
                "counters": R.counters, "sets": {k: sorted(v) for k, v in R.sets.items()}, "violations": R.violations}
    samples = []
    for p in range(job["pools"]):
        pool, tags = build_pool(rng, harvested)
        R.bump("pools")
        R.bump("pool_members", len(pool))
        for t in set(tags):
            R.bump("pool_members_" + t, tags.count(t))
        for a in pool:
            R.sets["pool_classes"].add(type(a).__name__ if not isinstance(a, bi.UnregisteredAttr) else "UnregisteredAttr")
        check_pool(pool, tags, R)
        if p == 0:
            try:
                samples.append({"pool_excerpt": [str(a)[:120] for a in pool[60:66]]})
            except Exception:  # noqa: BLE001
                pass
    check_two_contexts_generated(rng, R, job["twoctx"])
    check_two_contexts_corpus(job["shard"], job["nshards"], job["corpus_chunks"], R)
    check_cse(rng, R, job["cse"])
    check_construction_purity(job, R)
    if job.get("history"):
        check_interleaved_history(rng, R, job["history"], harvested, [150, job["history"]])
    return {"evaluations": R.counters.get("pairs_compared", 0) + R.counters.get("twoctx_pairs", 0) + R.counters.get("cse_uses_checked", 0)
            + R.counters.get("history_comparisons", 0),
            "nontrivial": sorted(R.nontrivial), "samples": samples, "counters": R.counters,
            "sets": {k: sorted(v) for k, v in R.sets.items()}, "violations": R.violations}


def finish(agg, tier):
    inc = []
    c = agg.counters
    # cross-process purity: one result per request id, whatever the construction order of the shard
    by_req = {}
    for entry in agg.sets.get("purity", ()):
        rid, sig = entry.rsplit("|", 1)
        by_req.setdefault(rid, set()).add(sig)
    c["purity_request_ids_compared_across_shards"] = len(by_req)
    for rid, sigs in sorted(by_req.items()):
        if len(sigs) > 1:
            c["purity_cross_shard_conflicts"] = c.get("purity_cross_shard_conflicts", 0) + 1
            agg.violations.append({"key": "construction-depends-on-process-history:" + rid.split("(")[0],
                                   "summary": f"{rid} gives {len(sigs)} different results in shards that construct the same "
                                              "requests in different orders", "witness": {"request": rid, "results": sorted(sigs)}})
    agg.sets["purity"] = {f"{len(by_req)} request ids"}
    q = tier == "quick"
    for k, need in (("pairs_compared", 300000 if q else 2e7), ("equal_pairs", 1000 if q else 80000),
                    ("nontrivial_pairs", 3000 if q else 200000), ("transitivity_triples", 1000 if q else 40000),
                    ("twoctx_generated_texts", 800 if q else 100000), ("twoctx_corpus_attr_pairs", 800 if q else 10000),
                    ("group_pairs_compared", 1500 if q else 4000), ("class_groups", 40 if q else 80),
                    ("history_interleaved_lookups", 6000 if q else 100000), ("history_comparisons", 1200 if q else 8000),
                    ("history_checkpoints", 15 if q else 100),
                    ("pairs_equal_value_other_construction_order", 100 if q else 4000),
                    ("purity_reference_comparisons", 3000 if q else 20000), ("purity_request_ids_compared_across_shards", 800),
                    ("irdl_dialects_loaded", 2), ("irdl_pairs_compared", 5000), ("irdl_same_load_same_value_pairs", 200),
                    ("irdl_cross_load_same_value_pairs", 300),
                    ("cse_uses_checked", 2000 if q else 100000), ("cse_ops_merged", 200 if q else 5000),
                    ("corpus_distinct_attrs_harvested", 500), ("lookups_through_equal_copy", 200 if q else 20000)):
        if c.get(k, 0) < need:
            inc.append(f"{k}={c.get(k, 0)} < {int(need)}")
    return {"inconclusive": inc, "coverage": {"pool_classes": len(agg.sets.get("pool_classes", ()))}}
