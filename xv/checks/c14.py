"""C14 - canonicalize, constant-fold-interp, test-constant-folding, test-specialised-constant-folding and cse
preserve program results.

Reference-model differential monitor: every generated program is executed by the independent reference
semantics (xv.refsem) on 8 inputs before and after each pass; returned values are compared bit-exactly
(any NaN == any NaN) together with the ordered effect log. A pass that raises on a verified program, or whose
output does not verify, is a violation as well ("a pass that cannot fold an operation leaves it in place").

Second monitor (fold audit): `PatternRewriter.replace` is wrapped; whenever an operation whose operands are all
`arith.constant`s is replaced by constants, the replacement is compared with the reference result of that single
operation ("folded constants equal the bit-exact result"), which also attributes a program-level difference to
the fold that caused it. A third monitor follows every use of a float constant through the pass and reports a
use that ends up on a constant with different bits (CSE merging +0.0 / -0.0)."""
from __future__ import annotations

import math
import random
import struct
import traceback

from xv.harness import shash

ID = "C14"
LEVEL = "exploration"
RULE = ("generated func/arith/scf/cf/memref programs (xv.c14_gen: default statement mix of xv.genprog plus directed "
        "trigger shapes: constant-constant operands at boundary values, identities on both sides, same-operand ops, "
        "select/cmpi/chains, re-emitted identical subexpressions in nested regions, +0.0/-0.0/NaN constant groups, "
        "memref reads with writers in between, scf.while, cf diamonds, helper and external calls, module-level "
        "straight-line programs; 15 % multi-block cf programs of xv.gencfg: diamonds, triangles, counted loops, "
        "pass-through blocks, constant conditions, unreachable blocks; plus a deterministic exhaustive grid: every ordered "
        "pair of 22 boundary constants (signed zeros, +-1, max, min subnormal, +-inf, NaN payloads) for each of 8 float "
        "binary ops and 16 cmpf predicates, f32 and f64, observed through sinks) x 5 passes x 8 boundary/random inputs; a (program, pass) case is non-trivial if the "
        "pass changed the canonical form of the program and >=1 input with defined source behaviour was compared; "
        "distinct by hash of (pass, canonical form of the source program)")
LEVEL_TEXT = ("Each generated program is run by an independent reference semantics before and after every pass on "
              "boundary-biased inputs and the returned values (bit-exact) and ordered effect logs are compared; every "
              "constant fold performed through PatternRewriter.replace is re-computed by the reference; held = no pass "
              "raised, produced unverifiable IR or changed an observed result on the programs and inputs explored.")
LEVEL_NOTE = ("trusts xv.refsem (own MLIR semantics of the generated vocabulary; cross-checked against the xDSL "
              "interpreter by C15), the xDSL parser/verifier to load the generated text, CPython float arithmetic and "
              "struct rounding; fastmath/overflow flags are not generated; inputs on which the source program is "
              "undefined or observes poison are excluded and counted")
TECHNIQUE = ("reference-model differential monitor (program results before/after each pass) with a per-fold audit at "
             "the PatternRewriter.replace hook and a constant-use tracker")
ENGINES = ["harness", "refsem", "canon"]
ASSUMPTIONS = ["xv.refsem implements the MLIR semantics of the generated operations",
               "external calls are deterministic functions of their arguments whose calls are observable (logged)",
               "index is 64 bits wide"]
JOB_TIMEOUT = {"quick": 900, "thorough": 7200}

PASSES = ["canonicalize", "constant-fold-interp", "test-constant-folding", "test-specialised-constant-folding", "cse"]
N_INPUTS = 8
SRC_STEPS = 60000
DST_STEPS = 400000


# ------------------------------------------------------------------------------------------- execution
def _tstr(t):
    n = type(t).__name__
    if n == "IntegerType":
        return f"i{t.width.data}"
    if n == "IndexType":
        return "index"
    return {"Float32Type": "f32", "Float64Type": "f64", "Float16Type": "f16"}.get(n, n)


def _machine_cls():
    from xv import refsem
    from xv.genprog import gen_inputs

    class M14(refsem.Machine):
        """refsem machine whose opaque values (results of "test.op") are boundary-biased pseudo-random functions of
        (salt, position in the execution), so that module-level programs have several 'inputs'."""
        salt = None
        nop = 0

        def run_op(self, op, env):
            if op.name == "test.op" and "c14.sink" in op.attributes:
                # poison-tolerant observer: a poison operand is logged as such and acts as a wildcard on the source side
                self.log.append(("sink", tuple("poison" if env[o] is refsem.POISON else refsem.observe(env[o])
                                               for o in op.operands)))
                return None
            return super().run_op(op, env)

        def _opaque(self, t, tag, k):
            if self.salt is None:
                return super()._opaque(t, tag, k)
            self.nop += 1
            ts = _tstr(t)
            if ts not in ("i1", "i8", "i16", "i32", "i64", "index", "f32", "f64"):
                raise refsem.Unsupported(f"opaque {ts}")
            return gen_inputs(random.Random(f"{self.salt}:{self.nop}:{k}"), [ts], 1)[0][0]

    return M14


_M14 = None


def execute(module, kind, inp, limit):
    """-> ("ok", results, log) | ("undef", msg) | ("unsup", msg) | ("steps", "")"""
    global _M14
    from xv import refsem
    if _M14 is None:
        _M14 = _machine_cls()
    try:
        if kind == "func":
            m = _M14(module, limit)  # same protocol as refsem.run
            real, margs = [], []
            for k, a in enumerate(inp):
                if isinstance(a, (tuple, list)) and a and a[0] == "memref":
                    h = ("arg", k)
                    m.mem[h] = list(a[2])
                    real.append((h, tuple(a[1])))
                    margs.append(h)
                else:
                    real.append(a)
            vals = m.call("main", real)
            out = [refsem.observe(v) for v in vals]
            for h in margs:
                out.append(("mem", tuple("poison" if x is refsem.POISON else refsem.observe(x) for x in m.mem[h])))
            return ("ok", out, m.log)
        m = _M14(module, limit)
        m.salt = inp
        env = {}
        for op in module.regions[0].blocks[0].ops:
            if op.name == "func.func":
                continue
            m.steps += 1
            if m.run_op(op, env) is not None:
                raise refsem.Unsupported("terminator at module level")
        return ("ok", [], m.log)
    except refsem.Undefined as e:
        return ("undef", str(e))
    except refsem.Unsupported as e:
        return ("unsup", str(e)[:60])
    except refsem.StepLimit:
        return ("steps", "")
    except KeyError as e:
        from xdsl.ir import SSAValue
        if e.args and isinstance(e.args[0], SSAValue):
            # an operand that no executed operation defined: use before definition / use of a value of another region
            return ("nodef", str(e.args[0])[:120])
        raise


def log_refines(src, dst):
    """dst effect log equals src, except that a value the source logged as poison at a sink may be anything"""
    if src == dst:
        return True
    if len(src) != len(dst):
        return False
    for a, b in zip(src, dst):
        if a == b:
            continue
        if a[0] == "sink" and b[0] == "sink" and len(a[1]) == len(b[1]) and \
                all(x == "poison" or x == y for x, y in zip(a[1], b[1])):
            continue
        return False
    return True


# ------------------------------------------------------------------------------------------- fold audit
class Audit:
    sink = None  # list while a pass is running
    merges = None  # list while a pass is running: float constants replaced by constants with other bits
    errors = []  # exceptions of the hook itself (crash the shard later: never swallowed, never blamed on the pass)
    installed = False


def _bare_machine():
    from xv import refsem
    m = refsem.Machine.__new__(refsem.Machine)
    m.module, m.funcs, m.log, m.steps, m.step_limit, m.mem, m.symref = None, {}, [], 0, 10 ** 9, {}, {}
    return m


def _const_value(v):
    """reference value of an SSA value defined by arith.constant with an int/float attr, else None"""
    from xv import refsem
    owner = getattr(v, "owner", None)
    if owner is None or getattr(owner, "name", None) != "arith.constant" or getattr(v, "index", 0) != 0:
        return None
    env = {}
    try:
        _bare_machine().run_op(owner, env)
    except (refsem.Unsupported, refsem.Undefined):
        return None
    return ("v", env[owner.results[0]])


def _show(x):
    from xv import refsem
    if x is refsem.POISON:
        return "poison"
    if isinstance(x, float):
        return "nan" if math.isnan(x) else f"{x!r}[{struct.pack('>d', x).hex()}]"
    return x


def _snapshot(op, new_ops, new_results):
    from xdsl.ir import Operation
    from xv import refsem
    if not op.operands or op.regions or not op.results:
        return None
    cvals = [_const_value(o) for o in op.operands]
    if any(c is None for c in cvals):
        return None
    if isinstance(new_ops, Operation):
        new_ops = (new_ops,)
    if new_results is None:
        new_results = new_ops[-1].results if new_ops else []
    if len(new_results) != len(op.results):
        return None
    env = {o: c[1] for o, c in zip(op.operands, cvals)}
    rec = {"op": op.name, "operands": [_show(c[1]) for c in cvals], "types": [_tstr(o.type) for o in op.operands],
           "raw": [c[1] for c in cvals], "width": None}
    p = op.properties.get("predicate")
    if p is not None:
        rec["predicate"] = p.value.data
    try:
        rec["width"] = refsem.width(op.operands[0].type)
    except refsem.Unsupported:
        pass
    try:
        _bare_machine().run_op(op, env)
        expected = [env[r] for r in op.results]
    except refsem.Undefined:
        rec["expected"] = "undefined"
        return rec
    except refsem.Unsupported:
        return None
    folded = []
    for nr in new_results:
        c = _const_value(nr) if nr is not None else None
        folded.append(c)
    rec["expected"] = [_show(e) for e in expected]
    rec["folded"] = [(_show(f[1]) if f else "non-constant") for f in folded]
    bad = []
    for i, (e, f) in enumerate(zip(expected, folded)):
        if f is None or e is refsem.POISON:
            continue
        try:
            if refsem.observe(e) != refsem.observe(f[1]):
                bad.append(i)
        except refsem.Undefined:
            continue
    rec["mismatch"] = bad
    rec["raw_expected"] = expected
    rec["raw_folded"] = [f[1] if f else None for f in folded]
    return rec


def install_audit():
    if Audit.installed:
        return
    from xdsl.pattern_rewriter import PatternRewriter
    orig = PatternRewriter.replace

    def replace(self, op, new_ops, new_results=None, safe_erase=True):
        rec = None
        if Audit.sink is not None:
            try:
                rec = _snapshot(op, new_ops, new_results)
            except Exception as e:  # noqa: BLE001 - re-raised by the harness after the pass
                Audit.errors.append(traceback.format_exc())
                rec = None
        r = orig(self, op, new_ops, new_results, safe_erase)
        if rec is not None and Audit.sink is not None:
            Audit.sink.append(rec)
        return r

    replace.__wrapped__ = orig
    PatternRewriter.replace = replace

    from xdsl.ir import SSAValue
    orig_rauw = SSAValue.replace_all_uses_with

    def replace_all_uses_with(self, value):
        if Audit.merges is not None and value is not self:
            try:
                ev = _merge_event(self, value)
                if ev:
                    Audit.merges.append(ev)
            except Exception:  # noqa: BLE001 - re-raised by the harness after the pass
                Audit.errors.append(traceback.format_exc())
        return orig_rauw(self, value)

    SSAValue.replace_all_uses_with = replace_all_uses_with
    Audit.installed = True


def classify_fold(pass_name, rec):
    """mechanism key of one wrong fold; known wrong-behaviour models are confirmed before their key is used"""
    from xv import refsem
    op = rec["op"]
    i = rec["mismatch"][0]
    if op == "arith.cmpi" and rec.get("predicate") in (6, 7, 8, 9) and rec["width"]:
        a, b = rec["raw"]
        w = rec["width"]
        signed_answer = int(refsem.CMPI[rec["predicate"] - 4](a, b, w))
        if rec["raw_folded"][i] == signed_answer and (a >> (w - 1)) != (b >> (w - 1)):
            return f"fold:{pass_name}:cmpi-unsigned-predicate-evaluated-as-signed"
    if op == "arith.divf":
        a, b = rec["raw"]
        f = rec["raw_folded"][i]
        if isinstance(b, float) and b == 0.0 and isinstance(f, float):
            # model of _fold_const_operation: nan if lhs == 0, -inf if lhs < 0, else +inf (divisor sign and NaN ignored)
            model = math.nan if a == 0.0 else (-math.inf if a < 0 else math.inf)
            if refsem.observe(model) == refsem.observe(f):
                return f"fold:{pass_name}:divf-by-zero-constant-ignores-divisor-sign-and-nan"
    return f"fold:{pass_name}:{op}:wrong-constant"


# ------------------------------------------------------------------------------------------- constant use tracking
def _fbits(attr):
    v = attr.value.data
    return struct.pack("<d", v).hex(), math.isnan(v), v


def _float_const(v):
    owner = getattr(v, "owner", None)
    if getattr(owner, "name", None) != "arith.constant":
        return None
    a = owner.properties.get("value")
    if type(a).__name__ != "FloatAttr":
        return None
    return _fbits(a)


def _merge_event(old, new):
    """a float constant all of whose uses are redirected to a float constant with different bits"""
    a, b = _float_const(old), _float_const(new)
    if a is None or b is None or a[0] == b[0] or old.first_use is None:
        return None
    ts = _tstr(old.type)
    if a[1] and b[1]:
        return ("nan-payload", ts, a[0], b[0])
    if a[2] == 0.0 and b[2] == 0.0:
        return ("pos-neg-zero", ts, a[0], b[0])
    return ("other", ts, a[0], b[0])


def track_float_constants(module):
    """[(const op, (bits, isnan, value), type str, [(user, operand index)])] - strong refs are kept"""
    out = []
    for op in module.walk():
        if op.name == "arith.constant" and type(op.properties.get("value")).__name__ == "FloatAttr":
            uses = [(u.operation, u.index) for u in op.results[0].uses]
            out.append((op, _fbits(op.properties["value"]), _tstr(op.results[0].type), uses))
    return out


def merged_constants(tracked):
    """uses of a float constant that now read a constant with different bits"""
    events = []
    for op, (bits, isnan, val), ts, uses in tracked:
        for user, idx in uses:
            if user.parent is None or idx >= len(user.operands):
                continue
            cur = user.operands[idx]
            if cur is op.results[0]:
                continue
            owner = getattr(cur, "owner", None)
            if getattr(owner, "name", None) != "arith.constant":
                continue
            a = owner.properties.get("value")
            if type(a).__name__ != "FloatAttr":
                continue
            nb, nnan, nval = _fbits(a)
            if nb == bits:
                continue
            if isnan and nnan:
                events.append(("nan-payload", ts, bits, nb))
            elif val == 0.0 and nval == 0.0:
                events.append(("pos-neg-zero", ts, bits, nb))
            else:
                events.append(("other", ts, bits, nb))
    return events


# ------------------------------------------------------------------------------------------- exception classification
def _innermost(tb):
    last = None
    frames = []
    while tb is not None:
        frames.append(tb.tb_frame)
        tb = tb.tb_next
    for fr in frames:
        fn = fr.f_code.co_filename
        if "/xdsl/" in fn:
            last = fr
    last = last or frames[-1]
    return getattr(last.f_code, "co_qualname", last.f_code.co_name), frames


def _in_signless_range(v, w):
    return -(1 << (w - 1)) <= v < (1 << w)


def classify_raise(pass_name, exc):
    """-> (key, detail dict). Known wrong-behaviour models are confirmed from the frames of the traceback."""
    qual, frames = _innermost(exc.__traceback__)
    et = type(exc).__name__
    detail = {"exception": et, "where": qual, "message": (str(exc).strip().splitlines() or [""])[-1][:160]}
    generic = f"raise:{pass_name}:{et}:{qual}"
    try:
        if pass_name == "constant-fold-interp":
            op = None
            for fr in frames:
                if fr.f_code.co_name == "match_and_rewrite" and "constant_fold_interp" in fr.f_code.co_filename:
                    op = fr.f_locals.get("op")
            if op is None:
                return generic, detail
            cv = [_const_value(o) for o in op.operands]
            detail["op"] = op.name
            if any(c is None for c in cv) or not cv:
                return generic, detail
            raw = [c[1] for c in cv]
            detail["operands"] = [_show(x) for x in raw]
            from xv import refsem
            w = None
            try:
                w = refsem.width(op.operands[0].type)
            except refsem.Unsupported:
                pass
            if w is None or not all(isinstance(x, int) for x in raw):
                return generic, detail
            sraw = [refsem.S(x, w) for x in raw]
            if et == "AssertionError" and op.name in ("arith.remsi", "arith.floordivsi", "arith.divsi") and \
                    qual.startswith("ArithFunctions.run_") and raw[1] == 0:
                return "raise:constant-fold-interp:AssertionError:constant-division-by-zero", detail
            if et == "AssertionError" and op.name in ("arith.shli", "arith.shrsi") and \
                    qual in ("ArithFunctions.run_shlsi", "ArithFunctions.run_shrsi") and sraw[1] < 0:
                return "raise:constant-fold-interp:AssertionError:negative-shift-amount", detail
            if et in ("MemoryError", "OverflowError") and op.name == "arith.shli" and sraw[1] >= (1 << 31):
                return "raise:constant-fold-interp:MemoryError:huge-shift-amount", detail
            if et in ("VerifyException", "ValueError") and op.name == "arith.shli" and 0 <= sraw[1] and \
                    qual == "IntegerType.verify_value" and not _in_signless_range(sraw[0] << min(sraw[1], 1 << 22), w):
                # ValueError: the out-of-range message itself cannot be formatted (> 4300 digits)
                return f"raise:constant-fold-interp:{et}:shli-result-not-wrapped", detail
            if et == "VerifyException" and op.name == "arith.floordivsi" and w > 1 and \
                    sraw == [-(1 << (w - 1)), -1]:
                return generic + ":min-div-minus-one", detail
            return generic, detail
        if pass_name == "canonicalize" and et == "OverflowError":
            for fr in frames:
                if fr.f_code.co_name == "_fold_const_operation":
                    val, lhs = fr.f_locals.get("val"), fr.f_locals.get("lhs")
                    tn = type(getattr(lhs, "type", None)).__name__
                    fmax = {"Float32Type": 3.4028234663852886e+38, "Float16Type": 65504.0}.get(tn)
                    detail["value"], detail["type"] = repr(val), tn
                    if isinstance(val, float) and fmax and math.isfinite(val) and abs(val) > fmax:
                        return "raise:canonicalize:OverflowError:float-fold-result-overflows-narrow-type", detail
            return generic, detail
        if pass_name in ("test-constant-folding", "test-specialised-constant-folding"):
            op = None
            for fr in frames:
                if fr.f_code.co_name in ("match_and_rewrite", "apply") and "test_constant_folding" in fr.f_code.co_filename:
                    op = fr.f_locals.get("op") if fr.f_code.co_name == "match_and_rewrite" else fr.f_locals.get("rewrite_op")
            if op is None or op.name != "arith.addi":
                return generic, detail
            detail["op"] = op.name
            consts = [_const_value(o) for o in op.operands]
            detail["operand_kinds"] = ["constant" if c else type(o).__name__ for c, o in zip(consts, op.operands)]
            if et in ("AssertionError", "AttributeError") and any(c is None for c in consts):
                return f"raise:{pass_name}:{et}:addi-with-non-constant-operand", detail
            if et == "VerifyException" and all(c is not None for c in consts):
                from xv import refsem
                w = refsem.width(op.operands[0].type)
                s = sum(refsem.S(c[1], w) for c in consts)
                if not _in_signless_range(s, w):
                    return f"raise:{pass_name}:VerifyException:addi-sum-not-wrapped", detail
            return generic, detail
    except Exception:  # noqa: BLE001
        Audit.errors.append(traceback.format_exc())
    return generic, detail


# ------------------------------------------------------------------------------------------- CPU-time watchdog
PASS_CPU_BUDGET = 20.0  # CPU-seconds of this process for ONE pass application (measured normal cost: 1-20 ms)


class PassCpuBudget(BaseException):
    """raised by the ITIMER_VIRTUAL handler; BaseException so that no `except Exception` in the pass swallows it"""


class cpu_budget:
    """Decides 'the pass does not terminate' on CPU time of the worker, never on wall-clock time."""

    def __init__(self, seconds):
        self.seconds = seconds

    def __enter__(self):
        import signal

        def _expired(signum, frame):
            raise PassCpuBudget()

        self.old = signal.signal(signal.SIGVTALRM, _expired)
        signal.setitimer(signal.ITIMER_VIRTUAL, self.seconds)

    def __exit__(self, *a):
        import signal
        signal.setitimer(signal.ITIMER_VIRTUAL, 0)
        signal.signal(signal.SIGVTALRM, self.old)
        return False


# ------------------------------------------------------------------------------------------- one case
class Ctx:
    def __init__(self):
        self.res = {"evaluations": 0, "nontrivial": [], "samples": [], "counters": {}, "sets": {}, "violations": [],
                    "extra": {}}
        self.vio_per_key = {}

    def count(self, k, n=1):
        c = self.res["counters"]
        c[k] = c.get(k, 0) + n

    def add_set(self, k, v):
        s = self.res["sets"].setdefault(k, [])
        if v not in s:
            s.append(v)

    def viol(self, key, summary, witness):
        self.count("violations_total")
        self.count("violation:" + key)
        n = self.vio_per_key.get(key, 0)
        self.vio_per_key[key] = n + 1
        if n < 3:
            self.res["violations"].append({"key": key, "summary": summary[:400], "witness": witness})


def _parse(text):
    from xdsl.parser import Parser
    from xv.corpus import new_ctx
    c = new_ctx()
    m = Parser(c, text).parse_module()
    return c, m


_PASS_CLS = {}


def _get_pass(name):
    if name not in _PASS_CLS:
        from xdsl.transforms import get_all_passes
        _PASS_CLS[name] = get_all_passes()[name]()
    return _PASS_CLS[name]()


def run_case(cx: Ctx, text, kind, argtypes, inputs, passes, tag=""):
    """inputs: list of rows (func) or salts (modprog)."""
    from xv.c14_gen import jsonable_row
    from xv.canon import canon_ir
    from xv.worker import journal
    cx.count("programs")
    cx.count("programs_" + kind)
    try:
        c2, m = _parse(text)
        m.verify()
    except Exception as e:  # noqa: BLE001 - generator defect (or parser defect, C07's business): counted, must stay rare
        cx.count("generator_invalid")
        cx.res["extra"].setdefault("generator_invalid_example", {"error": str(e)[-300:], "text": text})
        return
    nops = sum(1 for _ in m.walk())
    cx.count("source_ops", nops)
    for op in m.walk():
        cx.add_set("source_op_names", op.name)
    base = []
    for inp in inputs:
        r = execute(m, kind, inp, SRC_STEPS)
        if r[0] == "nodef":
            raise RuntimeError(f"generated program uses an undefined value {r[1]}\n{text}")
        base.append(r)
        cx.count("source_runs")
        if r[0] != "ok":
            cx.count("source_excluded_" + r[0])
            if r[0] == "undef":
                cx.count("excluded_undef:" + r[1])
            elif r[0] == "unsup":
                cx.count("excluded_unsup:" + r[1])
    canon0 = canon_ir(m)
    h0 = shash(canon0)

    def wit(pn, **kw):
        w = {"pass": pn, "program": text, "kind": kind,
             "replay_job": {"kind": "replay", "text": text, "pkind": kind, "argtypes": argtypes,
                            "inputs": [jsonable_row(r) if kind == "func" else r for r in inputs], "passes": [pn]}}
        w.update(kw)
        return w

    for pn in passes:
        cx.count(f"pass_applied:{pn}")
        m2 = m.clone()  # parsing again costs 15x more; C02 owns clone, the canonical form is re-checked here
        if canon_ir(m2) != canon0:
            raise RuntimeError("clone of the source program differs from it\n" + text)
        tracked = track_float_constants(m2)
        Audit.sink = []
        Audit.merges = []
        journal(f"pass={pn}\n{text}")
        exc = None
        try:
            with cpu_budget(PASS_CPU_BUDGET):
                _get_pass(pn).apply(c2, m2)
        except PassCpuBudget:
            Audit.sink = Audit.merges = None
            cx.count(f"pass_cpu_budget_exceeded:{pn}")
            cx.viol(f"hang:{pn}:cpu-budget-exceeded", f"{pn} used more than {PASS_CPU_BUDGET} CPU-seconds on a "
                    f"{nops}-op program (normal: milliseconds)", wit(pn))
            continue
        except Exception as e:  # noqa: BLE001 - MemoryError / RecursionError are Exceptions as well
            exc = e
        audit, Audit.sink = Audit.sink, None
        hook_merges, Audit.merges = Audit.merges, None
        if Audit.errors:
            raise RuntimeError("fold-audit hook failed:\n" + Audit.errors[0])
        cx.count(f"folds_audited:{pn}", len(audit))
        if exc is not None:
            key, detail = classify_raise(pn, exc)
            if Audit.errors:
                raise RuntimeError("classifier failed:\n" + Audit.errors[0])
            cx.count(f"pass_raised:{pn}")
            cx.viol(key, f"{pn} raised {detail['exception']} in {detail['where']}: {detail['message']}",
                    wit(pn, **detail))
            del exc
            continue
        cx.count(f"pass_succeeded:{pn}")
        # fold audit (valid whether or not the output verifies)
        fold_keys = []
        for rec in audit:
            cx.add_set("folded_op_names:" + pn, rec["op"])
            if rec.get("expected") == "undefined":
                cx.count(f"folds_of_undefined_op:{pn}")
                continue
            cx.count(f"folds_compared:{pn}")
            if rec["mismatch"]:
                k = classify_fold(pn, rec)
                fold_keys.append(k)
                cx.viol(k, f"{pn} folded {rec['op']}({rec['operands']}) pred={rec.get('predicate')} to {rec['folded']}, "
                           f"reference {rec['expected']}",
                        wit(pn, fold={kk: rec[kk] for kk in ("op", "operands", "types", "expected", "folded") if kk in rec},
                            predicate=rec.get("predicate")))
        try:
            m2.verify()
        except Exception as e:  # noqa: BLE001
            cx.count(f"output_invalid:{pn}")
            msg = (str(e).strip().splitlines() or [""])[-1][:160]
            key = f"verify:{pn}:{type(e).__name__}:{_verify_class(m2)}"
            cx.viol(key, f"output of {pn} does not verify: {msg}", wit(pn, output=str(m2)[:4000], message=msg))
            continue
        bad_attr = _invalid_constant(m2)
        if bad_attr:
            # the op verifier does not re-verify attribute values; a constant built by hand may violate its own invariant
            cx.count(f"output_invalid_constant:{pn}")
            cx.viol(f"verify:{pn}:constant-attribute:{bad_attr[0]}", f"output of {pn} holds an invalid constant: {bad_attr[1]}",
                    wit(pn, output=str(m2)[:4000], message=bad_attr[1]))
            continue
        canon1 = canon_ir(m2)
        triggered = canon1 != canon0
        if triggered:
            cx.count(f"pass_changed_program:{pn}")
        merges = sorted(set(merged_constants(tracked)) | set(hook_merges))
        merge_keys = []
        for ev in merges:
            cx.count(f"float_constant_merge:{pn}:{ev[0]}")
            if ev[0] == "pos-neg-zero":
                merge_keys.append(f"merge:{pn}:float-constants-pos-zero-and-neg-zero-merged")
            elif ev[0] == "other":
                merge_keys.append(f"merge:{pn}:float-constants-with-different-values-merged")
        compared = 0
        for inp, b in zip(inputs, base):
            if b[0] != "ok":
                continue
            r = execute(m2, kind, inp, DST_STEPS)
            cx.res["evaluations"] += 1
            cx.count(f"comparisons:{pn}")
            compared += 1
            if r[0] == "unsup" and not any(k in r[1] for k in ("bitcast of NaN", "double rounding")):
                # an op / type outside the reference's vocabulary appeared: limit of the harness, never "held"
                raise RuntimeError(f"reference does not support output of {pn}: {r[1]}\n{m2}")
            if r[0] == "ok" and r[1] == b[1] and log_refines(b[2], r[2]):
                cx.count(f"agree:{pn}")
                continue
            if r[0] == "unsup":
                # value-dependent limit of the reference reached only by the target (the source computed other values)
                what, why = "result-differs", f"target computes a value the source does not ({r[1]})"
            elif r[0] == "nodef":
                what, why = "use-of-undefined-value", f"target reads {r[1]}, which no executed operation defined"
            elif r[0] == "undef":
                what, why = "introduced-ub", f"target undefined ({r[1]}) where the source is defined"
            elif r[0] == "steps":
                what, why = "introduced-nontermination", "target exceeds the step limit"
            elif r[1] != b[1]:
                what, why = "result-differs", f"returned {r[1]} instead of {b[1]}"
            else:
                what, why = "effects-differ", f"effect log {r[2][:6]} instead of {b[2][:6]}"
            explained = sorted(set(fold_keys)) or sorted(set(merge_keys))
            if explained:
                # consequence of a wrong fold / merge that is reported (and classified) on its own
                key = explained[0] if fold_keys else explained[0]
                cx.count(f"difference_explained_by:{key}")
                if not fold_keys:
                    cx.viol(key, f"{pn}: {why}; a use of a float constant was redirected to a constant with other bits "
                                 f"{merges[:2]}", wit(pn, input=jsonable_row(inp) if kind == "func" else inp,
                                                      output=str(m2)[:4000], merges=[list(e) for e in merges[:4]]))
                continue
            cx.viol(f"{what}:{pn}", f"{pn}: {why}",
                    wit(pn, input=jsonable_row(inp) if kind == "func" else inp, output=str(m2)[:4000],
                        source_result=repr(b[1:])[:600], target_result=repr(r[1:])[:600]))
        if triggered and compared:
            cx.res["nontrivial"].append(shash((pn, h0)))
            cx.count(f"nontrivial:{pn}")
            if tag:
                cx.count(f"nontrivial_{tag}:{pn}")
            if len(cx.res["samples"]) < 3 and nops < 30:
                cx.res["samples"].append({"pass": pn, "program": text, "after": str(m2), "inputs_compared": compared})


def _invalid_constant(module):
    for op in module.walk():
        if op.name == "arith.constant":
            try:
                op.properties["value"].verify()
            except Exception as e:  # noqa: BLE001
                msg = (str(e).strip().splitlines() or [""])[-1][:160]
                return (_verify_class(module), msg)
    return None


def _verify_class(module):
    """does the unverifiable output contain an integer constant outside its type's range?"""
    from xv import refsem
    for op in module.walk():
        if op.name == "arith.constant" and type(op.properties.get("value")).__name__ == "IntegerAttr":
            try:
                w = refsem.width(op.results[0].type)
            except refsem.Unsupported:
                continue
            if not _in_signless_range(op.properties["value"].value.data, w):
                return "integer-constant-out-of-range"
    return "other"


# ------------------------------------------------------------------------------------------- plan / work / finish
def plan(tier, seed):
    import os
    shards, per = (16, 96) if tier == "quick" else (64, 500)  # worker start-up (imports) costs ~4 CPU-s
    # self-tests only (mutant runs in a scratch worktree): XV_C14_SCALE=0.5 halves the workload of every shard
    per = max(1, int(per * float(os.environ.get("XV_C14_SCALE", "1"))))
    jobs = [{"kind": "gen", "seed": seed * 100003 + i, "n": per} for i in range(shards)]
    # deterministic directed part: exhaustive boundary x boundary grid of constant operands for every float binary op
    # and cmpf predicate, both float types (xv.c14_gen.float_grid_programs); thorough additionally splits by half
    jobs += [{"kind": "fgrid", "type": t, "part": k, "parts": 2} for t in ("f32", "f64") for k in range(2)]
    return jobs


def gen_case(case_seed):
    from xv.c14_gen import Gen14, inputs_for
    if random.Random(f"{case_seed}/cfg").random() < 0.15:
        # multi-block cf programs (xv.gencfg): diamonds, triangles, counted loops, pass-through blocks, constant
        # conditions, unreachable blocks - the workload of the cf canonicalization patterns
        from xv.gencfg import gen_cfg_func
        rng = random.Random(f"{case_seed}/cfgprog")
        if rng.random() < 0.5:
            from xv.c14_gen import cfg_program
            text, argt, _ = cfg_program(rng)  # same generator, operands biased towards pass-through block arguments
        else:
            text, argt, _ = gen_cfg_func(rng)
        return text, "func", argt, inputs_for(rng, argt, N_INPUTS if argt else 1), {"cfg_program": 1}, "cfg"
    rng = random.Random(case_seed)
    r = rng.random()
    no_var_addi = rng.random() < 0.3
    ints = None
    if rng.random() < 0.15:
        ints = rng.choice([["i1", "i8", "i16", "i32", "i64"], ["i1", "i32", "index"], ["i1", "i64", "index"], ["i1", "i8"]])
    focus = rng.random() < 0.22  # programs for the two test folding passes: every addi is constant-constant
    if focus:
        no_var_addi = True
    g = Gen14(rng, p_directed=rng.choice([0.3, 0.5, 0.7]), no_var_addi=no_var_addi, ext_calls=rng.random() < 0.5,
              allow_float=rng.random() < 0.8, int_types=ints, safe_div=rng.choice([0.8, 0.95]),
              addi_focus=40 if focus else 0)
    if r < (0.6 if focus else 0.2):
        text, argt = g.modprog_text()
        kind = "mod"
        inputs = [f"{case_seed}/{k}" for k in range(N_INPUTS if argt else 1)]
    else:
        text, argt = g.module_text()
        kind = "func"
        inputs = inputs_for(rng, argt, N_INPUTS if argt else 1)
    return text, kind, argt, inputs, g.shape_count, ""


def work(job):
    install_audit()
    cx = Ctx()
    if job["kind"] == "replay":
        from xv.c14_gen import unjson_row
        inputs = [unjson_row(r) if job["pkind"] == "func" else r for r in job["inputs"]]
        run_case(cx, job["text"], job["pkind"], job["argtypes"], inputs, job["passes"])
        return cx.res
    if job["kind"] == "fgrid":
        from xv.c14_gen import float_grid_programs
        progs = float_grid_programs(job["type"])
        for label, text in progs[job["part"]::job["parts"]]:
            cx.count("float_grid_programs")
            cx.add_set("float_grid_cells", label.rsplit(":", 1)[0])
            run_case(cx, text, "func", [], [[]], PASSES, tag="fgrid")
        return cx.res
    for i in range(job["n"]):
        text, kind, argt, inputs, shapes, tag = gen_case(f"{job['seed']}:{i}")
        for k, v in shapes.items():
            cx.count("shape:" + k, v)
        run_case(cx, text, kind, argt, inputs, PASSES, tag=tag)
    return cx.res


def on_lost(info):
    """A worker killed by a signal while a pass was running (native crash, OOM) is an observation; a wall-clock
    timeout is not (non-termination is decided on CPU time inside the worker): it stays inconclusive."""
    j = info.get("journal")
    if not j or info.get("status") != "died" or (info.get("rc") or 0) >= 0:
        return None
    if "Traceback" in (info.get("stderr") or "") and "RuntimeError" in (info.get("stderr") or ""):
        return None  # harness failure: inconclusive
    if info.get("status") == "died" and "Traceback" in (info.get("stderr") or ""):
        return None
    head, _, text = j.partition("\n")
    pn = head.replace("pass=", "")
    return [{"key": f"lost:{pn}:{info['status']}", "summary": f"worker {info['status']} while {pn} was running",
             "witness": {"pass": pn, "program": text[:6000]}}]


MIN_CHANGED = {"quick": {"canonicalize": 600, "constant-fold-interp": 400, "cse": 500, "test-constant-folding": 80,
                         "test-specialised-constant-folding": 25},
               "thorough": {"canonicalize": 10000, "constant-fold-interp": 7500, "cse": 9000,
                            "test-constant-folding": 1500, "test-specialised-constant-folding": 450}}


def finish(agg, tier):
    c = agg.counters
    inc = []
    rates = {}
    progs = c.get("programs", 0)
    if c.get("generator_invalid", 0) * 200 > max(progs, 1):
        inc.append(f"{c.get('generator_invalid')} of {progs} generated programs do not parse/verify")
    for pn in PASSES:
        applied = c.get(f"pass_applied:{pn}", 0)
        changed = c.get(f"pass_changed_program:{pn}", 0)
        nt = c.get(f"nontrivial:{pn}", 0)
        rates[pn] = {"applied": applied, "raised": c.get(f"pass_raised:{pn}", 0),
                     "succeeded": c.get(f"pass_succeeded:{pn}", 0), "changed_program": changed,
                     "trigger_rate": round(changed / applied, 4) if applied else 0.0,
                     "nontrivial_compared": nt, "comparisons": c.get(f"comparisons:{pn}", 0),
                     "folds_compared": c.get(f"folds_compared:{pn}", 0)}
        need = MIN_CHANGED[tier][pn]
        if nt < need:
            inc.append(f"{pn}: only {nt} programs were changed by the pass and compared (< {need}); trigger rate "
                       f"{rates[pn]['trigger_rate']}")
    if c.get("folds_compared:canonicalize", 0) < (800 if tier == "quick" else 15000):
        inc.append("fold audit saw too few canonicalize folds")
    if len(agg.sets.get("float_grid_cells", ())) < 48 or c.get("nontrivial_fgrid:canonicalize", 0) < 30 or \
            c.get("nontrivial_fgrid:constant-fold-interp", 0) < 100:
        inc.append("the exhaustive float boundary grid (8 binary ops + 16 cmpf predicates x f32/f64) was not fully folded "
                   f"and compared: cells={len(agg.sets.get('float_grid_cells', ()))} "
                   f"canonicalize={c.get('nontrivial_fgrid:canonicalize', 0)} "
                   f"constant-fold-interp={c.get('nontrivial_fgrid:constant-fold-interp', 0)}")
    need_cfg = 40 if tier == "quick" else 800
    if c.get("nontrivial_cfg:canonicalize", 0) < need_cfg:
        inc.append(f"only {c.get('nontrivial_cfg:canonicalize', 0)} multi-block cf programs were changed by canonicalize "
                   f"and compared (< {need_cfg})")
    runs = c.get("source_runs", 0)
    excl = sum(v for k, v in c.items() if k.startswith("source_excluded_"))
    if runs and excl * 2 > runs:
        inc.append(f"{excl} of {runs} source runs excluded (undefined/unsupported)")
    return {"inconclusive": inc, "coverage": {"per_pass": rates,
                                              "excluded": {k: v for k, v in c.items() if k.startswith(("excluded_", "source_excluded_"))}}}
