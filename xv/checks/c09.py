"""C09 - IRDL attribute constraints accept exactly what they describe.

Reference-model differential monitor.  A generator builds random *spec trees* (xv/c09_ref.py documents the
format) and, next to each, the REAL constraint through the public constructors (AnyOf.get, `|`, `&`,
ParamAttrConstraint.get, VarConstraint, ArrayOfConstraint, RangeOf/SingleOf/RangeVarConstraint/of_length, int
constraints, MessageConstraint, irdl_to_attr_constraint coercions, mapping_type_vars).  Every verification of the
real constraint is compared with the reference evaluation of the tree: verdict, the variable assignment left in
the ConstraintContext, sequences of verifications sharing one context, `variables()` / `get_bases()` metadata,
can_infer/infer consistency, and type hints (irdl_to_attr_constraint(H) vs an independent structural reading of H
vs xdsl.utils.hints.isa)."""
from __future__ import annotations

import random

from xv.harness import shash

ID = "C09"
LEVEL = "exploration"
RULE = ("random spec trees (depth 1-4) over Any/Eq/Set/Base(final+abstract)/Param/AnyOf/AllOf/Var/Message/ArrayOf/"
        "IntAttr/Sized, range trees (RangeOf/SingleOf/RangeVar/RangeLength) and int trees, built through randomly "
        "chosen public construction routes, each evaluated on pool attributes, on attributes synthesised to be "
        "accepted, on one-step mutations of those and on crossovers between accepted values of one class; sequences of 2-3 constraints sharing variables verified in one "
        "ConstraintContext; type-variable substitution (mapping_type_vars) of trees with TypeVar leaves; random type "
        "hints over 16 generic attribute classes.  A case is non-trivial when BOTH verdicts (accept and reject) were "
        "observed for it and it contains a union that relax_constraint actually merged, a variable occurring twice, "
        "a successful inference, a type-variable substitution, or (hints) a generic/union/Annotated hint; distinct = "
        "distinct structural hashes of (tree or hint rendering)")
ASSUMPTIONS = ["the reference evaluator xv/c09_ref.py (eval_all / ref_isa / same_attr) is correct",
               "every occurrence of one constraint variable name carries the same inner constraint (normal IRDL usage)",
               "attribute pool avoids float -0.0/NaN and bool payloads (equality corner cases belong to C08)",
               "constructions rejected with PyRDLError (non-disjoint unions) or VerifyException (eager attribute "
               "construction in ParamAttrConstraint.get) are outside the property and only counted",
               "CPython semantics"]
LEVEL_TEXT = ("Every verify()/verifies()/infer()/isa() result of the real constraint objects on the generated "
              "(constraint, attribute) pairs is compared with an independent reference evaluator of the constraint's "
              "definition; held = no disagreement on the cases explored.")
LEVEL_NOTE = ("trusts xv/c09_ref.py (spec-tree evaluator with explicit backtracking, structural attribute equality, "
              "hand-written type-variable position table for the generic classes) and CPython")
TECHNIQUE = ("reference-model differential monitor (spec tree kept beside every real constraint; verdict, variable "
             "environment, metadata invariants and inference compared call by call)")
ENGINES = ["harness", "models"]
JOB_TIMEOUT = {"quick": 900, "thorough": 7200}

ATTR_VARS = ["T", "S", "U"]
RANGE_VARS = ["R", "Q"]
INT_VARS = ["N", "M"]


# =========================================================================== universe
class Universe:
    def __init__(self):
        from xdsl.dialects import builtin as b
        from xdsl.ir import Data, ParametrizedAttribute, TypeAttribute, TypedAttribute
        from xv import c09_attrs as x
        S = b.Signedness
        i1, i8, i32, i64 = b.i1, b.i8, b.i32, b.i64
        f16, f32, f64 = b.Float16Type(), b.Float32Type(), b.Float64Type()
        idx = b.IndexType()
        types = [i1, i8, i32, i64, b.IntegerType(8, S.SIGNED), b.IntegerType(8, S.UNSIGNED), b.IntegerType(32, S.UNSIGNED),
                 b.IntegerType(16), idx, f16, f32, f64, b.BFloat16Type(), b.NoneType(),
                 b.TensorType(i32, [2]), b.TensorType(f32, [2, 3]), b.TensorType(i64, []), b.TensorType(i32, [2], b.StringAttr("enc")),
                 b.VectorType(i32, [2]), b.VectorType(f32, [4]), b.VectorType(idx, [2, 2]),
                 b.MemRefType(i32, [2]), b.MemRefType(f32, [2, 2]), b.MemRefType(f64, [1], memory_space=b.IntegerAttr(1, i32)),
                 b.UnrankedTensorType(i32), b.UnrankedTensorType(f32), b.UnrankedMemRefType.from_type(i32),
                 b.ComplexType(f32), b.ComplexType(i32),
                 b.FunctionType.from_lists([i32], [f32]), b.FunctionType.from_lists([], []), b.FunctionType.from_lists([i32, i32], [i32]),
                 b.TupleType(b.ArrayAttr([i32, f32])), b.TupleType(b.ArrayAttr([]))]
        attrs = [b.IntegerAttr(0, i32), b.IntegerAttr(1, i32), b.IntegerAttr(1, i64), b.IntegerAttr(-1, i32), b.IntegerAttr(5, idx),
                 b.IntegerAttr(0, idx), b.IntegerAttr(1, i1), b.IntegerAttr(0, i1), b.IntegerAttr(200, b.IntegerType(8, S.UNSIGNED)),
                 b.IntegerAttr(7, i8), b.IntegerAttr(32, i32), b.IntegerAttr(2, i64),
                 b.FloatAttr(1.0, f32), b.FloatAttr(1.0, f64), b.FloatAttr(2.5, f32), b.FloatAttr(0.0, f64), b.FloatAttr(0.5, f16),
                 b.StringAttr("a"), b.StringAttr("b"), b.StringAttr(""), b.UnitAttr(), b.NoneAttr(), b.BytesAttr(b"xy"),
                 b.ArrayAttr([]), b.ArrayAttr([i32]), b.ArrayAttr([i32, i32]), b.ArrayAttr([i32, i64]), b.ArrayAttr([i64, i32]),
                 b.ArrayAttr([i32, i32, i32]), b.ArrayAttr([f32]), b.ArrayAttr([f32, i32]),
                 b.ArrayAttr([b.IntAttr(1), b.IntAttr(2)]), b.ArrayAttr([b.IntAttr(2)]), b.ArrayAttr([b.IntAttr(2), b.IntAttr(2)]),
                 b.ArrayAttr([b.StringAttr("a")]), b.ArrayAttr([b.StringAttr("a"), b.StringAttr("b")]),
                 b.ArrayAttr([b.ArrayAttr([i32])]), b.ArrayAttr([b.IntegerAttr(1, i32), b.IntegerAttr(1, i64)]),
                 b.ArrayAttr([b.IntegerAttr(1, i32), b.IntegerAttr(0, i32)]),
                 b.IntAttr(0), b.IntAttr(1), b.IntAttr(2), b.IntAttr(8), b.IntAttr(16), b.IntAttr(32), b.IntAttr(64), b.IntAttr(-1),
                 b.SignednessAttr(S.SIGNLESS), b.SignednessAttr(S.SIGNED), b.SignednessAttr(S.UNSIGNED),
                 b.SymbolRefAttr("f"), b.SymbolRefAttr("g"), b.SymbolRefAttr("f", ["g"]),
                 b.DenseArrayBase.from_list(i32, [1, 2]), b.DenseArrayBase.from_list(i64, [1]), b.DenseArrayBase.from_list(f32, [1.0]),
                 b.DenseArrayBase.from_list(i32, []),
                 b.DictionaryAttr({"k": i32}), b.DictionaryAttr({}),
                 b.DenseIntOrFPElementsAttr.from_list(b.TensorType(i32, [2]), [1, 2]),
                 b.DenseIntOrFPElementsAttr.from_list(b.VectorType(f32, [2]), [1.0, 2.0]),
                 x.XvBox(i32, b.ArrayAttr([i32, i64])), x.XvBox(i32, b.ArrayAttr([])), x.XvBox(b.StringAttr("a"), b.ArrayAttr([b.StringAttr("b")])),
                 x.XvBox(i32, b.ArrayAttr([f32])), x.XvBox(f32, b.ArrayAttr([f32, f32])),
                 x.XvPair(i32, b.StringAttr("a"), x.XvBox(b.StringAttr("b"), b.ArrayAttr([]))),
                 x.XvPair(i32, i64, x.XvBox(i64, b.ArrayAttr([i32]))), x.XvPair(f32, i32, x.XvBox(f32, b.ArrayAttr([i32]))),
                 x.XvPair(b.StringAttr("a"), i32, x.XvBox(i32, b.ArrayAttr([i32, i32]))),
                 x.XvInt(b.IntAttr(32), i32), x.XvInt(b.IntAttr(32), i64), x.XvInt(b.IntAttr(8), b.IntegerType(8, S.SIGNED)),
                 x.XvInt(b.IntAttr(16), b.IntegerType(16))]
        self.POOL = types + attrs
        self.b, self.x = b, x
        self.ABSTRACT = [TypeAttribute, ParametrizedAttribute, Data, b.BuiltinAttribute, b.ShapedType, b.ContainerType,
                         TypedAttribute, b.FixedBitwidthType]
        # deep pool: every nested attribute reachable through parameters / array elements
        deep, seen = [], set()

        def walk(a):
            from xv.c09_ref import attr_key
            k = attr_key(a)
            if k in seen:
                return
            seen.add(k)
            deep.append(a)
            if isinstance(a, ParametrizedAttribute):
                for p in a.parameters:
                    walk(p)
            elif isinstance(a, b.ArrayAttr):
                for p in a.data:
                    walk(p)
        for a in self.POOL:
            walk(a)
        self.DEEP = deep
        self.BYCLS = {}
        for a in deep:
            self.BYCLS.setdefault(type(a), []).append(a)
        self.PARAM_DOM = {}
        for a in deep:
            if isinstance(a, ParametrizedAttribute):
                for i, p in enumerate(a.parameters):
                    self.PARAM_DOM.setdefault((type(a), i), []).append(p)
        self.ARITY = {cls: len(v[0].parameters) for cls, v in self.BYCLS.items() if isinstance(v[0], ParametrizedAttribute)}
        self.INTS = [-1, 0, 1, 2, 3, 8, 16, 32, 64]
        self.OPAQUE = {b.DenseIntOrFPElementsAttr, b.DenseArrayBase}
        self.ParametrizedAttribute = ParametrizedAttribute

    def instances(self, cls):
        return [a for a in self.DEEP if isinstance(a, cls)]


_U = None


def U():
    global _U
    if _U is None:
        _U = Universe()
    return _U


# =========================================================================== generator of spec trees
class Gen:
    def __init__(self, rng, tvars=None, names=(ATTR_VARS, RANGE_VARS, INT_VARS)):
        self.rng = rng
        self.u = U()
        self.attr_vars, self.range_vars, self.int_vars = names
        self.vars = {}          # (ns, name) -> inner tree (one definition per name)
        self.busy = set()
        self.tvars = tvars      # None or {"attr": [(typevar, bound_tree)], "int": [(typevar, bound_int_tree)]}

    # ---- int level
    def g_int(self, d, ints=None):
        rng = self.rng
        ints = ints or self.u.INTS
        r = rng.random()
        if self.tvars and self.tvars["int"] and r < 0.2:
            tv, bound = rng.choice(self.tvars["int"])
            return ("itvar", tv, bound)
        if d > 0 and r < 0.30:
            name = rng.choice(self.int_vars)
            return self._var("ivar", "i", name, lambda: self.g_int(d - 1, ints))
        k = rng.randrange(6)
        n = rng.choice(ints)
        if k == 0:
            return ("iany",)
        if k == 1:
            return ("ieq", n)
        if k == 2:
            return ("ine", n)
        if k == 3:
            return ("iset", tuple(sorted(set(rng.choice(ints) for _ in range(rng.randint(1, 3))))))
        if k == 4:
            return ("ige", n)
        return ("ile", n)

    def _var(self, tag, ns, name, mk):
        key = (ns, name)
        if key in self.busy:
            return mk()
        if key not in self.vars:
            self.busy.add(key)
            try:
                self.vars[key] = mk()
            finally:
                self.busy.discard(key)
        return (tag, name, self.vars[key])

    # ---- range level
    def g_range(self, d, elems):
        rng = self.rng
        r = rng.random()
        if d > 0 and r < 0.15:
            name = rng.choice(self.range_vars)
            return self._var("rangevar", "r", name, lambda: self.g_range(d - 1, elems))
        if d > 0 and r < 0.38:
            return ("rangelen", self.g_range(d - 1, elems), self.g_int(1, [0, 1, 2, 3]))
        if r < 0.50:
            return ("single", self.g_attr(d - 1, elems))
        return ("rangeof", self.g_attr(d - 1, elems))

    # ---- attribute level
    def leaf(self, dom):
        rng, u = self.rng, self.u
        r = rng.random()
        if self.tvars and self.tvars["attr"] and r < 0.34:
            tv, bound = rng.choice(self.tvars["attr"])
            return ("tvar", tv, bound)
        if r < 0.08:
            return ("any",)
        if r < 0.40:
            return ("eq", rng.choice(dom))
        if r < 0.52:
            return ("set", tuple(rng.sample(dom, min(len(dom), rng.randint(2, 4)))))
        if r < 0.84:
            return ("base", type(rng.choice(dom)))
        if r < 0.94:
            a = rng.choice(dom)
            cands = [c for c in u.ABSTRACT if isinstance(a, c)] or u.ABSTRACT
            return ("base", rng.choice(cands))
        ints = [a.data for a in dom if isinstance(a, u.b.IntAttr)]
        if ints and rng.random() < 0.7:
            return ("intattr", self.g_int(1, ints + [ints[0] + 1]))
        return ("sized", self.g_int(0, [0, 1, 2, 3]))

    def g_param(self, d, dom, cls=None):
        rng, u = self.rng, self.u
        if cls is None:
            # dense attributes are never taken apart: an equality on their byte payload describes an attribute whose
            # payload does not match its type (accepted by `new`, but it cannot even be printed in the error message)
            classes = sorted({type(a) for a in dom if u.ARITY.get(type(a), 0) >= 1 and type(a) not in u.OPAQUE},
                             key=lambda c: c.__name__)
            if not classes:
                return self.leaf(dom)
            cls = rng.choice(classes)
        n = u.ARITY[cls]     # always the declared arity: ParamAttrConstraint.get with a wrong number of constraints is API
        #                      misuse (it folds to BaseAttr / raises ValueError); the direct constructor is a fixed case
        kids = tuple(self.g_attr(d - 1, u.PARAM_DOM.get((cls, i)) or u.POOL) for i in range(n))
        return ("param", cls, kids)

    def g_anyof(self, d, dom):
        rng, u = self.rng, self.u
        r = rng.random()
        pcls = sorted({type(a) for a in dom if u.ARITY.get(type(a), 0) >= 1 and type(a) not in u.OPAQUE}, key=lambda c: c.__name__)
        if r < 0.14:                                 # equalities / sets: relax merges them into one set
            alts = [self.leaf_eqset(dom) for _ in range(rng.randint(2, 4))]
        elif r < 0.26 and pcls:                      # Base(cls) with Param(cls, ..): relaxes to Base
            cls = rng.choice(pcls)
            alts = [("base", cls), self.g_param(d, dom, cls)]
            if rng.random() < 0.5:
                alts.reverse()
            if rng.random() < 0.4:
                alts.append(self.g_attr(d - 1, [a for a in dom if type(a) is not cls] or dom))
        elif r < 0.50 and pcls:                      # two Param(cls) differing in k positions: merged iff k == 1
            cls = rng.choice(pcls)
            p0 = self.g_param(max(d, 1), dom, cls)
            kids = list(p0[2])
            k = rng.choice([1, 1, 2, 2, 0]) if kids else 0
            for i in rng.sample(range(len(kids)), min(k, len(kids))):
                kids[i] = self.g_attr(d - 1, u.PARAM_DOM.get((cls, i)) or u.POOL)
            alts = [p0, ("param", cls, tuple(kids))]
            if rng.random() < 0.3:
                alts.append(self.g_attr(d - 1, [a for a in dom if type(a) is not cls] or dom))
        elif r < 0.60:                               # abstract base + final alternatives
            cands = [c for c in u.ABSTRACT if any(isinstance(a, c) for a in dom)] or u.ABSTRACT
            ab = rng.choice(cands)
            rest = [a for a in dom if not isinstance(a, ab)] or dom
            alts = [("base", ab)] + [self.g_attr(d - 1, [a for a in rest if type(a) is type(rng.choice(rest))] or rest)
                                     for _ in range(rng.randint(1, 2))]
            rng.shuffle(alts)
        elif r < 0.92:                               # alternatives over distinct classes
            classes = sorted({type(a) for a in dom}, key=lambda c: c.__name__)
            picked = rng.sample(classes, min(len(classes), rng.randint(2, 4)))
            alts = [self.g_attr(d - 1, [a for a in dom if type(a) is c]) for c in picked]
            if len(alts) < 2:
                alts.append(self.g_attr(d - 1, dom))
        else:                                        # unconstrained alternatives (often overlapping -> rejected)
            alts = [self.g_attr(d - 1, dom) for _ in range(rng.randint(2, 3))]
        if d > 1 and rng.random() < 0.25:            # nested union (flattening)
            i = rng.randrange(len(alts))
            extra = self.g_attr(d - 2, dom)
            alts[i] = ("anyof", (alts[i], extra))
        return ("anyof", tuple(alts))

    def leaf_eqset(self, dom):
        rng = self.rng
        if rng.random() < 0.65:
            return ("eq", rng.choice(dom))
        return ("set", tuple(rng.sample(dom, min(len(dom), rng.randint(2, 3)))))

    def g_attr(self, d, dom):
        rng, u = self.rng, self.u
        if not dom:
            dom = u.POOL
        r = rng.random()
        if d <= 0 or r < 0.26:
            return self.leaf(dom)
        if r < 0.48:
            return self.g_anyof(d, dom)
        if r < 0.56:
            kids = [self.g_attr(d - 1, dom) for _ in range(rng.randint(2, 3))]
            if rng.random() < 0.3:           # a member that is inferable only through an int / range variable
                ints = [a.data for a in dom if isinstance(a, u.b.IntAttr)]
                arrs = [a for a in dom if isinstance(a, u.b.ArrayAttr)]
                if ints and (not arrs or rng.random() < 0.5):
                    kids[0] = ("intattr", self._var("ivar", "i", rng.choice(self.int_vars), lambda: self.g_int(0, ints)))
                elif arrs:
                    elems = [e for a in arrs for e in a.data] or u.POOL
                    kids[0] = ("array", self._var("rangevar", "r", rng.choice(self.range_vars), lambda: ("rangeof", self.leaf(elems))))
                rng.shuffle(kids)
            return ("allof", tuple(kids))
        if r < 0.74:
            return self.g_param(d, dom)
        if r < 0.86:
            name = rng.choice(self.attr_vars)
            return self._var("var", "a", name, lambda: self.g_attr(d - 1, dom))
        if r < 0.89:
            return ("msg", self.g_attr(d - 1, dom), "xv message")
        arrays = [a for a in dom if isinstance(a, u.b.ArrayAttr)]
        if arrays and r < 0.97:
            elems = [e for a in arrays for e in a.data] or u.POOL
            return ("array", self.g_range(d - 1, elems))
        return self.leaf(dom)


# =========================================================================== witness synthesis / mutation
class Synth:
    """Tries to produce values a tree accepts (generator side; the verdict always comes from the reference)."""

    def __init__(self, rng):
        self.rng = rng
        self.u = U()

    def int_(self, t, env):
        from xv import c09_ref as R
        rng, tag = self.rng, t[0]
        if tag == "iany":
            return rng.choice(self.u.INTS)
        if tag == "ieq":
            return t[1]
        if tag == "ine":
            return t[1] + rng.choice([-1, 1])
        if tag == "iset":
            return rng.choice(t[1])
        if tag == "ige":
            return t[1] + rng.choice([0, 0, 1, 2])
        if tag == "ile":
            return t[1] - rng.choice([0, 0, 1, 2])
        if tag == "ivar":
            return env[("i", t[1])] if ("i", t[1]) in env else self.int_(t[2], env)
        if tag == "itvar":
            return self.int_(t[2], env)
        raise ValueError(t)

    def range_(self, t, env, n=None):
        """returns tuple or None"""
        from xv import c09_ref as R
        rng, tag = self.rng, t[0]
        if tag == "rangeof":
            n = rng.choice([0, 1, 1, 2, 2, 3]) if n is None else n
            out = []
            for _ in range(n):
                a = self.attr(t[1], env)
                if a is None:
                    return None
                e2 = R.eval_spec(t[1], a, env)
                if e2 is None:
                    return None
                env = e2
                out.append(a)
            return tuple(out)
        if tag == "single":
            if n not in (None, 1):
                return None
            a = self.attr(t[1], env)
            return None if a is None else (a,)
        if tag == "rangevar":
            if ("r", t[1]) in env:
                return tuple(env[("r", t[1])])
            return self.range_(t[2], env, n)
        if tag == "rangelen":
            m = self.int_(t[2], env)
            if n is not None and n != m:
                return None
            if m < 0 or m > 6:
                return None
            e2 = R.eval_int(t[2], m, env)
            return None if e2 is None else self.range_(t[1], e2, m)
        raise ValueError(t)

    def attr(self, t, env, depth=0):
        from xdsl.utils.exceptions import VerifyException
        from xv import c09_ref as R
        rng, u, tag = self.rng, self.u, t[0]
        if tag == "any":
            return rng.choice(u.POOL)
        if tag == "eq":
            return t[1]
        if tag == "set":
            return rng.choice(t[1])
        if tag == "base":
            inst = u.instances(t[1])
            return rng.choice(inst) if inst else None
        if tag == "param":
            cls = t[1]
            if rng.random() < 0.5:
                cands = [a for a in u.BYCLS.get(cls, []) if R.eval_spec(t, a, env) is not None]
                if cands:
                    return rng.choice(cands)
            ps = []
            for k in t[2]:
                p = self.attr(k, env, depth + 1)
                if p is None:
                    return None
                e2 = R.eval_spec(k, p, env)
                if e2 is None:
                    return None
                env = e2
                ps.append(p)
            try:
                r = cls.new(tuple(ps))
                str(r)
                return r
            except Exception:  # noqa: BLE001 - generator side: the candidate is simply not a constructible attribute
                return None                                  # not a constructible attribute: no witness this way
        if tag == "anyof":
            alts = list(t[1])
            rng.shuffle(alts)
            for k in alts:
                a = self.attr(k, env, depth + 1)
                if a is not None:
                    return a
            return None
        if tag == "allof":
            kids = list(t[1])
            rng.shuffle(kids)
            for k in kids:
                a = self.attr(k, env, depth + 1)
                if a is not None and R.eval_spec(t, a, env) is not None:
                    return a
            return None
        if tag == "var":
            if ("a", t[1]) in env:
                return env[("a", t[1])]
            return self.attr(t[2], env, depth + 1)
        if tag in ("msg",):
            return self.attr(t[1], env, depth + 1)
        if tag == "tvar":
            return self.attr(t[2], env, depth + 1)
        if tag == "array":
            r = self.range_(t[1], env)
            return None if r is None else u.b.ArrayAttr(r)
        if tag == "intattr":
            return u.b.IntAttr(self.int_(t[1], env))
        if tag == "sized":
            n = self.int_(t[1], env)
            if n < 0 or n > 6:
                return None
            return u.b.ArrayAttr([rng.choice(u.POOL) for _ in range(n)])
        raise ValueError(t)

    def mutate(self, a):
        """One-step neighbours of an attribute (None if nothing sensible)."""
        from xdsl.utils.exceptions import VerifyException
        rng, u = self.rng, self.u
        b = u.b
        if isinstance(a, b.ArrayAttr):
            data = list(a.data)
            k = rng.randrange(4)
            if k == 0 and data:
                data.pop(rng.randrange(len(data)))
            elif k == 1:
                data.insert(rng.randint(0, len(data)), rng.choice(data) if data and rng.random() < 0.5 else rng.choice(u.POOL))
            elif k == 2 and data:
                i = rng.randrange(len(data))
                data[i] = rng.choice(u.BYCLS.get(type(data[i]), u.POOL))
            elif data:
                rng.shuffle(data)
            else:
                data.append(rng.choice(u.POOL))
            return b.ArrayAttr(data)
        if isinstance(a, b.IntAttr):
            return b.IntAttr(a.data + rng.choice([-1, 1]))
        if isinstance(a, u.ParametrizedAttribute) and a.parameters:
            ps = list(a.parameters)
            i = rng.randrange(len(ps))
            if rng.random() < 0.5:
                m = self.mutate(ps[i])
                if m is not None:
                    ps[i] = m
                else:
                    ps[i] = rng.choice(u.PARAM_DOM[(type(a), i)])
            else:
                ps[i] = rng.choice(u.PARAM_DOM[(type(a), i)])
            try:
                r = type(a).new(tuple(ps))
                str(r)      # e.g. dense attributes with a byte payload that does not match the type are not attributes
                return r
            except Exception:  # noqa: BLE001 - generator side: the candidate is simply not a constructible attribute
                return None
        sib = u.BYCLS.get(type(a), [])
        return rng.choice(sib) if sib else None


# =========================================================================== monitors
class Monitor:
    def __init__(self, job):
        self.job = job
        self.res = {"evaluations": 0, "nontrivial": [], "samples": [], "counters": {}, "sets": {},
                    "violations": [], "extra": {}}
        self.C = self.res["counters"]
        self.nt = set()
        self.vkeys = {}
        self.relax_hits = 0
        self.case_idx = None

    def count(self, k, n=1):
        self.C[k] = self.C.get(k, 0) + n

    def setadd(self, k, v):
        s = self.res["sets"].setdefault(k, [])
        if v not in s and len(s) < 200:
            s.append(v)

    def viol(self, key, summary, witness):
        self.count("violations_raw")
        n = self.vkeys.get(key, 0)
        self.vkeys[key] = n + 1
        if n < 3 and len(self.res["violations"]) < 40:
            if self.case_idx is not None:
                rj = dict(self.job)
                rj["only"] = self.case_idx
                witness = dict(witness, replay_job=rj)
            self.res["violations"].append({"key": key, "summary": summary[:400], "witness": witness})

    def install_hooks(self):
        """Counting wrappers (evidence only): which relax_constraint implementations merged, which AnyOf.verify path ran."""
        from xdsl.irdl import constraints as K
        mon = self

        def wrap_relax(cls):
            orig = cls.__dict__.get("relax_constraint")
            if orig is None:
                return

            def relax_constraint(self, other, _orig=orig, _name=cls.__name__):
                r = _orig(self, other)
                mon.count("relax_calls")
                if r is not None:
                    mon.relax_hits += 1
                    mon.count(f"relax_merged:{_name}+{type(other).__name__}")
                return r
            cls.relax_constraint = relax_constraint
        for cls in (K.AttrConstraint, K.EqAttrConstraint, K.AttrSetConstraint, K.BaseAttr, K.ParamAttrConstraint):
            wrap_relax(cls)
        orig_verify = K.AnyOf.verify

        def verify(self, attr, constraint_context):
            if self._based_constrs.get(attr.__class__) is not None:
                mon.count("anyof_verify_dispatch_by_class")
            elif self._abstr_constr is not None:
                mon.count("anyof_verify_abstract_fallback")
            else:
                mon.count("anyof_verify_no_alternative")
            return orig_verify(self, attr, constraint_context)
        K.AnyOf.verify = verify
        orig_get = K.AnyOf.get

        def get(*a):
            mon.count("anyof_get_calls")
            return orig_get(*a)
        K.AnyOf.get = staticmethod(get)


def _innermost(exc):
    tb = exc.__traceback__
    name = "?"
    while tb is not None:
        name = getattr(tb.tb_frame.f_code, "co_qualname", tb.tb_frame.f_code.co_name)
        tb = tb.tb_next
    return name


def _desc(tree):
    tag = tree[0]
    if tag in ("anyof", "allof"):
        return tag + "(" + ",".join(sorted({t[0] for t in tree[1]})) + ")"
    if tag in ("var", "rangevar", "ivar", "tvar", "itvar"):
        return tag + "(" + tree[2][0] + ")"
    if tag in ("array", "intattr", "sized", "rangeof", "single", "msg"):
        return tag + "(" + tree[1][0] + ")"
    if tag == "rangelen":
        return tag + "(" + tree[1][0] + "," + tree[2][0] + ")"
    return tag


def _level(tree):
    from xv import c09_ref as R
    return "range" if tree[0] in R.RANGE_TAGS else "int" if tree[0] in R.INT_TAGS else "attr"


def _str(a):
    try:
        return str(a)
    except Exception:  # noqa: BLE001 - printing a mutated attribute whose payload is inconsistent (e.g. dense bytes) may fail
        return repr(a)


def _show_value(v):
    if isinstance(v, tuple):
        return [_str(x) for x in v]
    return _str(v)


def ref_all(tree, value, env):
    from xv import c09_ref as R
    lv = _level(tree)
    if lv == "range":
        return R.eval_range_all(tree, value, env)
    if lv == "int":
        return R.eval_int_all(tree, value, env)
    return R.eval_all(tree, value, env)


def real_verify(c, value, ctx):
    """('ok'|'rej'|'crash', exc).  Only VerifyException means 'rejected'."""
    from xdsl.utils.exceptions import VerifyException
    try:
        c.verify(value, ctx)
        return "ok", None
    except VerifyException as e:
        return "rej", e
    except Exception as e:  # noqa: BLE001 - any other exception is itself an observation (reported as violation)
        return "crash", e


def ref_int_inferable(t, names):
    """Reference reading of IntConstraint.can_infer: the int is determined by the constraint and the bound names."""
    tag = t[0]
    if tag == "ieq":
        return True
    if tag == "iset":
        return len(set(t[1])) == 1
    if tag == "ivar":
        return t[1] in names or ref_int_inferable(t[2], names)
    return False


def ref_can_infer(t, names, length_known=False):
    """Reference reading of can_infer (used only to CLASSIFY inference failures, never for the verdict)."""
    u = U()
    tag = t[0]
    if tag == "eq":
        return True
    if tag == "base":
        return u.ARITY.get(t[1], -1) == 0
    if tag == "param":
        return t[1] in u.ARITY and all(ref_can_infer(k, names) for k in t[2])
    if tag == "allof":
        return any(ref_can_infer(k, names) for k in t[1])
    if tag == "var":
        return t[1] in names or ref_can_infer(t[2], names)
    if tag == "msg":
        return ref_can_infer(t[1], names)
    if tag == "array":
        return ref_can_infer(t[1], names, False)
    if tag == "intattr":
        return ref_int_inferable(t[1], names)
    if tag == "rangeof":
        return length_known and ref_can_infer(t[1], names)
    if tag == "single":
        return ref_can_infer(t[1], names)
    if tag == "rangevar":
        return t[1] in names or ref_can_infer(t[2], names, length_known)
    if tag == "rangelen":
        if t[2][0] == "ieq" and t[2][1] == 0:
            return True
        return ref_can_infer(t[1], names, length_known or ref_int_inferable(t[2], names))
    return False


def has_wrong_arity(tree):
    from xv import c09_ref as R
    u = U()
    return any(t[0] == "param" and len(t[2]) != u.ARITY.get(t[1], len(t[2])) for t in R.subtrees(tree))


def _uninferable_rangelen(t, names, length_given, multi_set_only=False):
    """Is there a RangeLengthConstraint that infer() reaches WITHOUT a length although its own length constraint is
    not inferable from `names`?  (length_given: the caller passes a length down the range spine; ArrayOfConstraint
    always calls its range constraint with length=None.)"""
    tag = t[0]
    if tag == "rangelen":
        if not length_given and not ref_int_inferable(t[2], names):
            ln = t[2]
            while ln[0] == "ivar":
                ln = ln[2]
            if not multi_set_only or (ln[0] == "iset" and len(set(ln[1])) > 1):
                return True
        return _uninferable_rangelen(t[1], names, length_given or ref_int_inferable(t[2], names), multi_set_only)
    if tag == "rangevar":
        return t[1] not in names and _uninferable_rangelen(t[2], names, length_given, multi_set_only)
    if tag in ("rangeof", "single", "msg"):
        return _uninferable_rangelen(t[1], names, False, multi_set_only)
    if tag == "array":
        return _uninferable_rangelen(t[1], names, False, multi_set_only)
    if tag == "var":
        return t[1] not in names and _uninferable_rangelen(t[2], names, False, multi_set_only)
    if tag == "tvar":
        return _uninferable_rangelen(t[2], names, False, multi_set_only)
    if tag == "param":
        return any(_uninferable_rangelen(k, names, False, multi_set_only) for k in t[2])
    if tag in ("allof", "anyof"):
        return any(_uninferable_rangelen(k, names, False, multi_set_only) for k in t[1])
    return False


def _allof_needs_nonattr_names(tree, env_keys):
    """Known-mechanism model: an AllOf none of whose members is inferable from the ATTRIBUTE variables alone while one
    is inferable once int / range variables count (AllOf.infer consults only context.attr_variables)."""
    from xv import c09_ref as R
    attr_names = {n for (ns, n) in env_keys if ns == "a"}
    all_names = {n for (_, n) in env_keys}
    for t in R.subtrees(tree):
        if t[0] == "allof":
            if (not any(ref_can_infer(k, attr_names) for k in t[1])) and any(ref_can_infer(k, all_names) for k in t[1]):
                return True
    return False


def classify_infer_unsatisfying(tree, env_keys, length_known):
    """Known mechanism, second symptom: the uninferable length is an IntSetConstraint with several values, whose
    infer() returns an arbitrary member instead of raising, so a range of the wrong length comes back."""
    names = {n for (_, n) in env_keys}
    if _uninferable_rangelen(tree, names, length_known is True, multi_set_only=True):
        return "infer-unsatisfying:rangelen-infers-uninferable-length"
    return f"infer-unsatisfying:{_desc(tree)}"


def classify_infer_raise(tree, env_keys, length_known, exc):
    """Mechanism key of a 'can_infer true but infer raised'.  Known mechanisms are confirmed by their model:
    (1) RangeLengthConstraint.infer(length=None) infers its LENGTH unconditionally although can_infer only asks the
        inner range constraint: ValueError from IntConstraint.infer, and the tree has such a node on the path infer takes;
    (2) AllOf.infer consults only context.attr_variables: ValueError raised by AllOf.infer itself, and the tree has an
        AllOf that is inferable only through an int / range variable.
    Anything else keeps the generic key (exception type + innermost raising function)."""
    inner = _innermost(exc)
    names = {n for (_, n) in env_keys}
    if isinstance(exc, ValueError) and inner == "IntConstraint.infer" and _uninferable_rangelen(tree, names, length_known is True):
        return "infer-raises:rangelen-infers-uninferable-length"
    if isinstance(exc, ValueError) and inner == "AllOf.infer" and _allof_needs_nonattr_names(tree, env_keys):
        return "infer-raises:allof-ignores-int-and-range-variables"
    return f"infer-raises:{type(exc).__name__}:{inner}"


def vacuous_rangeof(tree, value, depth=0):
    """Does evaluating `tree` on `value` apply some RangeOf to an EMPTY range?  (Then the element constraint is not
    witnessed by the value at all; inference is only checked on non-vacuous witnesses.)"""
    if depth > 20:
        return False
    if tree[0] == "rangeof" and len(value) == 0:
        return True
    return any(vacuous_rangeof(sub, sv, depth + 1) for sub, sv in children_with_values(tree, value))


def children_with_values(tree, value):
    u = U()
    tag = tree[0]
    if tag in ("anyof", "allof"):
        return [(t, value) for t in tree[1]]
    if tag in ("var", "tvar", "rangevar", "ivar", "itvar"):
        return [(tree[2], value)]
    if tag == "msg":
        return [(tree[1], value)]
    if tag == "param":
        if isinstance(value, tree[1]) and len(value.parameters) == len(tree[2]):
            return list(zip(tree[2], value.parameters))
        return []
    if tag == "array":
        return [(tree[1], tuple(value.data))] if isinstance(value, u.b.ArrayAttr) else []
    if tag == "intattr":
        return [(tree[1], value.data)] if isinstance(value, u.b.IntAttr) else []
    if tag == "sized":
        return [(tree[1], len(value))] if hasattr(type(value), "__len__") else []
    if tag == "rangeof":
        return [(tree[1], v) for v in value]
    if tag == "single":
        return [(tree[1], value[0])] if len(value) == 1 else []
    if tag == "rangelen":
        return [(tree[1], value), (tree[2], len(value))]
    return []


def localise(tree, value, depth=0):
    """Smallest sub-tree / sub-value (evaluated alone, empty environment) on which real and reference still disagree."""
    from xv import c09_ref as R
    from xdsl.irdl import ConstraintContext
    if depth > 12:
        return tree, value
    for sub, sv in children_with_values(tree, value):
        try:
            c = R.build(sub)
        except Exception:  # noqa: BLE001 - sub-constraint not constructible on its own: cannot localise further
            continue
        st, _ = real_verify(c, sv, ConstraintContext())
        if st == "crash" or (st == "ok") != bool(ref_all(sub, sv, {})):
            return localise(sub, sv, depth + 1)
    return tree, value


# =========================================================================== the per-case comparison
class Runner:
    def __init__(self, mon, rng):
        self.m = mon
        self.rng = rng
        self.u = U()
        self.syn = Synth(rng)

    # one verification, real vs reference; returns (accepted?, resulting env or None, ambiguous?)
    def check_one(self, tree, c, value, env0, route):
        from xv import c09_ref as R
        m = self.m
        want = ref_all(tree, value, env0)
        ctx = R.ctx_of_env(env0)
        st, exc = real_verify(c, value, ctx)
        m.res["evaluations"] += 1
        m.count("verify_calls_compared")
        if st == "crash":
            m.viol(f"crash:verify:{type(exc).__name__}:{_innermost(exc)}",
                   f"verify raised {type(exc).__name__}: {exc}",
                   self.witness(tree, c, value, env0, route, got="crash", want=bool(want)))
            return None, None
        got = st == "ok"
        if got != bool(want):
            sub, sv = (tree, value)
            if not env0:
                sub, sv = localise(tree, value)
            kind = "false-accept" if got else "false-reject"
            m.viol(f"verdict:{kind}:{_desc(sub)}",
                   f"{kind}: real verify {'accepted' if got else 'rejected'} {_show_value(value)} but the definition says otherwise"
                   f" (smallest disagreeing part: {R.tree_show(sub)} on {_show_value(sv)})",
                   self.witness(tree, c, value, env0, route, got=got, want=bool(want), minimal={"tree": R.tree_show(sub), "value": _show_value(sv)}))
            return None, None
        if not got:
            m.count("verdict_agree_reject")
            return False, None
        m.count("verdict_agree_accept")
        if len(want) > 1:
            m.count("ambiguous_reference_envs")
        renv = R.env_of_ctx(ctx)
        rk = R.env_key(renv)
        if all(rk != R.env_key(e) for e in want):
            m.viol(f"env-mismatch:{_desc(tree)}",
                   f"after accepted verify the ConstraintContext is {R.env_show(renv)} but the definition gives {[R.env_show(e) for e in want[:2]]}",
                   self.witness(tree, c, value, env0, route, got=R.env_show(renv), want=[R.env_show(e) for e in want[:2]]))
            return None, None
        m.count("env_compared_equal")
        if renv.keys() != env0.keys():
            m.count("env_bound_new_variable")
        return True, renv

    def witness(self, tree, c, value, env0, route, **kw):
        from xv import c09_ref as R
        w = {"tree": R.tree_show(tree), "value": _show_value(value), "env_before": R.env_show(env0),
             "constraint": repr(c)[:600], "route": route}
        w.update(kw)
        return w

    def metadata(self, tree, c, value, env_after, route):
        """variables() are all set after a successful verify from the empty context; get_bases() contains the class."""
        from xv import c09_ref as R
        m = self.m
        names = {n for (_, n) in env_after}
        # a variable that occurs below a RangeOf may legitimately stay unset (empty range): not demanded
        vacuous = {s[1] for t in R.subtrees(tree) if t[0] == "rangeof" for s in R.subtrees(t) if s[0] in ("var", "rangevar", "ivar")}
        vs = set(c.variables())
        m.count("variables_metadata_checked")
        if vs - names:
            m.count("variables_unset_below_rangeof")
        if not (vs - vacuous) <= names:
            m.viol(f"variables-not-set:{_desc(tree)}",
                   f"variables() promises {sorted(vs)} but after a successful verify only {sorted(names)} are set",
                   self.witness(tree, c, value, {}, route, got=sorted(names), want=sorted(vs)))
        if _level(tree) == "attr":
            bs = c.get_bases()
            if bs is not None:
                m.count("get_bases_checked")
                if type(value) not in bs:
                    m.viol(f"bases-unsound:{_desc(tree)}",
                           f"get_bases() = {sorted(b.__name__ for b in bs)} but the constraint accepts a {type(value).__name__}",
                           self.witness(tree, c, value, {}, route, got=sorted(b.__name__ for b in bs), want=type(value).__name__))
            else:
                m.count("get_bases_none")

    def inference(self, tree, c, value, env1, route):
        """For subsets V of the variables bound by an accepted verification: can_infer(V) => infer succeeds and the
        inferred value satisfies the constraint under V (reference and real)."""
        from xv import c09_ref as R
        m, rng = self.m, self.rng
        if has_wrong_arity(tree):
            m.count("inference_skipped_wrong_arity_param")
            return False
        if vacuous_rangeof(tree, value):
            m.count("inference_skipped_vacuous_witness")
            return False
        keys = sorted(env1)
        subsets = [(), tuple(keys)]
        for k in keys:
            subsets.append((k,))
        if len(keys) > 2:
            subsets.append(tuple(k for k in keys if rng.random() < 0.5))
        lv = _level(tree)
        inferred_any = False
        for sub in dict.fromkeys(subsets):
            envV = {k: env1[k] for k in sub}
            names = {n for (_, n) in sub}
            modes = [None] if lv == "attr" else [True, False]
            for lk in modes:
                try:
                    ci = c.can_infer(names) if lk is None else c.can_infer(names, length_known=lk)
                except Exception as e:  # noqa: BLE001
                    m.viol(f"crash:can_infer:{type(e).__name__}:{_innermost(e)}", f"can_infer raised {type(e).__name__}: {e}",
                           self.witness(tree, c, value, envV, route, length_known=lk))
                    continue
                m.count("can_infer_calls")
                if not ci:
                    continue
                m.count("can_infer_true")
                try:
                    if lk is None:
                        r = c.infer(R.ctx_of_env(envV))
                    else:
                        r = tuple(c.infer(R.ctx_of_env(envV), length=len(value) if lk else None))
                except Exception as e:  # noqa: BLE001 - the property: can_infer true => infer must not raise
                    m.viol(classify_infer_raise(tree, sub, lk, e),
                           f"can_infer({sorted(names)}) is true but infer raised {type(e).__name__}: {e}",
                           self.witness(tree, c, value, envV, route, length_known=lk, known_witness=_show_value(value)))
                    continue
                want = ref_all(tree, r, envV)
                st, exc = real_verify(c, r, R.ctx_of_env(envV))
                m.res["evaluations"] += 1
                m.count("inferences_checked")
                inferred_any = True
                same = R.same_range(r, value) if lv == "range" else R.same_attr(r, value)
                m.count("inferred_equals_witness" if same else "inferred_differs_from_witness")
                if not want or st != "ok":
                    m.viol(classify_infer_unsatisfying(tree, sub, lk),
                           f"can_infer({sorted(names)}) is true and infer returned {_show_value(r)}, which the constraint "
                           f"{'rejects' if st != 'ok' else 'accepts'} and the definition {'rejects' if not want else 'accepts'}",
                           self.witness(tree, c, value, envV, route, inferred=_show_value(r), length_known=lk))
        return inferred_any

    def values_for(self, tree, n_rand, n_rel):
        """Pool values relevant to the tree + random pool values."""
        from xv import c09_ref as R
        rng, u = self.rng, self.u
        if _level(tree) == "range":
            elems = []
            for t in R.subtrees(tree):
                if t[0] == "eq":
                    elems.append(t[1])
                elif t[0] == "set":
                    elems.extend(t[1])
                elif t[0] in ("base", "param"):
                    elems.extend(u.instances(t[1])[:6])
            elems = elems or u.POOL
            out = [()]
            for _ in range(n_rand + n_rel):
                n = rng.choice([0, 1, 1, 2, 2, 3, 4])
                src = elems if rng.random() < 0.7 else u.POOL
                if rng.random() < 0.4 and n:
                    out.append((rng.choice(src),) * n)
                else:
                    out.append(tuple(rng.choice(src) for _ in range(n)))
            return out
        rel = []
        for t in R.subtrees(tree):
            if t[0] == "eq":
                rel.append(t[1])
            elif t[0] == "set":
                rel.extend(t[1])
            elif t[0] in ("base", "param"):
                rel.extend(u.BYCLS.get(t[1], []) or u.instances(t[1])[:8])
            elif t[0] == "array":
                rel.extend(u.BYCLS.get(u.b.ArrayAttr, []))
            elif t[0] == "intattr":
                rel.extend(u.BYCLS.get(u.b.IntAttr, []))
        # only top-level-plausible ones first: same classes as the top constraint can accept
        rng.shuffle(rel)
        out = rel[:n_rel] + [rng.choice(u.POOL) for _ in range(n_rand)]
        return out

    def synth_value(self, tree, env):
        if _level(tree) == "range":
            return self.syn.range_(tree, env)
        return self.syn.attr(tree, env)

    def mutate_value(self, tree, v):
        rng = self.rng
        if _level(tree) == "range":
            v = list(v)
            k = rng.randrange(4)
            if k == 0 and v:
                v.pop(rng.randrange(len(v)))
            elif k == 1:
                v.insert(rng.randint(0, len(v)), rng.choice(v) if v and rng.random() < 0.6 else rng.choice(self.u.POOL))
            elif v:
                i = rng.randrange(len(v))
                mm = self.syn.mutate(v[i])
                v[i] = mm if mm is not None else rng.choice(self.u.POOL)
            else:
                v.append(rng.choice(self.u.POOL))
            return tuple(v)
        return self.syn.mutate(v)

    def crossovers(self, cands, limit=6):
        rng, u = self.rng, self.u
        by = {}
        for a in cands:
            if isinstance(a, u.ParametrizedAttribute) and len(a.parameters) >= 2:
                by.setdefault(type(a), []).append(a)
            elif isinstance(a, u.b.ArrayAttr) and len(a.data) >= 2:
                by.setdefault(type(a), []).append(a)
        out = []
        for cls in sorted(by, key=lambda c: c.__name__):
            grp = by[cls]
            if len(grp) < 2:
                continue
            for _ in range(3):
                if len(out) >= limit:
                    return out
                p, q = rng.sample(grp, 2)
                if cls is u.b.ArrayAttr:
                    n = min(len(p.data), len(q.data))
                    out.append(u.b.ArrayAttr([rng.choice((p.data[i], q.data[i])) for i in range(n)]))
                    continue
                ps = [rng.choice((x, y)) for x, y in zip(p.parameters, q.parameters)]
                try:
                    r = cls.new(tuple(ps))
                    str(r)
                    out.append(r)
                except Exception:  # noqa: BLE001 - generator side: the mixture is not a constructible attribute
                    pass
        return out

    def run_tree(self, tree, c, route, n_rand=10, n_rel=14, flags=None):
        """All single-verification comparisons for one (tree, real constraint).  Returns a dict of observations."""
        from xv import c09_ref as R
        m, rng = self.m, self.rng
        obs = {"acc": 0, "rej": 0, "inferred": False}
        values = self.values_for(tree, n_rand, n_rel)
        wit = []
        for _ in range(3):
            w = self.synth_value(tree, {})
            if w is not None:
                wit.append(w)
                m.count("witness_synthesised")
            else:
                m.count("witness_synthesis_failed")
        # one witness per alternative of a top-level union, and crossovers between witnesses of the same class (a value
        # that takes each parameter from a different alternative is what an over-eager merge of alternatives accepts)
        top = tree
        while top[0] in ("var", "msg", "tvar"):
            top = top[2] if top[0] != "msg" else top[1]
        if top[0] == "anyof":
            for alt in top[1][:4]:
                w = self.synth_value(alt, {})
                if w is not None:
                    wit.append(w)
        for x in self.crossovers(wit + values):
            values.append(x)
            m.count("crossover_values")
        for w in list(wit):
            for _ in range(2):
                mv = self.mutate_value(tree, w)
                if mv is not None:
                    values.append(mv)
                    m.count("near_miss_mutants")
        values = wit + values
        meta_done = infer_done = 0
        seen = set()
        for v in values:
            k = tuple(R.attr_key(x) for x in v) if isinstance(v, tuple) else R.attr_key(v)
            if k in seen:
                continue
            seen.add(k)
            acc, env1 = self.check_one(tree, c, v, {}, route)
            if acc is None:
                continue
            obs["acc" if acc else "rej"] += 1
            if acc:
                if _level(tree) == "attr":
                    got2 = c.verifies(v)
                    m.count("verifies_helper_compared")
                    if got2 is not True:
                        m.viol("verifies-helper-disagrees", "verify() accepted but verifies() returned False",
                               self.witness(tree, c, v, {}, route))
                if meta_done < 4:
                    meta_done += 1
                    self.metadata(tree, c, v, env1, route)
                if infer_done < 3:
                    infer_done += 1
                    if self.inference(tree, c, v, env1, route):
                        obs["inferred"] = True
        # non-empty starting environments: bind some of the tree's variables to plausible / implausible values
        tv = sorted(R.tree_vars(tree))
        if tv and wit:
            for _ in range(3):
                w = rng.choice(wit)
                envs = ref_all(tree, w, {})
                if not envs:
                    continue
                full = envs[0]
                env0 = {k: full[k] for k in full if rng.random() < 0.6}
                if env0 and rng.random() < 0.4:         # corrupt one binding
                    k = rng.choice(sorted(env0))
                    if k[0] == "a":
                        env0[k] = rng.choice(self.u.BYCLS.get(type(env0[k]), self.u.POOL))
                    elif k[0] == "i":
                        env0[k] = env0[k] + rng.choice([-1, 1])
                    else:
                        env0[k] = tuple(env0[k]) + (rng.choice(self.u.POOL),)
                m.count("prebound_env_cases")
                for v in (w, self.mutate_value(tree, w)):
                    if v is None:
                        continue
                    acc, _ = self.check_one(tree, c, v, env0, route + "+prebound")
                    if acc is not None:
                        obs["acc" if acc else "rej"] += 1
        return obs

    def run_sequence(self, trees, cs, route):
        """2-3 constraints sharing variables verified in ONE ConstraintContext (as operand/result constraints of an op)."""
        from xv import c09_ref as R
        m, rng = self.m, self.rng
        for attempt in range(4):
            env = {}
            vals = []
            for t in trees:                               # accepted path, threaded
                v = self.synth_value(t, env)
                if v is None:
                    break
                e2 = ref_all(t, v, env)
                if not e2:
                    break
                env = e2[0]
                vals.append(v)
            if len(vals) != len(trees):
                m.count("sequence_synthesis_failed")
                vals = [self.synth_value(t, {}) for t in trees]
                if any(v is None for v in vals):
                    continue
            if attempt % 2 == 1:                          # perturb one position
                i = rng.randrange(len(vals))
                mv = self.mutate_value(trees[i], vals[i])
                if mv is not None:
                    vals[i] = mv
            m.count("sequences_run")
            ctx_env = {}
            full = True
            for i, (t, c, v) in enumerate(zip(trees, cs, vals)):
                acc, env1 = self.check_one(t, c, v, ctx_env, route + f"+seq{i}")
                if not acc:
                    full = False
                    break
                if i > 0 and env1 is not None:
                    m.count("sequence_steps_with_shared_ctx")
                ctx_env = env1
            m.count("sequences_fully_accepted" if full else "sequences_rejected_or_stopped")


# =========================================================================== job kinds
def _mk_tvars(rng, gen_plain):
    from typing_extensions import TypeVar
    from xdsl.ir import Attribute
    u = U()
    attr_bounds = [("any",), ("base", u.b.IntegerType), ("anyof", (("base", u.b.IntegerType), ("base", u.b.IndexType)))]
    tvs = {"attr": [], "int": []}
    for i in range(2):
        tvs["attr"].append((TypeVar(f"XvT{i}", bound=Attribute), rng.choice(attr_bounds)))
    tvs["int"].append((TypeVar("XvI0", bound=int), rng.choice([("iany",), ("ige", 0)])))
    return tvs


def case_tree(mon, seed, idx, tier, want_tv=False):
    """One generated case: 1-3 trees sharing a variable table."""
    from xdsl.utils.exceptions import PyRDLError, VerifyException
    from xv import c09_ref as R
    rng = random.Random(f"c09:{seed}:{idx}")
    u = U()
    mon.case_idx = idx
    tvars = _mk_tvars(rng, None) if want_tv else None
    gen = Gen(rng, tvars)
    k = 1 if rng.random() < 0.62 else rng.choice([2, 2, 3])
    trees = []
    for _ in range(k):
        d = rng.choice([1, 2, 2, 3, 3, 4])
        if rng.random() < 0.22:
            trees.append(gen.g_range(d, u.POOL))
        else:
            trees.append(gen.g_attr(d, u.POOL))
    run = Runner(mon, rng)
    built = []
    for t in trees:
        hits0 = mon.relax_hits
        route_rng = random.Random(rng.random())
        try:
            c = R.build(t, route_rng)
        except PyRDLError:
            mon.count("construction_rejected_PyRDLError")
            built.append(None)
            continue
        except VerifyException:
            mon.count("construction_rejected_VerifyException")
            built.append(None)
            continue
        except Exception as e:  # noqa: BLE001
            if isinstance(e, ValueError) and has_wrong_arity(t) and _innermost(e) == "ParametrizedAttribute.new":
                mon.count("construction_rejected_wrong_arity")      # API misuse by the generator, on purpose
            else:
                mon.viol(f"crash:construct:{type(e).__name__}:{_innermost(e)}", f"building the constraint raised {type(e).__name__}: {e}",
                         {"tree": R.tree_show(t)})
            built.append(None)
            continue
        mon.count("constraints_built")
        built.append((c, mon.relax_hits > hits0))
    for t, bc in zip(trees, built):
        if bc is None:
            continue
        c, merged = bc
        tags = {s[0] for s in R.subtrees(t)}
        for tg in tags:
            mon.count(f"trees_with:{tg}")
        obs = run.run_tree(t, c, "build")
        names = [s[1] for s in R.subtrees(t) if s[0] in ("var", "rangevar", "ivar")]
        shared = len(names) != len(set(names))
        if merged:
            mon.count("trees_union_merged_by_relax")
        if shared:
            mon.count("trees_with_repeated_variable")
        if obs["acc"] and obs["rej"]:
            mon.count("trees_both_verdicts")
            if merged or shared or obs["inferred"]:
                mon.nt.add(shash(("tree", R.tree_show(t))))
        if want_tv and tags & {"tvar", "itvar"}:
            # substitute the type variables: real mapping_type_vars vs substitution on the spec tree
            # the substituted constraints use their own variable names: a name shared with `t` would get two different
            # definitions (one with the type variable substituted, one without), which the assumptions exclude
            gen2 = Gen(rng, None, names=(["V", "W"], ["P"], ["K"]))
            mapping_trees = {}
            for tv, bound in tvars["attr"]:
                mapping_trees[tv] = gen2.g_attr(rng.choice([0, 1, 1, 2]), u.POOL)
            for tv, bound in tvars["int"]:
                mapping_trees[tv] = gen2.g_int(1)
            t1 = R.subst(t, mapping_trees)
            hits0 = mon.relax_hits
            try:
                real_map = {tv: R.build(mt, random.Random(rng.random())) for tv, mt in mapping_trees.items()}
                c1 = c.mapping_type_vars(real_map)
            except PyRDLError:
                mon.count("mapping_rejected_PyRDLError")
                continue
            except VerifyException:
                mon.count("mapping_rejected_VerifyException")
                continue
            except Exception as e:  # noqa: BLE001
                if isinstance(e, ValueError) and has_wrong_arity(t1) and _innermost(e) == "ParametrizedAttribute.new":
                    mon.count("mapping_rejected_wrong_arity")
                    continue
                mon.viol(f"crash:mapping_type_vars:{type(e).__name__}:{_innermost(e)}",
                         f"mapping_type_vars raised {type(e).__name__}: {e}",
                         {"tree": R.tree_show(t), "mapping": {str(k): R.tree_show(v) for k, v in mapping_trees.items()}})
                continue
            mon.count("type_var_mappings_applied")
            obs1 = run.run_tree(t1, c1, "mapping_type_vars")
            if obs1["acc"] and obs1["rej"]:
                mon.count("mapped_trees_both_verdicts")
                mon.nt.add(shash(("mapped", R.tree_show(t1))))
    live = [(t, bc[0]) for t, bc in zip(trees, built) if bc is not None]
    if len(live) >= 2:
        run.run_sequence([t for t, _ in live], [c for _, c in live], "build")
    if idx % 97 == 0 and len(mon.res["samples"]) < 3 and live:
        mon.res["samples"].append({"tree": R.tree_show(live[0][0]), "constraint": repr(live[0][1])[:300]})


# ---- hints
class HintGen:
    def __init__(self, rng):
        self.rng = rng
        self.u = U()

    def h_int(self, vals):
        rng = self.rng
        r = rng.random()
        vals = list(vals) or [1, 32]
        pool = sorted(set(vals + [vals[0] + 1, 8, 32]))
        if r < 0.25:
            return ("hi_int",)
        if r < 0.8:
            return ("hi_lit", tuple(rng.sample(pool, min(len(pool), rng.randint(1, 3)))))
        return ("hi_ulit", (tuple(rng.sample(pool, min(len(pool), rng.randint(1, 2)))), tuple(rng.sample(pool, min(len(pool), rng.randint(1, 2))))))

    def h_enum(self):
        rng = self.rng
        S = self.u.b.Signedness
        if rng.random() < 0.3:
            return ("he_all",)
        return ("he_lit", tuple(rng.sample([S.SIGNLESS, S.SIGNED, S.UNSIGNED], rng.randint(1, 2))))

    def h_attr(self, d, dom):
        from xv import c09_ref as R
        rng, u = self.rng, self.u
        if not dom:
            dom = u.POOL
        G = R.generics()
        r = rng.random()
        if d <= 0 or r < 0.22:
            k = rng.random()
            if k < 0.08:
                return ("h_any",)
            if k < 0.8:
                return ("h_cls", type(rng.choice(dom)))
            a = rng.choice(dom)
            return ("h_cls", rng.choice([c for c in u.ABSTRACT if isinstance(a, c)] or u.ABSTRACT))
        if r < 0.42:
            classes = sorted({type(a) for a in dom}, key=lambda c: c.__name__)
            if rng.random() < 0.75 and len(classes) >= 2:
                picked = rng.sample(classes, min(len(classes), rng.randint(2, 3)))
                ms = tuple(self.h_attr(d - 1, [a for a in dom if type(a) is c]) for c in picked)
            else:
                ms = tuple(self.h_attr(d - 1, dom) for _ in range(2))
            return ("h_union", ms, rng.choice(["pipe", "Union"]))
        if r < 0.54:
            inner = self.h_attr(d - 1, dom)
            extras = []
            for _ in range(rng.randint(1, 2)):
                if rng.random() < 0.5:
                    extras.append(("a", rng.choice(dom)))
                else:
                    g = Gen(rng)
                    t = strip_vars(g.g_attr(rng.choice([0, 1]), dom))
                    extras.append(("c", t))
            return ("h_annot", inner, tuple(extras))
        origins = sorted({type(a) for a in dom if type(a) in G}, key=lambda c: c.__name__)
        if not origins:
            return ("h_cls", type(rng.choice(dom)))
        origin = rng.choice(origins)
        kinds, defaults, proj = G[origin]
        insts = [a for a in dom if type(a) is origin]
        args = []
        for i, kd in enumerate(kinds):
            vals = [v for a in insts for v in proj(a)[i]]
            if kd == "attr":
                args.append(self.h_attr(d - 1, vals))
            elif kd == "int":
                args.append(self.h_int(vals))
            else:
                args.append(self.h_enum())
        if len(args) > 1 and rng.random() < 0.2:
            args = args[:rng.randint(1, len(args) - 1)]
        return ("h_gen", origin, tuple(args))


def strip_vars(t):
    """Variable-free version of a spec tree (type hints are read attribute by attribute, without an environment, so
    the constraints placed inside Annotated[...] by the hint generator carry no constraint variables)."""
    tag = t[0]
    if tag in ("var", "rangevar", "ivar"):
        return strip_vars(t[2])
    if tag == "param":
        return (tag, t[1], tuple(strip_vars(k) for k in t[2]))
    if tag in ("anyof", "allof"):
        return (tag, tuple(strip_vars(k) for k in t[1]))
    if tag == "msg":
        return (tag, strip_vars(t[1]), t[2])
    if tag in ("array", "intattr", "sized", "rangeof", "single"):
        return (tag, strip_vars(t[1]))
    if tag == "rangelen":
        return (tag, strip_vars(t[1]), strip_vars(t[2]))
    return t


def _hint_show(h):
    from xv import c09_ref as R
    if isinstance(h, tuple) and h and h[0] == "h_annot":
        return ["h_annot", _hint_show(h[1]), [[k, R.tree_show(p)] for k, p in h[2]]]
    if isinstance(h, tuple):
        return [_hint_show(x) for x in h]
    return R.tree_show(h)


def _hint_classes(h, out):
    if h[0] == "h_cls":
        out.append(h[1])
    elif h[0] == "h_union":
        for m in h[1]:
            _hint_classes(m, out)
    elif h[0] == "h_annot":
        _hint_classes(h[1], out)
    elif h[0] == "h_gen":
        out.append(h[1])


def case_hint(mon, seed, idx):
    from xdsl.irdl import irdl_to_attr_constraint
    from xdsl.utils.exceptions import PyRDLError, VerifyException
    from xdsl.utils.hints import isa
    from xv import c09_ref as R
    rng = random.Random(f"c09h:{seed}:{idx}")
    u = U()
    mon.case_idx = idx
    h = HintGen(rng).h_attr(rng.choice([1, 2, 2, 3]), u.POOL)
    try:
        H = R.build_hint(h, random.Random(rng.random()))
    except PyRDLError:
        mon.count("hint_extra_constraint_rejected")
        return
    except VerifyException:
        mon.count("hint_extra_constraint_rejected")
        return
    mon.count("hints_built")
    mon.count(f"hints_with_top:{h[0]}")
    c = None
    try:
        c = irdl_to_attr_constraint(H)
        mon.count("hint_constraints_built")
    except PyRDLError:
        mon.count("hint_constraint_rejected_PyRDLError")
    except VerifyException:
        mon.count("hint_constraint_rejected_VerifyException")
    except Exception as e:  # noqa: BLE001
        mon.viol(f"crash:irdl_to_attr_constraint:{type(e).__name__}:{_innermost(e)}",
                 f"irdl_to_attr_constraint raised {type(e).__name__}: {e}", {"hint": str(H), "hint_tree": _hint_show(h)})
    classes = []
    _hint_classes(h, classes)
    rel = [a for cl in classes for a in u.instances(cl)]
    rng.shuffle(rel)
    vals = rel[:24] + [rng.choice(u.POOL) for _ in range(10)]
    syn = Synth(rng)
    for a in list(vals[:6]):
        mv = syn.mutate(a)
        if mv is not None:
            vals.append(mv)
    use_isa = R.isa_supported(h)
    seen = set()
    acc = rej = 0
    for a in vals:
        k = R.attr_key(a)
        if k in seen:
            continue
        seen.add(k)
        want = R.ref_isa(a, h)
        acc += want
        rej += not want
        if c is not None:
            mon.res["evaluations"] += 1
            mon.count("hint_constraint_verdicts_compared")
            try:
                got = c.verifies(a)
            except Exception as e:  # noqa: BLE001
                mon.viol(f"crash:verify:{type(e).__name__}:{_innermost(e)}", f"verifies raised {type(e).__name__}: {e}",
                         {"hint": str(H), "value": str(a)})
                continue
            if got != want:
                mon.viol(f"hint-constraint-mismatch:{'false-accept' if got else 'false-reject'}:{h[0]}"
                         + (":" + h[1].__name__ if h[0] == "h_gen" else ""),
                         f"irdl_to_attr_constraint({H}).verifies({a}) = {got}, structural reading of the hint says {want}",
                         {"hint": str(H), "hint_tree": _hint_show(h), "value": str(a), "constraint": repr(c)[:600], "got": got, "want": want})
        if use_isa:
            try:
                got2 = isa(a, H)
            except PyRDLError:
                mon.count("isa_rejected_PyRDLError")
                continue
            except Exception as e:  # noqa: BLE001
                mon.viol(f"crash:isa:{type(e).__name__}:{_innermost(e)}", f"isa raised {type(e).__name__}: {e}",
                         {"hint": str(H), "value": str(a)})
                continue
            mon.res["evaluations"] += 1
            mon.count("isa_verdicts_compared")
            if got2 != want:
                mon.viol(f"isa-mismatch:{'false-accept' if got2 else 'false-reject'}:{h[0]}"
                         + (":" + h[1].__name__ if h[0] == "h_gen" else ""),
                         f"isa({a}, {H}) = {got2}, structural reading of the hint says {want}",
                         {"hint": str(H), "hint_tree": _hint_show(h), "value": str(a), "got": got2, "want": want})
        else:
            mon.count("isa_skipped_annotated_top_level")
    if acc and rej:
        mon.count("hints_both_verdicts")
        if h[0] in ("h_gen", "h_union", "h_annot"):
            mon.nt.add(shash(("hint", _hint_show(h))))
    if idx % 53 == 0 and len(mon.res["samples"]) < 2:
        mon.res["samples"].append({"hint": str(H), "constraint": repr(c)[:300]})


# ---- fixed cases: constraints defined inside xDSL itself, each with a hand-written spec tree
def fixed_cases():
    u = U()
    b = u.b
    S = b.Signedness
    floats = tuple(("base", c) for c in (b.BFloat16Type, b.Float16Type, b.Float32Type, b.Float64Type, b.Float80Type, b.Float128Type))
    return [
        ("AnyFloatConstr", b.AnyFloatConstr, ("anyof", floats)),
        ("IntegerAttrTypeConstr", b.IntegerAttrTypeConstr, ("anyof", (("base", b.IndexType), ("base", b.IntegerType)))),
        ("SignlessIntegerConstraint", b.SignlessIntegerConstraint,
         ("param", b.IntegerType, (("base", b.IntAttr), ("eq", b.SignednessAttr(S.SIGNLESS))))),
        ("FlatSymbolRefAttrConstr", b.FlatSymbolRefAttrConstr,
         ("param", b.SymbolRefAttr, (("any",), ("array", ("rangelen", ("rangeof", ("any",)), ("ieq", 0)))))),
        ("StaticShapeArrayConstr", b.StaticShapeArrayConstr, ("array", ("rangeof", ("intattr", ("ine", b.DYNAMIC_INDEX))))),
        ("IndexTypeConstr", b.IndexTypeConstr, ("base", b.IndexType)),
        ("IntegerAttr.constr(i32)", b.IntegerAttr.constr(b.i32), ("param", b.IntegerAttr, (("any",), ("eq", b.i32)))),
        ("IntegerAttr.constr(value>=1)", b.IntegerAttr.constr(value=__import__("xdsl.irdl", fromlist=["AtLeast"]).AtLeast(1)),
         ("param", b.IntegerAttr, (("intattr", ("ige", 1)), ("anyof", (("base", b.IndexType), ("base", b.IntegerType)))))),
        ("TensorType.constr(f32)", b.TensorType.constr(b.Float32Type()), ("param", b.TensorType, (("any",), ("eq", b.Float32Type()), ("any",)))),
        ("VectorType.constr(IntegerType)", b.VectorType.constr(b.IntegerType), ("param", b.VectorType, (("base", b.IntegerType), ("any",), ("any",)))),
        ("ArrayAttr.constr(IntegerType)", b.ArrayAttr.constr(b.IntegerType), ("array", ("rangeof", ("base", b.IntegerType)))),
        ("IntAttr.constr(AtLeast)", b.IntAttr.constr(__import__("xdsl.irdl", fromlist=["AtMost"]).AtMost(8)), ("intattr", ("ile", 8))),
    ]


def job_fixed(mon):
    from xdsl.irdl import BaseAttr, ParamAttrConstraint
    from xv import c09_ref as R
    rng = random.Random("c09-fixed")
    run = Runner(mon, rng)
    b = U().b
    # wrong number of parameter constraints through the dataclass constructor: verify must reject every attribute
    for cls, kids, tree_kids in ((b.IntegerType, (BaseAttr(b.IntAttr),), (("base", b.IntAttr),)),
                                 (b.ComplexType, (BaseAttr(b.Float32Type), BaseAttr(b.Float32Type)), (("base", b.Float32Type),) * 2)):
        obs = run.run_tree(("param", cls, tree_kids), ParamAttrConstraint(cls, kids), "direct-wrong-arity",
                           n_rand=len(U().POOL), n_rel=60)
        mon.count("wrong_arity_direct_constructor_cases")
        if obs["acc"]:
            raise RuntimeError("harness: reference accepted a wrong-arity ParamAttrConstraint")
    for i, (name, c, tree) in enumerate(fixed_cases()):
        mon.case_idx = None
        mon.count("library_constraints_checked")
        obs = run.run_tree(tree, c, "library:" + name, n_rand=len(U().POOL), n_rel=60)
        if obs["acc"] and obs["rej"]:
            mon.nt.add(shash(("fixed", name)))
        else:
            raise RuntimeError(f"harness: library constraint {name} did not show both verdicts (workload problem)")


# =========================================================================== plan / work / finish
def plan(tier, seed):
    jobs = []
    if tier == "quick":
        nt, ct, ntv, ctv, nh, ch = 24, 175, 6, 150, 6, 350
    else:
        nt, ct, ntv, ctv, nh, ch = 64, 5000, 16, 2500, 16, 5000
    for i in range(nt):
        jobs.append({"kind": "tree", "seed": seed * 100003 + i, "cases": ct, "tier": tier})
    for i in range(ntv):
        jobs.append({"kind": "tv", "seed": seed * 100003 + 5000 + i, "cases": ctv, "tier": tier})
    for i in range(nh):
        jobs.append({"kind": "hint", "seed": seed * 100003 + 9000 + i, "cases": ch, "tier": tier})
    jobs.append({"kind": "fixed"})
    return jobs


def work(job):
    mon = Monitor(job)
    mon.install_hooks()
    kind = job["kind"]
    if kind == "fixed":
        job_fixed(mon)
    else:
        only = job.get("only")
        idxs = [only] if only is not None else range(job["cases"])
        for idx in idxs:
            if kind == "tree":
                case_tree(mon, job["seed"], idx, job.get("tier", "quick"))
            elif kind == "tv":
                case_tree(mon, job["seed"], idx, job.get("tier", "quick"), want_tv=True)
            elif kind == "hint":
                case_hint(mon, job["seed"], idx)
            else:
                raise ValueError(kind)
            mon.count(f"cases:{kind}")
    mon.res["nontrivial"] = sorted(mon.nt)
    mon.count("nontrivial_cases", len(mon.nt))
    return mon.res


THRESHOLDS = {
    # counter: (quick minimum, thorough minimum); measured on the unchanged tree (quick, seeds 0-3): >= 4x the quick minimum
    "verify_calls_compared": (40000, 400000),        # measured ~160k
    "verdict_agree_accept": (8000, 80000),           # ~55k
    "verdict_agree_reject": (20000, 200000),         # ~97k
    "env_bound_new_variable": (1000, 10000),         # ~14k
    "sequence_steps_with_shared_ctx": (200, 2000),   # ~4k
    "trees_union_merged_by_relax": (150, 1500),      # ~800
    "anyof_verify_abstract_fallback": (300, 3000),   # ~4k
    "anyof_verify_dispatch_by_class": (3000, 30000),  # ~33k
    "inferences_checked": (500, 5000),               # ~5.9k
    "type_var_mappings_applied": (80, 800),          # ~450
    "hint_constraint_verdicts_compared": (8000, 80000),  # ~40k
    "isa_verdicts_compared": (8000, 80000),          # ~36k
    "get_bases_checked": (1000, 10000),              # ~10k
    "variables_metadata_checked": (1500, 15000),     # ~18k
    "crossover_values": (2000, 20000),               # ~25k
    "library_constraints_checked": (10, 10),
}


def finish(agg, tier):
    inc = []
    c = agg.counters
    i = 0 if tier == "quick" else 1
    for k, mins in THRESHOLDS.items():
        if c.get(k, 0) < mins[i]:
            inc.append(f"monitor {k} reached only {c.get(k, 0)} times (< {mins[i]})")
    for k in ("relax_merged:EqAttrConstraint+EqAttrConstraint", "relax_merged:ParamAttrConstraint+ParamAttrConstraint",
              "relax_merged:ParamAttrConstraint+BaseAttr"):
        if c.get(k, 0) == 0:
            inc.append(f"{k} never observed")
    built = c.get("constraints_built", 0)
    rejected = c.get("construction_rejected_PyRDLError", 0) + c.get("construction_rejected_VerifyException", 0)
    return {"inconclusive": inc,
            "coverage": {"excluded": {"construction_rejected_PyRDLError": c.get("construction_rejected_PyRDLError", 0),
                                      "construction_rejected_VerifyException": c.get("construction_rejected_VerifyException", 0),
                                      "hint_constraint_rejected_PyRDLError": c.get("hint_constraint_rejected_PyRDLError", 0),
                                      "isa_skipped_annotated_top_level": c.get("isa_skipped_annotated_top_level", 0)},
                         "constructions": {"built": built, "rejected": rejected}}}
