"""C16 - Control-flow and loop lowerings preserve program results.

Reference-model differential monitor: DIRECTED generated programs (one generator per pass, xv/c16_gen.py) are
run in the independent reference semantics (xv/refsem.py + xv/c16_ref.py) on role-directed inputs before and
after each of the eight passes; returned values, final contents of argument memrefs and the ORDERED effect log
must be identical wherever the source program is defined.  The pass output must verify.  A pass that raises has
not "accepted" the program (property statement) - counted, never a violation; the trigger rate (pass changed the
independent canonical form) is measured per pass and < 20 % is inconclusive."""
from __future__ import annotations

import random
import signal

from xv.harness import shash

ID = "C16"
LEVEL = "exploration"
RULE = ("programs from eight directed generators (nested scf.for/if/while/index_switch with constant and symbolic "
        "bounds incl. zero-trip/negative ranges/non-unit steps/iter_args; affine.for/apply/load/store/if with "
        "floordiv/mod/ceildiv maps; single-use induction variables under addi/muli; perfect 2- and 3-nests; "
        "constant-bound loops; invariant/variant/trapping ops under zero-trip loops and guards; symref programs), "
        "each run on 8 role-directed input rows before and after its pass; a case is non-trivial when the pass "
        "changed the independent canonical form of the module and >= 1 input row was compared (source defined); "
        "distinct = distinct (pass, canonical source module)")
LEVEL_TEXT = ("Every generated program is executed in an independent reference semantics before and after the pass on "
              "every generated input; held = results, final argument memory and ordered effect logs agreed on all "
              "comparisons explored, outputs verified, and every pass fired on > 20 % of its programs.")
LEVEL_NOTE = ("trusts xv/refsem.py + xv/c16_ref.py (reference semantics incl. UB/poison model), xv/canon.py (only to "
              "decide 'changed'), the xDSL parser/verifier for building the two module copies, CPython")
TECHNIQUE = "reference-model differential monitor (before/after each pass, ordered effect log) with wrong-behaviour-model classifiers"
ENGINES = ["harness", "canon", "refsem"]
ASSUMPTIONS = ["refsem's UB model: division by zero / signed overflow division, non-positive scf.for step, out-of-bounds "
               "memref access and observed poison are undefined; inputs on which the SOURCE is undefined are excluded",
               "a pass that raises did not accept the program (counted as rejected, not a violation)",
               "external calls are deterministic functions of (name, args) and are ordered effects"]
JOB_TIMEOUT = {"quick": 3000, "thorough": 14000}

PASSES = ["convert-scf-to-cf", "lower-affine", "scf-for-loop-range-folding", "scf-for-loop-flatten",
          "scf-for-loop-unroll", "licm", "control-flow-hoist", "frontend-desymrefy"]
N_INPUTS = 8
SRC_STEPS = 15000
# ops declared Pure (always speculatable) in xdsl.dialects.arith although they trap on a zero / -1 divisor
PASS_CPU_LIMIT = 60.0


class _CpuLimit(BaseException):
    pass


def _on_cpu_limit(signum, frame):
    raise _CpuLimit()


TRAP_PURE = ("arith.floordivsi", "arith.ceildivsi", "arith.remsi")


def _gens():
    from xv import c16_gen as G
    return {"convert-scf-to-cf": G.gen_scf2cf, "lower-affine": G.gen_lower_affine,
            "scf-for-loop-range-folding": G.gen_range_folding, "scf-for-loop-flatten": G.gen_flatten,
            "scf-for-loop-unroll": G.gen_unroll, "licm": G.gen_licm, "control-flow-hoist": G.gen_hoist,
            "frontend-desymrefy": G.gen_desymrefy}


# ------------------------------------------------------------------------------------------ static helpers
def _symref_nested_use(module):
    """True when some symref.fetch/update sits in a region nested below the block of its symref.declare."""
    decl = {}
    for o in module.walk():
        if o.name == "symref.declare":
            decl[o.properties["sym_name"].data] = o.parent
    for o in module.walk():
        if o.name in ("symref.fetch", "symref.update"):
            s = o.properties["symbol"].root_reference.data
            if s in decl and o.parent is not decl[s]:
                return True
    return False


def _symref_dangling(module):
    """symref.fetch/update left in the output whose symbol has no symref.declare any more."""
    decl = {o.properties["sym_name"].data for o in module.walk() if o.name == "symref.declare"}
    return any(o.name in ("symref.fetch", "symref.update") and o.properties["symbol"].root_reference.data not in decl
               for o in module.walk())


def _structured_in_while(module):
    for o in module.walk():
        if o.name in ("scf.if", "scf.for", "scf.index_switch"):
            p = o.parent_op()
            while p is not None:
                if p.name == "scf.while":
                    return True
                p = p.parent_op()
    return False


# ------------------------------------------------------------------------------------------ classification
def classify(pn, out0, m_src, out1, m_tgt, src_mod, row=None):
    """Mechanism key for a before/after disagreement. Known wrong-behaviour models are confirmed on the observed
    executions (flags raised by the reference machine's hooks); everything else gets a generic key."""
    kind = "introduces-ub" if out1[0] == "undef" else "diverges" if out1[0] == "steps" else \
        "effects-differ" if out1[0] == "ok" and out0[1] == out1[1] else "results-differ"
    if pn == "scf-for-loop-range-folding":
        if "fold-nonpositive-factor" in m_tgt.flags:
            return pn + ":nonpositive-factor"
        if "fold-bound-overflow" in m_tgt.flags:
            return pn + ":bound-overflow"
    elif pn == "scf-for-loop-flatten":
        # design-level mechanisms first, so that the two with a proposed fix stay attributable after it lands
        for f, k in (("flatten-ub-times-factor-overflow", "ub-times-factor-overflow"),
                     ("flatten-iv-sum-range-not-multiple", "iv-sum-outer-range-not-multiple-of-step"),
                     ("flatten-floor-factor", "inner-floor-factor-not-trip-count"),
                     ("flatten-outer-step-ignored", "outer-step-ignored")):
            if f in m_src.flags:
                return pn + ":" + k
    elif pn in ("licm", "control-flow-hoist"):
        # the op trapped on its divisor (0, -1 with INT_MIN, or a poison divisor; a poison dividend alone does not
        # trap, see c16_ref) although the source never executed it on this input
        f = m_tgt.fault
        if out1[0] == "undef" and out1[1] in ("division by zero", "signed division overflow", "poison in division") and f is not None \
                and f.name in TRAP_PURE and f.results:
            h = f.results[0].name_hint
            in_src = any(o.name == f.name and o.results[0].name_hint == h for o in src_mod.walk() if o.results)
            if h is not None and in_src and (f.name, h) not in m_src.trap_executed:
                return pn + ":speculates-trapping-op-declared-pure"
    elif pn == "lower-affine":
        if "affine-mod-negative-lhs" in m_src.flags and row is not None:
            # executable model of the known wrong behaviour: the source with `mod` evaluated as arith.remsi must
            # behave exactly like the pass output on this input
            from xv.c16_ref import run16
            model, mm = run16(src_mod, "main", row, SRC_STEPS, mod_trunc=True)
            if model == out1 or (model[0] == "undef" and out1[0] == "undef") or \
                    (out1 == ("undef", "out of bounds") and "model-oob-load" in mm.flags):
                return pn + ":mod-of-negative-lowered-to-remsi"
    elif pn == "convert-scf-to-cf":
        if "index-switch-arg-outside-i32" in m_src.flags:
            return pn + ":index-switch-arg-truncated-to-i32"
    elif pn == "frontend-desymrefy":
        # model of the known wrong behaviour: the output is undefined exactly when a symref op left behind in a
        # nested region executes; an output that is defined but different is NOT covered by the known finding
        if out1 == ("undef", "use of undeclared symbol") and _symref_nested_use(src_mod) and \
                _symref_dangling(m_tgt.module):
            return pn + ":nested-region-use-not-promoted"
    return f"{pn}:{kind}"


# ------------------------------------------------------------------------------------------ one case
class Ctx:
    def __init__(self):
        from xv.corpus import new_ctx
        from xdsl.transforms import get_all_passes
        self.ctx = new_ctx()
        allp = get_all_passes()
        self.passes = {p: allp[p]() for p in PASSES}


def run_case(cx, pn, case, inputs, res, want_sample=False):
    """Parse twice, apply the pass to one copy, compare behaviours. Mutates the result dict `res`."""
    from xdsl.parser import Parser
    from xdsl.utils.exceptions import VerifyException
    from xv.canon import canon_ir
    from xv.c16_ref import run16
    from xv import worker

    C = res["counters"]

    def cnt(k, n=1):
        C[k] = C.get(k, 0) + n

    def viol(key, summary, extra=None):
        cnt("disagreements_total")
        cnt("disagree:" + key)
        if sum(1 for v in res["violations"] if v["key"] == key) < 3:
            w = {"pass": pn, "program": case["text"], "args": case["args"]}
            w.update(extra or {})
            w["replay_job"] = {"kind": "replay", "pass": pn, "case": case, "inputs": inputs}
            res["violations"].append({"key": key, "summary": summary, "witness": w})

    text = case["text"]
    worker.journal(f"{pn}\n{text}")
    m0 = Parser(cx.ctx, text).parse_module()
    m0.verify()  # a generator producing invalid IR is a harness bug: crash the shard
    m1 = Parser(cx.ctx, text).parse_module()
    res["evaluations"] += 1
    cnt(f"programs:{pn}")
    c0 = canon_ir(m0, with_hints=False)
    try:
        # CPU-time (not wall-clock) watchdog: a pass application costs milliseconds; 60 s of process CPU is a hang
        signal.signal(signal.SIGVTALRM, _on_cpu_limit)
        signal.setitimer(signal.ITIMER_VIRTUAL, PASS_CPU_LIMIT)
        try:
            cx.passes[pn]().apply(cx.ctx, m1)
        finally:
            signal.setitimer(signal.ITIMER_VIRTUAL, 0)
    except _CpuLimit:
        cnt(f"accepted:{pn}")
        viol(f"pass:{pn}:hang", f"{pn} used more than {PASS_CPU_LIMIT} s of CPU on a {len(text)}-character program")
        return
    except Exception as e:  # noqa: BLE001 - the pass rejected the program
        cnt(f"rejected:{pn}")
        cnt(f"rejected:{pn}:{type(e).__name__}")
        res["sets"].setdefault("rejections", set()).add(f"{pn}:{type(e).__name__}:{str(e)[:60]}")
        return
    cnt(f"accepted:{pn}")
    changed = canon_ir(m1, with_hints=False) != c0
    if changed:
        cnt(f"changed:{pn}")
    try:
        m1.verify()
    except (VerifyException, Exception) as e:  # noqa: BLE001
        msg = str(e)
        key = f"pass:{pn}:verify"
        if pn == "convert-scf-to-cf" and "expected a single block" in msg and _structured_in_while(m0):
            key = f"pass:{pn}:verify:scf.while-not-lowered-region-multiblock"
        viol(key, f"{pn} output does not verify: {msg.strip().splitlines()[-1][:200] if msg.strip() else type(e).__name__}")
        return
    compared = 0
    implicit = frozenset()
    if pn == "frontend-desymrefy":  # symbols used but never declared in the source module (outer-scope symbols)
        decl = {o.properties["sym_name"].data for o in m0.walk() if o.name == "symref.declare"}
        implicit = frozenset(o.properties["symbol"].root_reference.data for o in m0.walk()
                             if o.name in ("symref.fetch", "symref.update")) - decl
    for row in inputs:
        out0, ms = run16(m0, "main", row, SRC_STEPS, implicit_syms=implicit)
        if out0[0] == "badir":
            raise RuntimeError("generator produced IR with a use before def: " + out0[1] + "\n" + text)
        if out0[0] != "ok":
            cnt({"undef": "excluded_source_undefined", "steps": "excluded_source_step_limit",
                 "unsup": "excluded_source_unsupported"}[out0[0]])
            if out0[0] == "unsup":
                res["sets"].setdefault("unsupported", set()).add(out0[1][:60])
            continue
        out1, mt = run16(m1, "main", row, 20 * ms.steps + 5000, implicit_syms=implicit)
        if out1[0] == "unsup":
            cnt("target_unsupported")
            res["sets"].setdefault("unsupported", set()).add("target:" + out1[1][:60])
            continue
        if out1[0] == "badir":
            viol(f"pass:{pn}:output-uses-undefined-value", f"{pn} output verifies but uses a value that is not "
                 f"defined where it is used: {out1[1]}", {"input": row, "after_program": str(m1)[:6000]})
            break
        compared += 1
        cnt(f"comparisons:{pn}")
        cnt("effects_compared", len(out0[2]))
        if ms.for_execs:
            cnt("source_runs_with_loops")
        if out1 != out0:
            f = mt.fault
            if pn in ("licm", "control-flow-hoist") and out1 == ("undef", "branch on poison") and f is not None \
                    and f.name == "scf.if":
                # MLIR leaves control flow on a poison condition unspecified and declares scf.if recursively
                # speculatable; refsem's "branch on poison is UB" is stricter than the property for an scf.if
                # that the pass speculated. Counted, not judged.
                cnt("excluded_speculated_scf_if_on_poison")
                continue
            key = classify(pn, out0, ms, out1, mt, m0, row)
            viol(key, f"{pn}: input {row} gives {_short(out0)} before and {_short(out1)} after",
                 {"input": row, "before": _short(out0), "after": _short(out1), "after_program": str(m1)[:6000]})
    if compared:
        cnt(f"compared_programs:{pn}")
    if changed and compared:
        res["nontrivial"].append(shash((pn, c0)))
        cnt(f"nontrivial:{pn}")
        if want_sample and len(res["samples"]) < 2:
            res["samples"].append({"pass": pn, "program": text, "inputs": inputs[:2]})


def _short(out):
    s = repr(out)
    return s if len(s) < 400 else s[:400] + "..."


# ------------------------------------------------------------------------------------------ harness interface
def plan(tier, seed):
    per_pass, shards = (300, 4) if tier == "quick" else (10000, 8)
    jobs = []
    import os
    only = [x for x in os.environ.get("XV_C16_ONLY", "").split(",") if x]  # mutant self-tests: subset of passes
    for pi, pn in enumerate(PASSES):
        if only and pn not in only:
            continue
        for s in range(shards):
            jobs.append({"kind": "gen", "pass": pn, "seed": seed * 1000003 + pi * 1009 + s, "n": per_pass // shards})
    return jobs


def work(job):
    from xv.c16_gen import gen_inputs16
    res = {"evaluations": 0, "nontrivial": [], "samples": [], "counters": {}, "sets": {}, "violations": [], "extra": {}}
    cx = Ctx()
    if job["kind"] == "replay":
        run_case(cx, job["pass"], job["case"], job["inputs"], res)
    else:
        pn = job["pass"]
        gen = _gens()[pn]
        rng = random.Random(job["seed"])
        for i in range(job["n"]):
            case = gen(rng)
            inputs = gen_inputs16(rng, case["args"], N_INPUTS, case.get("meta"))
            run_case(cx, pn, case, inputs, res, want_sample=(i < 2))
    res["sets"] = {k: sorted(v) for k, v in res["sets"].items()}
    return res


def finish(agg, tier):
    c = agg.counters
    inc = []
    rates = {}
    for pn in PASSES:
        progs, acc, ch = c.get(f"programs:{pn}", 0), c.get(f"accepted:{pn}", 0), c.get(f"changed:{pn}", 0)
        rate = ch / progs if progs else 0.0
        rates[pn] = {"programs": progs, "accepted": acc, "changed": ch, "trigger_rate": round(rate, 3),
                     "comparisons": c.get(f"comparisons:{pn}", 0), "nontrivial": c.get(f"nontrivial:{pn}", 0)}
        if progs == 0:
            inc.append(f"{pn}: no programs generated")
        elif rate < 0.20:
            inc.append(f"{pn}: trigger rate {rate:.2f} < 0.20 ({ch}/{progs})")
        if c.get(f"nontrivial:{pn}", 0) < (40 if tier == "quick" else 400):
            inc.append(f"{pn}: only {c.get(f'nontrivial:{pn}', 0)} non-trivial programs")
        if c.get(f"comparisons:{pn}", 0) < 4 * c.get(f"compared_programs:{pn}", 0):
            inc.append(f"{pn}: fewer than 4 defined inputs per compared program on average")
    if c.get("target_unsupported", 0) > 0.02 * max(1, sum(c.get(f"comparisons:{p}", 0) for p in PASSES)):
        inc.append(f"{c.get('target_unsupported')} target runs hit ops outside the reference vocabulary")
    return {"inconclusive": inc, "coverage": {"per_pass": rates}}
