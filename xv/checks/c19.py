"""C19 - Register allocation never gives one physical register to two simultaneously live values.

Generated single-block riscv_func / x86_func bodies (xv/c19_gen.py) are allocated by the REAL allocators
(pass entry points riscv-allocate-registers / x86-allocate-registers and the allocator classes with limited
RegisterStack pools).  Two independent oracles then judge every successful allocation:

 1. invariant at a hook (after allocate_func): an own backward liveness over the allocated function (results
    die, operands become live, nested loop bodies with their carried values, induction variable and bounds
    live on the back edge) - no op may define a result in physical register r != x0 while another value held in
    r is live after the op; aliased names (s1/x9, rbx/ebx/bx/bl, xmm/ymm/zmm) are ONE register; values the
    allocator puts in `zero` must be the constant 0; tied in/out pairs and loop-carried tuples must share one
    register; pre-allocated registers unchanged; only the offered pool (plus spill registers when allowed) used;
    the IR must be structurally unchanged and intact.  A wrapper of RegisterStack.push checks that no register
    with a positive reservation count is put into the available list.  The same liveness oracle, run on the
    UNALLOCATED input with "register" = tie group, tells whether the input can be allocated at all without
    copies (known-finding classification, never a verdict of its own).
 2. reference-model differential monitor: xv/c19_regmachine.py executes the function in SSA mode BEFORE
    allocation and in register mode AFTER it, on random inputs, with ISA semantics and with an uninterpreted
    ("mix") semantics; return values and the ordered effect log (stores, observes, stream writes) must agree.
"""
from __future__ import annotations

import random

from xv.harness import shash

ID = "C19"
LEVEL = "exploration"
RULE = ("a case = (generated function text, allocator entry point + register pool + allow_infinite); functions are "
        "(8%) small func/arith/scf.for programs lowered by xDSL's own riscv passes (arith-lowered code), or "
        "single-block riscv_func (RV32/RV64 int, F/D float, Snitch SIMD, li 0 / mv-of-0 / get_register zero candidates "
        "for x0, loads/stores, observe sinks, test.allocatable in/out ops, vfmac/vfsum in/out, parallel_mov, "
        "pre-allocated a/t/s/f registers on arguments, results, interior values and loop-carried tuples, nested "
        "riscv_scf.for with iter_args, riscv_snitch.frep_outer, stream read/write with reserved ft0-ft2) or x86_func "
        "bodies (two-address rs/r/ri ops on reg64/reg32/reg16/reg8, fixed rax/rdx of s.imul, ymm/zmm ops incl. "
        "vfmadd231 in/out, parallel_mov, nested x86_scf.for) with a pressure target of 3-60 retained values; pools: "
        "pass defaults (with allow_infinite / force_infinite) or 1..all registers through RegisterStack.get. "
        "Non-trivial = allocation succeeded, >= 4 register-holding values were simultaneously live at some point of "
        "the allocated function and at least one physical register holds two different values; distinct = distinct "
        "(text, allocation config) hashes")
LEVEL_TEXT = ("Every generated function is allocated by the real allocator; every successful allocation is judged by an "
              "independent liveness/interference analysis over physical registers and by executing the function in "
              "SSA mode before and in register mode after allocation on random inputs; held = no allocation explored "
              "put two simultaneously live values in one physical register, misused x0, moved a pre-assigned value, "
              "left the offered pool, broke a tied pair or changed the computed results.")
LEVEL_NOTE = ("trusts xv/c19_regmachine.py (own op table from the ISA manuals and the riscv_scf/x86_scf lowering shape; "
              "corner-case self-test at the start of every shard), the liveness oracle in this file, xv/irsan.py, "
              "the xDSL parser/verifier for building the inputs, and CPython")
TECHNIQUE = ("invariant at a hook (independent backward liveness + interference over physical registers after "
             "allocate_func; reservation invariant at RegisterStack.push) and reference-model differential monitor (own "
             "register machine: SSA mode before vs register mode after allocation, ISA and uninterpreted semantics)")
ENGINES = ["harness", "irsan", "regmachine"]
ASSUMPTIONS = [
    "register-level meaning of riscv_scf.for / x86_scf.for / frep is the one of xDSL's own lowerings: block arguments, "
    "yields and loop results are never copied, the induction variable is written at loop entry (riscv) / lives in "
    "lb's register (x86) and incremented on the back edge, ub and step are read on every iteration",
    "an in/out (tied) instruction writes the register of its operand (what the assembly printers emit)",
    "an in/out operand and a loop-carried initial value die at their op (documented precondition of "
    "HasRegisterConstraints); the generator respects it, inputs of the x86 allocator are additionally filtered by "
    "xDSL's own x86-regalloc-verify-liveness contract check",
    "default pools of the pass entry points are the caller-saved sets t0-t6,a0-a7 / ft0-ft11,fa0-fa7 (RISC-V) and "
    "rax,rcx,rdx,rbx,rsi,rdi,r8-r11,r13-r15 / vector registers 0-31 (x86)",
    "allocation failures reported as DiagnosticException (incl. OutOfRegisters) are outside the property and only "
    "counted; a crash of the allocator (any other exception) is outside the property statement too but is reported "
    "under its own mechanism key (exception type, innermost function, cause class)",
    "riscv_scf.while and riscv_scf.rof have no register-level lowering in xDSL: while is generated rarely and counted "
    "as incomplete allocation, rof is not generated",
]
JOB_TIMEOUT = {"quick": 1800, "thorough": 7200}

N_SHARDS = {"quick": 32, "thorough": 64}
CASES_PER_SHARD = {"quick": 110, "thorough": 2000}

K_TIED = "tied-values-simultaneously-live:allocator-reports-success"
# ops that carry no RegisterAllocatedMemoryEffect in xDSL (own reading of the dialect definitions): a pre-assigned
# register that only such ops name is invisible to RegisterAllocatableOperation.all_used_registers
NO_REGISTER_EFFECTS = {"riscv.parallel_mov", "riscv_scf.for", "riscv_scf.yield", "rv32.get_register", "rv64.get_register",
                       "riscv.get_float_register", "x86_scf.for", "x86_scf.yield", "x86.get_register",
                       "x86.get_avx_register", "riscv_snitch.frep_yield", "riscv_func.return", "test.op",
                       "riscv_func.func", "x86_func.func"}
K_PUSH = "reserved-register-made-available-by-push"
K_NOEFF = "preassigned-register-only-named-by-ops-without-register-effects:not-excluded-from-pool"
K_SPILL = "spill-register-of-loop-carried-tuple-handed-out-again-while-reserved:interference"
K_STALE = "loop-tied-tuples-repeat-a-value:stale-value-replaced-twice:detached-value-left-in-use"

RV_DEFAULT_INT = ["t0", "t1", "t2", "t3", "t4", "t5", "t6", "a0", "a1", "a2", "a3", "a4", "a5", "a6", "a7"]
RV_DEFAULT_FLT = [f"ft{i}" for i in range(12)] + [f"fa{i}" for i in range(8)]
RV_POOL_INT = RV_DEFAULT_INT + ["s1", "s2", "s3", "s4", "s5", "s6", "s7", "s8", "s9", "s10", "s11"]
RV_POOL_FLT = RV_DEFAULT_FLT + [f"fs{i}" for i in range(12)]
X86_DEFAULT_GPR = ["rax", "rcx", "rdx", "rbx", "rsi", "rdi", "r8", "r9", "r10", "r11", "r13", "r14", "r15"]


# ------------------------------------------------------------------------------------------------ planning
def plan(tier, seed):
    n = N_SHARDS[tier]
    return [{"shard": i, "seed": seed, "n": CASES_PER_SHARD[tier], "tier": tier} for i in range(n)]


def alloc_config(rng, arch, pressure=8):
    """How to allocate: pass entry point or allocator class with a limited pool (sized around the pressure target so
    that both tight-but-sufficient and insufficient pools occur)."""
    p = max(2, pressure)
    if arch == "riscv":
        if rng.random() < 0.4:
            if p > 14:
                mode = rng.choice(["default", "allow_infinite", "allow_infinite", "force_infinite"])
            else:
                mode = rng.choice(["default", "default", "default", "allow_infinite", "force_infinite"])
            return {"entry": "pass", "allow_infinite": mode == "allow_infinite", "force_infinite": mode == "force_infinite",
                    "stats": rng.random() < 0.2}
        ni = min(26, rng.choice([max(1, p // 2), p, p + 2, p + 4, 15, 26]))
        nf = min(32, rng.choice([0, max(1, p // 2), p, p + 3, 20, 32]))
        ints = rng.sample(RV_POOL_INT, min(ni, len(RV_POOL_INT)))
        flts = rng.sample(RV_POOL_FLT, min(nf, len(RV_POOL_FLT)))
        if rng.random() < 0.5:  # the probe's pools: a prefix of the reversed default order
            ints = list(reversed(RV_DEFAULT_INT))[:ni]
            flts = list(reversed(RV_DEFAULT_FLT))[:nf]
        return {"entry": "class", "int": ints, "float": flts, "allow_infinite": rng.random() < (0.6 if p > 20 else 0.25)}
    if rng.random() < 0.4:
        return {"entry": "pass"}
    ng = min(13, rng.choice([max(1, p // 2), p, p + 2, 9, 13]))
    nv = rng.choice([2, 4, 8, 16, 32, 32])
    return {"entry": "class", "gpr": rng.sample(X86_DEFAULT_GPR, ng), "vec": rng.sample(range(32), nv),
            "allow_infinite": rng.random() < (0.6 if p > 10 else 0.25)}


# ------------------------------------------------------------------------------------------------ IR helpers
def walk_values(func):
    """All SSA values of the function in a deterministic structural order."""
    out = []

    def blk(b):
        out.extend(b.args)
        for op in b.ops:
            out.extend(op.results)
            for reg in op.regions:
                for bb in reg.blocks:
                    blk(bb)
    for b in func.body.blocks:
        blk(b)
    return out


def walk_ops(func):
    out = []

    def blk(b):
        for op in b.ops:
            out.append(op)
            for reg in op.regions:
                for bb in reg.blocks:
                    blk(bb)
    for b in func.body.blocks:
        blk(b)
    return out


def structure(func):
    """Positional signature: (op name, operand value positions, #results, #regions) per op."""
    vals = walk_values(func)
    pos = {id(v): i for i, v in enumerate(vals)}
    return [(op.name, tuple(pos.get(id(o), -1) for o in op.operands), len(op.results), len(op.regions))
            for op in walk_ops(func)], vals


def the_func(module):
    for op in module.body.block.ops:
        if op.name in ("riscv_func.func", "x86_func.func"):
            return op
    raise AssertionError("no function in module")


# ------------------------------------------------------------------------------------------------ liveness oracle
class Oracle:
    """Backward liveness + interference over an abstract register assignment `regof` (value -> key | None)."""

    def __init__(self, rm, regof, stats):
        self.rm = rm
        self.regof = regof
        self.problems = []
        self.stats = stats
        self.max_live = 0
        self.pinned = []   # get_register results: live from function entry
        self.precondition = []  # in/out operands that are still live after their op (documented precondition)

    def is_regval(self, v):
        return self.rm.is_reg_type(v.type.name)

    def problem(self, kind, where, a, b=None, **kw):
        d = {"kind": kind, "where": where, "value": vname(a), "reg": rname(a), "_a": a}
        if b is not None:
            d["other"] = vname(b)
            d["other_reg"] = rname(b)
            d["_b"] = b
        d.update(kw)
        self.problems.append(d)

    def defcheck(self, r, live, where, kind="interference"):
        k = self.regof(r)
        self.stats["defs_checked"] = self.stats.get("defs_checked", 0) + 1
        if k is None:
            return
        for v in live:
            if v is not r and self.regof(v) == k:
                self.stats["pairs_compared"] = self.stats.get("pairs_compared", 0) + 1
                self.problem(kind, where, r, v)
        self.stats["pairs_compared"] = self.stats.get("pairs_compared", 0) + len(live)

    def note_live(self, live):
        n = sum(1 for v in live if self.regof(v) is not None)
        if n > self.max_live:
            self.max_live = n

    def uses(self, op):
        return [o for o in op.operands if self.is_regval(o)]

    def outer_uses(self, block):
        """Register values used in the block (incl. nested regions) but defined outside it."""
        defined, used = set(), []

        def blk(b):
            for a in b.args:
                defined.add(id(a))
            for op in b.ops:
                for o in op.operands:
                    if self.is_regval(o):
                        used.append(o)
                for r in op.results:
                    defined.add(id(r))
                for reg in op.regions:
                    for bb in reg.blocks:
                        blk(bb)
        blk(block)
        seen, out = set(), []
        for o in used:
            if id(o) not in defined and id(o) not in seen:
                seen.add(id(o))
                out.append(o)
        return out

    def block(self, block, live_out):
        rm = self.rm
        live = set(live_out)
        for op in reversed(list(block.ops)):
            self.stats["ops_walked"] = self.stats.get("ops_walked", 0) + 1
            n = op.name
            if n in rm.RV_FOR or n in rm.X86_FOR or n in rm.FREP:
                live = self.loop(op, live)
            elif n == "riscv_scf.while":
                live = self.while_(op, live)
            elif op.regions:
                raise rm.MachineError("unsupported-op", n + " (region op in liveness oracle)")
            else:
                for r in op.results:
                    if self.is_regval(r):
                        self.defcheck(r, live, n)
                rs = [r for r in op.results if self.is_regval(r) and self.regof(r) is not None]
                for i, r1 in enumerate(rs):
                    for r2 in rs[i + 1:]:
                        if self.regof(r1) == self.regof(r2) and r2 not in live and r1 not in live:
                            self.problem("interference", n + " (two results of one op)", r1, r2)
                for o, r in rm.tied_pairs(op):
                    self.stats["tied_pairs_checked"] = self.stats.get("tied_pairs_checked", 0) + 1
                    if o in live:
                        self.precondition.append((n, vname(o)))
                    ko, kr = self.regof(o), self.regof(r)
                    if ko is not None and kr is not None and ko != kr:
                        self.problem("tie-broken", n, r, o)
                if n in rm.GET_REGISTER:
                    self.pinned.extend(op.results)
                else:
                    live.difference_update(op.results)
                live.update(self.uses(op))
            self.note_live(live)
        return live

    def loop(self, op, live):
        rm = self.rm
        n = op.name
        self.stats["loops_analysed"] = self.stats.get("loops_analysed", 0) + 1
        body = op.body.block
        yield_op = body.last_op
        if n in rm.FREP:
            iv, args, results = None, list(body.args), list(op.results)
            every_iter, entry_only = [], [op.max_rep]
        elif n in rm.RV_FOR:
            iv, args, results = body.args[0], list(body.args[1:]), list(op.results)
            every_iter = [op.ub] + ([op.step_val] if op.step_val is not None else [])
            entry_only = [op.lb]
        else:
            iv, args, results = body.args[0], list(body.args[1:]), list(op.results[1:])
            every_iter = [x for x in (op.ub_val, op.step_val) if x is not None]
            entry_only = [op.lb]
        inits = list(op.iter_args)
        # 1. results are defined at the loop exit
        for r in op.results:
            self.defcheck(r, live, n + " (loop result)")
        after = set(live)
        after.difference_update(op.results)
        # 2. tie constraints of the lowering: no copies for carried values
        groups = [(a, i, y, r) for a, i, y, r in zip(args, inits, yield_op.operands, results)]
        if n in rm.X86_FOR:
            groups.append((iv, op.lb, op.results[0]))
        for g in groups:
            self.stats["tied_pairs_checked"] = self.stats.get("tied_pairs_checked", 0) + 1
            ks = [self.regof(v) for v in g]
            alloc = [k for k in ks if k is not None]
            if len(set(alloc)) > 1:
                self.problem("tie-broken", n + " (loop-carried tuple)", g[0], next(v for v in g[1:] if self.regof(v) != self.regof(g[0]) and self.regof(v) is not None))
        # 3. the body: everything needed on the back edge is live at its end
        body_out = set(after)
        body_out.update(self.outer_uses(body))
        body_out.update(v for v in every_iter if self.is_regval(v))
        if iv is not None:
            body_out.add(iv)
        body_in = self.block(body, body_out)
        # 4. block arguments are (re)defined at the top of the body
        for a in body.args:
            self.defcheck(a, body_in, n + " (block argument)")
        body_in.difference_update(body.args)
        # 5. live before the loop
        live = set(after)
        live.update(body_in)
        live.update(v for v in every_iter + entry_only + inits if self.is_regval(v))
        return live

    def while_(self, op, live):
        for r in op.results:
            self.defcheck(r, live, op.name)
        after = set(live)
        after.difference_update(op.results)
        for region in op.regions:
            b = region.block
            out = set(after)
            for reg2 in op.regions:
                out.update(self.outer_uses(reg2.block))
            bin_ = self.block(b, out)
            for a in b.args:
                self.defcheck(a, bin_, op.name + " (block argument)")
            bin_.difference_update(b.args)
            after.update(bin_)
        after.update(self.uses(op))
        return after

    def run(self, func):
        block = func.body.blocks[0]
        live_in = self.block(block, set())
        for a in block.args:
            self.defcheck(a, live_in, "function entry")
        live_in.difference_update(block.args)
        # get_register values hold their register from function entry on
        for p in self.pinned:
            live_in.discard(p)
        if live_in:
            self.problem("use-before-definition", "function entry", next(iter(live_in)))
        return self.problems


def vname(v):
    h = getattr(v, "name_hint", None)
    return "%" + h if h else f"<{type(v).__name__}#{getattr(v, 'index', '?')}>"


def rname(v):
    try:
        return v.type.register_name.data
    except AttributeError:
        return None


def loop_tuples(rm, op):
    """Tuples of values one loop op forces into one register."""
    n = op.name
    body = op.body.block
    if n in rm.FREP:
        args, results, extra = list(body.args), list(op.results), []
    elif n in rm.RV_FOR:
        args, results, extra = list(body.args[1:]), list(op.results), []
    else:
        args, results = list(body.args[1:]), list(op.results[1:])
        extra = [(body.args[0], op.lb, op.results[0])]
    return [(a, i, y, r) for a, i, y, r in zip(args, list(op.iter_args), body.last_op.operands, results)] + extra


def repeated_tied_value(rm, func):
    """Some loop names one value twice in its tied tuples (yield of an own block argument - same or another
    position -, the same value yielded twice, ...)."""
    for op in walk_ops(func):
        if op.name in rm.RV_FOR or op.name in rm.X86_FOR or op.name in rm.FREP:
            ids = [id(v) for t in loop_tuples(rm, op) for v in t]
            if len(set(ids)) != len(ids):
                return op.name
    return None


def tie_groups(rm, func):
    """Union-find classes of values that the lowering / the ISA forces into one register (own tables)."""
    parent = {}
    keep = []

    def find(x):
        while parent.get(id(x), x) is not x:
            x = parent[id(x)]
        return x

    def union(a, b):
        ra, rb = find(a), find(b)
        if ra is not rb:
            parent[id(ra)] = rb
            keep.extend([ra, rb])
    for op in walk_ops(func):
        n = op.name
        if n in rm.RV_FOR or n in rm.X86_FOR or n in rm.FREP:
            body = op.body.block
            if n in rm.FREP:
                args, results = list(body.args), list(op.results)
            elif n in rm.RV_FOR:
                args, results = list(body.args[1:]), list(op.results)
            else:
                args, results = list(body.args[1:]), list(op.results[1:])
                union(body.args[0], op.lb)
                union(body.args[0], op.results[0])
            for a, i, y, r in zip(args, list(op.iter_args), body.last_op.operands, results):
                union(a, i)
                union(a, y)
                union(a, r)
        elif not op.regions:
            for o, r in rm.tied_pairs(op):
                union(o, r)
    return find, keep


# ------------------------------------------------------------------------------------------------ one case
def build_pool(arch, acfg):
    """xDSL register objects of the offered pool + the physical cells (own table) the oracle allows."""
    from xv import c19_regmachine as rm
    if arch == "riscv":
        from xdsl.dialects.riscv import FloatRegisterType, IntRegisterType
        if acfg["entry"] == "pass":
            if acfg.get("force_infinite"):
                cells = set()
            else:
                cells = {rm.phys("riscv.reg", r) for r in RV_DEFAULT_INT} | {rm.phys("riscv.freg", r) for r in RV_DEFAULT_FLT}
            return None, cells, bool(acfg.get("allow_infinite") or acfg.get("force_infinite"))
        regs = [IntRegisterType.from_name(r) for r in acfg["int"]] + [FloatRegisterType.from_name(r) for r in acfg["float"]]
        cells = {rm.phys("riscv.reg", r) for r in acfg["int"]} | {rm.phys("riscv.freg", r) for r in acfg["float"]}
        return regs, cells, bool(acfg["allow_infinite"])
    from xdsl.dialects.x86 import registers as xr
    if acfg["entry"] == "pass":
        cells = {rm.phys("x86.reg64", r) for r in X86_DEFAULT_GPR} | {("x86.vec", i) for i in range(32)}
        return None, cells, False
    regs = [xr.Reg64Type.from_name(r) for r in acfg["gpr"]] + [xr.AVX512RegisterType.from_name(f"zmm{i}") for i in acfg["vec"]]
    cells = {rm.phys("x86.reg64", r) for r in acfg["gpr"]} | {("x86.vec", i) for i in acfg["vec"]}
    return regs, cells, bool(acfg["allow_infinite"])


def allocate(arch, acfg, ctx, module, func, regs):
    if arch == "riscv":
        if acfg["entry"] == "pass":
            from xdsl.transforms.riscv_allocate_registers import RISCVAllocateRegistersPass
            RISCVAllocateRegistersPass(allow_infinite=acfg["allow_infinite"], force_infinite=acfg["force_infinite"],
                                       add_regalloc_stats=acfg["stats"]).apply(ctx, module)
        else:
            from xdsl.backend.riscv.register_allocation import RegisterAllocatorLivenessBlockNaive
            from xdsl.backend.riscv.register_stack import RiscvRegisterStack
            stack = RiscvRegisterStack.get(allocatable_registers=regs, allow_infinite=acfg["allow_infinite"])
            RegisterAllocatorLivenessBlockNaive(stack).allocate_func(func)
    else:
        if acfg["entry"] == "pass":
            from xdsl.transforms.x86_allocate_registers import X86AllocateRegisters
            X86AllocateRegisters().apply(ctx, module)
        else:
            from xdsl.backend.x86.register_allocation import X86RegisterAllocator
            from xdsl.backend.x86.register_stack import X86RegisterStack
            stack = X86RegisterStack.get(allocatable_registers=regs, allow_infinite=acfg["allow_infinite"])
            X86RegisterAllocator(stack).allocate_func(func)


def input_vectors(rng, case, k):
    """k input vectors: function argument values (riscv) / initial input registers (x86)."""
    ints = [0, 1, 2, 5, -1, 2 ** 31 - 1, -2 ** 31, 12345, 2 ** 63 - 1, -2 ** 63]
    flts = [0x3FF0000000000000, 0xFFFFFFFF3F800000, 0xFFFFFFFF40490FDB, 0x400921FB54442D18, 0xFFFFFFFFBF800000,
            0x7FF8000000000000, 0xFFFFFFFF00000000, 0x8000000000000000, 0xFFFFFFFF7F800000, 0x0000000000000001]
    out = []
    for _ in range(k):
        if case["arch"] == "riscv":
            v = [rng.choice(ints) if rng.random() < 0.7 else rng.getrandbits(64) for _ in range(case["n_int_args"])]
            v += [rng.choice(flts) if rng.random() < 0.7 else (0xFFFFFFFF00000000 | rng.getrandbits(32)) for _ in range(case["n_float_args"])]
        else:
            v = [rng.choice(ints) if rng.random() < 0.7 else rng.getrandbits(64) for _ in case["inputs"]]
        out.append(v)
    return out


def execute(rm, case, func, mode, vec, sem, zero_rule=True):
    m = rm.Machine(mode, xlen=case["xlen"], semantics=sem, garbage_seed=7, zero_rule=zero_rule)
    if case["arch"] == "riscv":
        args = vec
    else:
        args = []
        for r, x in zip(case["inputs"], vec):
            m.set_initial(rm.phys("x86.reg64", r), x)
    out = m.run_func(func, args)
    return {"ret": out["ret"], "log": [list(e) if not isinstance(e, list) else e for e in out["log"]]}, m.steps


def const_zero(rm, v, depth=0):
    """Own constant analysis: is v the constant 0 by construction (li 0 / mv chain / get_register zero)?"""
    op = getattr(v, "op", None)
    if op is None or depth > 50:
        return False
    n = op.name
    if n in ("rv32.li", "rv64.li"):
        a = op.attributes.get("immediate")
        try:
            return a.value.data == 0
        except AttributeError:
            return False
    if n == "riscv.mv":
        return const_zero(rm, op.operands[0], depth + 1)
    if n in ("rv32.get_register", "rv64.get_register"):
        return rm.vphys(v) == rm.ZERO
    return False


_PUSH_EVENTS = []
_HOOKED = [False]


def install_push_hook():
    """Invariant at a hook: after RegisterStack.push returns, a register with a positive reservation count must
    not be in the available list (reserved registers are respected)."""
    import os
    if _HOOKED[0]:
        return
    if os.environ.get("XDSL_VERIF") != "1":
        raise RuntimeError("refusing to wrap RegisterStack.push without XDSL_VERIF=1")
    from xdsl.backend.register_stack import RegisterStack
    orig = RegisterStack.push

    def push(self, reg):
        try:
            idx = reg.index.data
            key = type(reg).register_pool_key()
            before = idx in self.available_registers[key]
        except Exception:  # noqa: BLE001
            return orig(self, reg)
        orig(self, reg)
        _PUSH_EVENTS.append(0)
        if not before and self.reserved_registers[key].get(idx, 0) > 0 and idx in self.available_registers[key]:
            _PUSH_EVENTS.append((idx < 0, reg.register_name.data))
    RegisterStack.push = push
    _HOOKED[0] = True


class Excluded(Exception):
    def __init__(self, why):
        super().__init__(why)
        self.why = why


def run_case(case, C, S):
    """Returns (violation | None, nontrivial hash | None).  C: counters, S: sets."""
    from xv import c19_regmachine as rm
    from xv import irsan
    from xv.corpus import new_ctx
    from xdsl.parser import Parser
    from xdsl.utils.exceptions import DiagnosticException

    arch, acfg = case["arch"], case["alloc"]

    def cnt(k, n=1):
        C[k] = C.get(k, 0) + n

    cnt(f"cases_{arch}")
    if "lowered-from-scf" in case.get("features", ()):
        cnt("cases_lowered_from_scf")
    ctx = new_ctx()
    module = Parser(ctx, case["text"]).parse_module()
    module.verify()
    func = the_func(module)
    for op in walk_ops(func):
        if not rm.supported(op.name):
            raise AssertionError("generator emitted an op the register machine does not know: " + op.name)
        S.setdefault("op_names", set()).add(op.name)
    has_while = any(op.name == "riscv_scf.while" for op in walk_ops(func))
    sig_before, vals_before = structure(func)
    types_before = [(v.type.name, rname(v)) if rm.is_reg_type(v.type.name) else None for v in vals_before]

    # ---- input analysis with the same oracle: abstract register = pre-assigned cell or tie group
    find, _keep = tie_groups(rm, func)
    members = {}
    for v in vals_before:
        if rm.is_reg_type(v.type.name):
            members.setdefault(id(find(v)), []).append(v)
    group_cell = {}
    for root, vs in members.items():
        cells = {rm.vphys(v) for v in vs if rname(v)}
        cells.discard(None)
        if len(cells) > 1:
            cnt("inputs_tied_group_with_two_preassigned_registers")
        group_cell[root] = next(iter(cells)) if cells else (("g", root) if len(vs) > 1 else None)

    def regof_in(v):
        if not rm.is_reg_type(v.type.name):
            return None
        k = group_cell.get(id(find(v)))
        return None if k == rm.ZERO else k

    istats = {}
    o_in = Oracle(rm, regof_in, istats)
    in_problems = o_in.run(func)
    repeats = repeated_tied_value(rm, func)
    loop_tuple_positions = set()
    for op in walk_ops(func):
        if op.name in rm.RV_FOR or op.name in rm.X86_FOR or op.name in rm.FREP:
            for t in loop_tuples(rm, op):
                for q in t:
                    loop_tuple_positions.add(index_of(vals_before, q))
    if repeats:
        cnt(f"inputs_loop_repeats_a_tied_value_{arch}")
    if o_in.precondition:
        # an in/out operand that is used again later: outside the documented contract of the allocator
        cnt("excluded_input_inout_operand_live_after_op")
        return None, None
    uncolorable = False
    for p in in_problems:
        if p["kind"] == "use-before-definition":
            raise AssertionError("generator: use before definition " + str(p))
    if in_problems:
        # clash between two explicitly pre-assigned values that are not tied to anything: generator's fault
        def tied(vn):
            return any(len(vs) > 1 and any(vname(q) == vn for q in vs) for vs in members.values())
        if all(p["reg"] and p.get("other_reg") and not tied(p["value"]) and not tied(p["other"]) for p in in_problems):
            cnt("excluded_input_preassigned_values_clash")
            return None, None
        uncolorable = True
        cnt(f"inputs_tie_uncolourable_{arch}")
    if arch == "x86":
        # xDSL's documented contract for the x86 allocator: in/out use is the last use
        from xdsl.backend.liveness import VerifyLivenessContext
        try:
            VerifyLivenessContext(alive=set()).process_region(func.body)
            cnt("x86_inputs_accepted_by_verify_liveness")
        except Exception as e:  # noqa: BLE001
            cnt("excluded_x86_input_rejected_by_verify_liveness:" + type(e).__name__)
            return None, None

    # ---- SSA-mode executions before allocation
    erng = random.Random(case["exec_seed"])
    vecs = input_vectors(erng, case, 3)
    runs = [(v, "isa") for v in vecs] + [(vecs[0], "mix")]
    if has_while:
        runs = runs[:1]  # never judged (riscv_scf.while is not allocatable); its condition is not exact under "mix"
    before = []
    try:
        for v, sem in runs:
            out, steps = execute(rm, case, func, "ssa", v, sem)
            cnt("ssa_steps_executed", steps)
            before.append(out)
    except rm.MachineError as e:
        if e.kind == "fuel-exhausted":
            cnt("excluded_ssa_fuel_exhausted")
            return None, None
        raise

    # ---- the real allocator
    regs, pool_cells, allow_inf = build_pool(arch, acfg)
    install_push_hook()
    del _PUSH_EVENTS[:]
    hook_violation = None

    def push_hook_result():
        pushes = sum(1 for e in _PUSH_EVENTS if e == 0)
        cnt("hook_register_stack_push_calls", pushes)
        bad = [e for e in _PUSH_EVENTS if e != 0]
        if not bad:
            return None
        spill = all(b[0] for b in bad)
        cnt("hook_reserved_register_made_available_" + ("spill" if spill else "physical"))
        return {"key": f"{arch}:{K_PUSH}:" + ("spill-register" if spill else "physical-register"),
                "summary": f"RegisterStack.push put {bad[0][1]} into the available list while its reservation count is positive ({len(bad)}x in this allocation)",
                "witness": {"text": case["text"], "alloc": acfg, "arch": arch, "registers": sorted({b[1] for b in bad})[:8],
                            "replay_job": {"cases": [case]}}}
    try:
        try:
            allocate(arch, acfg, ctx, module, func, regs)
        finally:
            hook_violation = push_hook_result()
    except DiagnosticException as e:
        cnt(f"alloc_failed_{arch}:{type(e).__name__}")
        if uncolorable:
            cnt("uncolourable_input_rejected_by_allocator")
        return hook_violation, None
    except (AssertionError, NotImplementedError, KeyError, ValueError, IndexError, TypeError, AttributeError) as e:
        # not a reported failure but a crash of the allocator. The property speaks about allocations that SUCCEED;
        # a crash (xDSL's own internal assertion refusing to continue) produces no allocation to judge, so it is an
        # observation in the evidence (counter `observed_alloc_crash:<arch>:<site>:<cause class>`), not a verdict.
        # The exception is the push hook: a reserved register made available is direct evidence of the
        # property's mechanism ("reserved registers are respected") whether or not the allocator later crashes.
        cnt(f"alloc_crashed_{arch}:{type(e).__name__}")
        site = f"{type(e).__name__}:{crash_site(e)}"
        has_loop = any(op.name in rm.RV_FOR or op.name in rm.X86_FOR or op.name in rm.FREP for op in walk_ops(the_func(module)))
        if hook_violation is not None:
            return hook_violation, None
        if uncolorable:
            cause = "tie-unsatisfiable-input"
        elif repeats:
            cause = "loop-repeats-a-tied-value"
        elif allow_inf and has_loop:
            cause = "spill-registers-with-loops"
        else:
            cause = "other-input"
        cnt(f"observed_alloc_crash:{arch}:{site}:{cause}")
        return None, None
    cnt(f"alloc_succeeded_{arch}")
    cnt(f"alloc_succeeded_entry_{acfg['entry']}")
    func = the_func(module)

    problems = []

    def prob(kind, **kw):
        problems.append(dict(kind=kind, **kw))

    # 1. IR intact and structurally unchanged
    try:
        irsan.check_tree([module])
        cnt("irsan_trees_checked")
    except irsan.Broken as e:
        prob("ir-broken-after-allocation", detail=str(e)[:200])
    sig_after, vals_after = structure(func)
    if sig_after != sig_before or len(vals_after) != len(vals_before):
        prob("structure-changed")
    if not any(p["kind"] in ("ir-broken-after-allocation", "structure-changed") for p in problems):
        try:
            module.verify()
            cnt("verify_after_allocation_ok")
        except Exception as e:  # noqa: BLE001
            prob("verify-fails-after-allocation", detail=str(e).strip().splitlines()[-1][:200] if str(e).strip() else type(e).__name__)

    comparable = not any(p["kind"] in ("ir-broken-after-allocation", "structure-changed") for p in problems)
    max_live = 0
    reuse = False
    if comparable:
        # 2. everything allocated?
        unalloc = [v for v in vals_after if rm.is_reg_type(v.type.name) and not rname(v)]
        if unalloc:
            names = {op.name for op in walk_ops(func)}
            if "riscv_scf.while" in names:
                cnt("excluded_incomplete_allocation:riscv_scf.while-not-allocatable")
                return None, None
            if all(only_nonallocatable(rm, v) for v in unalloc):
                cnt("excluded_incomplete_allocation:value-touched-only-by-non-allocatable-ops")
                return None, None
            prob("value-left-unallocated", value=vname(unalloc[0]))
        else:
            newly = []
            for i, (tb, v) in enumerate(zip(types_before, vals_after)):
                if tb is None:
                    continue
                if tb[1]:
                    cnt("preassigned_values_checked")
                    if (v.type.name, rname(v)) != tb:
                        prob("preassigned-register-changed", value=vname(v), was=tb[1], now=rname(v))
                else:
                    newly.append(v)
            has_stream = any(op.name in ("riscv_snitch.read", "riscv_snitch.write") for op in walk_ops(func))
            group_pre = {root: c for root, c in group_cell.items() if c is not None and c[0] != "g"}
            for v in newly:
                cell = rm.vphys(v)
                S.setdefault("registers_assigned", set()).add(rname(v) if ".inf" not in cell[0] else cell[0])
                cnt("new_assignments_checked")
                if cell == rm.ZERO:
                    cnt("zero_register_assignments_checked")
                    if not const_zero(rm, v):
                        prob("zero-register-holds-nonconstant", value=vname(v))
                    continue
                if cell[0].endswith(".inf"):
                    cnt("spill_register_assignments")
                    if not allow_inf:
                        prob("spill-register-without-allow-infinite", value=vname(v), reg=rname(v))
                    continue
                if has_stream and cell in (("rv.f", 0), ("rv.f", 1), ("rv.f", 2)):
                    prob("reserved-stream-register-used", value=vname(v), reg=rname(v))
                if cell not in pool_cells:
                    # allowed only through a tie with a pre-assigned value
                    idx = index_of(vals_after, v)
                    root = id(find(vals_before[idx]))
                    if group_pre.get(root) != cell:
                        prob("register-outside-offered-pool", value=vname(v), reg=rname(v))
                    else:
                        cnt("assignments_through_tie_with_preassigned")
            # 3. interference
            def regof(v):
                if not rm.is_reg_type(v.type.name):
                    return None
                c = rm.vphys(v)
                return None if c == rm.ZERO else c
            ostats = {}
            orc = Oracle(rm, regof, ostats)
            for p in orc.run(func):
                problems.append(p)
            for k, n in ostats.items():
                cnt("oracle_" + k, n)
            max_live = orc.max_live
            cells_used = {}
            for v in vals_after:
                c = regof(v)
                if c is not None:
                    cells_used[c] = cells_used.get(c, 0) + 1
            reuse = any(n > 1 for n in cells_used.values())
            cnt("max_live_bucket_%s" % ("lt4" if max_live < 4 else "4-7" if max_live < 8 else "8-15" if max_live < 16 else "16-31" if max_live < 32 else "ge32"))
            by_cell = {}
            for v in vals_after:
                c = regof(v)
                if c is not None:
                    by_cell.setdefault(c, set()).add(rname(v))
            if any(len(s) > 1 for s in by_cell.values()):
                cnt("cases_with_aliased_register_names")
            # 4. execution equality
            static_bad = bool(problems)
            mism = None
            for (v, sem), want in zip(runs, before):
                try:
                    got, steps = execute(rm, case, func, "reg", v, sem)
                    cnt("reg_steps_executed", steps)
                except rm.MachineError as e:
                    got = {"error": e.kind}
                cnt("executions_compared")
                if got != want:
                    mism = {"inputs": v, "semantics": sem, "ssa_before": brief(want), "register_after": brief(got)}
                    break
            if mism is not None:
                if static_bad:
                    cnt("exec_mismatch_confirms_static_finding")
                prob("exec-mismatch", **mism)
            elif static_bad:
                cnt("static_finding_without_exec_mismatch")
            # structure is unchanged, so SSA semantics after allocation must be identical as well
            try:
                got, _ = execute(rm, case, func, "ssa", runs[0][0], "isa", zero_rule=False)
                cnt("ssa_after_allocation_compared")
                if got != before[0]:
                    prob("ssa-semantics-changed-by-allocation", ssa_before=brief(before[0]), ssa_after=brief(got))
            except rm.MachineError as e:
                prob("ssa-execution-fails-after-allocation", detail=e.kind)

    if not problems:
        if uncolorable:
            cnt("uncolourable_input_but_no_problem_found")
        key = shash((case["text"], sorted(acfg.items(), key=str)))
        return hook_violation, (key if (max_live >= 4 and reuse) else None)

    # ---- one violation per case, keyed by mechanism
    kinds = [p["kind"] for p in problems]
    for k in set(kinds):
        cnt("problem_" + k)
    first = problems[0]
    if repeats and any(k in ("structure-changed", "ir-broken-after-allocation") for k in kinds):
        key = f"{arch}:{K_STALE}"
        summary = (f"{arch} allocator: {repeats} names one value twice in its tied (block argument, initial value, "
                   f"yield operand, result) tuples; allocate_values_same_reg replaces the already replaced (stale) value "
                   f"again and the IR keeps using a detached value; observed: {sorted(set(kinds))}")
    elif uncolorable:
        key = f"{arch}:{K_TIED}"
        summary = (f"{arch} allocator reported success on a function whose tie constraints (loop-carried tuple / in-out "
                   f"pair) force two simultaneously live values into one register; observed: {sorted(set(kinds))}")
    else:
        pr = ["ir-broken-after-allocation", "structure-changed", "value-left-unallocated", "preassigned-register-changed",
              "zero-register-holds-nonconstant", "tie-broken", "interference", "spill-register-without-allow-infinite",
              "reserved-stream-register-used", "register-outside-offered-pool", "verify-fails-after-allocation",
              "exec-mismatch", "ssa-semantics-changed-by-allocation", "ssa-execution-fails-after-allocation",
              "use-before-definition"]
        first = sorted(problems, key=lambda p: pr.index(p["kind"]) if p["kind"] in pr else 99)[0]
        key = f"{arch}:{first['kind']}"
        if first["kind"] == "interference":
            a, b = first.get("reg"), first.get("other_reg")
            where = first["where"]
            pre = []
            for q in (first.get("_a"), first.get("_b")):
                i = index_of(vals_after, q)
                if i >= 0 and types_before[i] is not None and types_before[i][1]:
                    pre.append(owner_kind(q))
            cell = rm.vphys(first["_a"])
            loop_roots = {id(find(vals_before[i])) for i in loop_tuple_positions if i >= 0}
            in_loop_tuple = any(index_of(vals_after, q) >= 0 and id(find(vals_before[index_of(vals_after, q)])) in loop_roots
                                for q in (first.get("_a"), first.get("_b")))
            if len(pre) == 1:
                # a pre-assigned register was handed to another value that is live at the same time
                pv = next(q for q in (first.get("_a"), first.get("_b"))
                          if types_before[index_of(vals_after, q)][1])
                touching = ([pv.op.name] if getattr(pv, "op", None) is not None else [owner_kind(pv)[len("block-argument-of:"):]])
                touching += [u.operation.name for u in pv.uses]
                if all(t in NO_REGISTER_EFFECTS for t in touching):
                    key = f"{arch}:{K_NOEFF}"
                else:
                    key = f"{arch}:preassigned-register-given-to-simultaneously-live-value:{pre[0]}"
            elif cell is not None and cell[0].endswith(".inf") and in_loop_tuple:
                # the (reserved) spill register of a loop-carried tuple was handed out again while the tuple lives
                key = f"{arch}:{K_SPILL}"
            else:
                ctxk = "loop" if "(" in where else "straight-line"
                key += f":{ctxk}" + (":aliased-register-names" if a != b else "")
        summary = f"{arch} {acfg['entry']} allocation: {strip([first])[0]}"
    witness = {"text": case["text"], "alloc": acfg, "arch": arch, "problems": strip(problems[:6]),
               "allocated": str(module)[:6000], "features": case.get("features"),
               "replay_job": {"cases": [case]}}
    return {"key": key, "summary": summary[:500], "witness": witness}, None


def owner_kind(v):
    """What carries the value: defining op name, or 'block-argument-of:<parent op>'."""
    op = getattr(v, "op", None)
    if op is not None:
        return op.name
    blk = getattr(v, "block", None)
    parent = blk.parent_op() if blk is not None else None
    return "block-argument-of:" + (parent.name if parent is not None else "?")


def strip(problems):
    return [{k: v for k, v in p.items() if not k.startswith("_")} for p in problems]


def index_of(seq, v):
    for i, q in enumerate(seq):
        if q is v:
            return i
    return -1


def only_nonallocatable(rm, v):
    """The value is defined and used only by ops the allocator does not process (test.op)."""
    owner = getattr(v, "op", None)
    names = [] if owner is None else [owner.name]
    names += [u.operation.name for u in v.uses]
    return all(n == "test.op" for n in names) and bool(names)


def brief(out):
    if "error" in out:
        return out
    return {"ret": [hex(x) for x in out["ret"]], "log": [str(e)[:80] for e in out["log"][:6]], "log_len": len(out["log"])}


def crash_site(e):
    tb = e.__traceback__
    last = None
    while tb is not None:
        last = tb
        tb = tb.tb_next
    return last.tb_frame.f_code.co_qualname if last is not None else "?"


# ------------------------------------------------------------------------------------------------ worker
LOWERING = ["convert-func-to-riscv-func", "convert-scf-to-riscv-scf", "convert-arith-to-riscv", "reconcile-unrealized-casts"]


def lower_to_riscv(source):
    """func/arith/scf text -> riscv_func text through xDSL's own lowering passes (input preparation only)."""
    import io
    from xv.corpus import new_ctx
    from xdsl.parser import Parser
    from xdsl.printer import Printer
    from xdsl.transforms import get_all_passes
    ctx = new_ctx()
    m = Parser(ctx, source).parse_module()
    m.verify()
    passes = get_all_passes()
    for p in LOWERING:
        passes[p]()().apply(ctx, m)
    m.verify()
    s = io.StringIO()
    Printer(stream=s).print_op(m)
    return s.getvalue()


def make_case(rng):
    from xv import c19_gen as gen
    q = rng.random()
    if q < 0.08:
        case = gen.gen_scf(rng)
        try:
            case["text"] = lower_to_riscv(case["source"])
        except Exception as e:  # noqa: BLE001 - input preparation by xDSL's own lowering passes failed: not judged
            return {"skip": "excluded_lowering_failed:" + type(e).__name__, "arch": "riscv", "text": case["source"]}
        case["alloc"] = alloc_config(rng, "riscv", case["cfg"]["pressure"])
        case["exec_seed"] = rng.getrandbits(32)
        return case
    arch = "riscv" if q < 0.7 else "x86"
    case = gen.gen_riscv(rng) if arch == "riscv" else gen.gen_x86(rng)
    case["alloc"] = alloc_config(rng, arch, case["cfg"]["pressure"])
    case["exec_seed"] = rng.getrandbits(32)
    return case


def work(job):
    from xv import c19_regmachine as rm
    from xv.worker import journal
    rm.selftest()
    C, S = {"regmachine_selftests": 1}, {}
    violations, nontrivial, samples = [], [], []
    if "cases" in job:
        cases = job["cases"]
    else:
        cases = None
    n = len(cases) if cases is not None else job["n"]
    per_key = {}
    for i in range(n):
        if cases is not None:
            case = cases[i]
        else:
            rng = random.Random(f"C19/{job['seed']}/{job['shard']}/{i}")
            case = make_case(rng)
        journal(case["text"])
        if "skip" in case:
            C[case["skip"]] = C.get(case["skip"], 0) + 1
            continue
        for f in case.get("features", ()):
            S.setdefault("features_" + case["arch"], set()).add(f)
        v, nt = run_case(case, C, S)
        if nt:
            nontrivial.append(nt)
            if len(samples) < 2 and len(case["text"]) < 2500:
                samples.append({"arch": case["arch"], "alloc": case["alloc"], "text": case["text"]})
        if v is not None:
            per_key[v["key"]] = per_key.get(v["key"], 0) + 1
            if per_key[v["key"]] <= 3:
                violations.append(v)
            else:
                violations.append({"key": v["key"], "summary": v["summary"], "witness": {"text": case["text"][:300], "alloc": case["alloc"]}})
    sets = {k: sorted(v) for k, v in S.items()}
    return {"evaluations": n, "nontrivial": nontrivial, "samples": samples, "counters": C, "sets": sets,
            "violations": violations, "extra": {}}


def finish(agg, tier):
    c = agg.counters
    reasons = []
    need = {"quick": 1, "thorough": 8}[tier]

    def want(name, least):
        got = c.get(name, 0)
        if got < least * need:
            reasons.append(f"{name}={got} < {least * need}")
    want("alloc_succeeded_riscv", 400)
    want("alloc_succeeded_x86", 150)
    want("alloc_succeeded_entry_pass", 150)
    want("alloc_succeeded_entry_class", 250)
    want("oracle_loops_analysed", 300)
    want("oracle_tied_pairs_checked", 800)
    want("oracle_defs_checked", 10000)
    want("executions_compared", 1500)
    want("zero_register_assignments_checked", 200)
    want("preassigned_values_checked", 1000)
    want("spill_register_assignments", 50)
    want("cases_lowered_from_scf", 100)
    big = c.get("max_live_bucket_8-15", 0) + c.get("max_live_bucket_16-31", 0) + c.get("max_live_bucket_ge32", 0)
    if big < 100 * need:
        reasons.append(f"allocations with >= 8 simultaneously live values: {big} < {100 * need}")
    clash = c.get("excluded_input_preassigned_values_clash", 0)
    if clash * 20 > agg.evaluations:
        reasons.append(f"generator produced clashing pre-assigned values in {clash} of {agg.evaluations} cases")
    return {"inconclusive": reasons, "coverage": {
        "anchors": {k: v for k, v in c.items() if k.startswith("alloc_")},
        "excluded": {k: v for k, v in c.items() if k.startswith("excluded_")}}}
