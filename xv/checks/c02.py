"""C02 - Cloning yields an independent equivalent copy and leaves other IR untouched.

(a) clone cases: structured random IR (xv.genir: nested / multi-block regions, forward block and value
    references, def-use cycles, values from enclosing regions, outside values, hints, attributes) x every
    clone entry point (Operation.clone, clone_without_regions, Region.clone, Region.clone_into into empty and
    NON-EMPTY destinations at every index, destinations in the same tree or a foreign tree), with and without
    caller supplied (pre-seeded) value/block mappers and the clone_name_hints / clone_operands flags.
    Oracle: xv.canon canonical forms with outside references rendered as identity tokens (equality of the
    canonical forms IS the "outside references unchanged, inside references remapped" requirement), the IR
    sanitizer xv.irsan over every live root (closed world), node-identity disjointness, mapper contents,
    and independence: random edit histories applied to the copy only (then to the source only) while the
    other side's canonical form must not move.
(b) ModulePass.apply_to_clone for registered passes on corpus and generated modules: canonical form (with
    hints and locations) of the original module and the state of the original Context before/after, once
    normally and once with a failpoint that raises in the middle of the pass (after the n-th IR mutation)."""
from __future__ import annotations

import random

from xv.harness import shash

ID = "C02"
LEVEL = "exploration"
RULE = ("clone case = (generated IR spec, entry point, target op/region, destination shape and insert index, mapper "
        "and flag variant, edit seeds); non-trivial if the cloned source has >=2 blocks or a forward value/block "
        "reference or a reference to something outside the cloned part; apply_to_clone case = (module, pass, "
        "failpoint position), non-trivial if the pass mutated its clone at least once; distinct by hash of the "
        "canonical form of the source plus the case descriptor")
LEVEL_TEXT = ("Every generated clone call and every sampled pass x module apply_to_clone call (normal and with an injected "
              "mid-pass exception) is checked against an independent canonical form with identity tokens for outside "
              "references, an IR sanitizer over all live roots, and edit histories on one side that must not be visible "
              "on the other; held = no call disagreed on the executions produced.")
LEVEL_NOTE = ("trusts xv.canon (canonical form), xv.irsan (invariant walker), xv.genir (generator: references respect "
              "scoping, successors stay in the parent region) and CPython; passes are exercised as black boxes")
TECHNIQUE = ("reference-model differential monitor: canonical-form + sanitizer post-conditions around every clone call, "
             "edit-history independence check, failpoint injection for apply_to_clone")
ENGINES = ["harness", "canon", "irsan", "corpus"]
ASSUMPTIONS = ["xv.canon.canon_ir equality is IR isomorphism with outside references compared by identity",
               "the edit histories only touch nodes of the side being edited",
               "the mappers passed to clone are filled with old->new entries for every value/block defined in the cloned part "
               "(de-facto contract used by inliners)"]
JOB_TIMEOUT = {"quick": 600, "thorough": 3600}

KNOWN_CLONE_INTO = "clone_into:nonempty-dest:operand-fixup-walks-preexisting-blocks"
KNOWN_HINT = "clone:name-hint-loses-second-numeric-suffix"
KNOWN_SELF_USE = "clone_without_regions:operand-that-is-own-result-not-remapped"


from xv.genir import block_ops, collect, is_inside, region_blocks  # noqa: E402  (raw-field walkers)


# ------------------------------------------------------------------------------------------------ canon transforms
def t_map(c, f_op=None, f_tok=None):
    """Rebuild a canonical tuple applying f_op to every op tuple (bottom-up) and f_tok to every reference token."""
    if not isinstance(c, tuple) or not c:
        return c
    tag = c[0]
    if tag == "op":
        _, name, opnds, res, props, attrs, succ, regs = c[:8]
        rest = c[8:]
        opnds = tuple(f_tok(t) if f_tok else t for t in opnds)
        succ = tuple(f_tok(t) if f_tok else t for t in succ)
        regs = tuple(t_map(r, f_op, f_tok) for r in regs)
        out = ("op", name, opnds, res, props, attrs, succ, regs) + rest
        return f_op(out) if f_op else out
    if tag == "block":
        return ("block", c[1], tuple(t_map(o, f_op, f_tok) for o in c[2]))
    if tag == "region":
        return ("region", tuple(t_map(b, f_op, f_tok) for b in c[1]))
    return c


def t_subst(c, mapping):
    """Replace ('ext', id) / ('extb', id) tokens according to mapping {id: id}."""
    def f(t):
        if t[0] in ("ext", "extb") and t[1] in mapping:
            return (t[0], mapping[t[1]])
        return t
    return t_map(c, None, f)


def t_no_operands(c):
    return t_map(c, lambda o: o[:2] + ((),) + o[3:])


def t_no_hints(c):
    def f(o):
        return o[:3] + (tuple((r[0], None) if len(r) > 1 else r for r in o[3]),) + o[4:]
    c = t_map(c, f)

    def blk(x):
        if not isinstance(x, tuple) or not x:
            return x
        if x[0] == "block":
            return ("block", tuple((a[0], None) if len(a) > 1 else a for a in x[1]), tuple(blk(o) for o in x[2]))
        if x[0] == "region":
            return ("region", tuple(blk(b) for b in x[1]))
        if x[0] == "op":
            return x[:7] + (tuple(blk(r) for r in x[7]),) + x[8:]
        return x
    return blk(c)


def t_hint_suffix_model(c):
    """Model of the known wrong behaviour for hints: the clone passes the stored hint through the name_hint setter
    again, which strips one more `_<digits>` suffix."""
    import re
    suf = re.compile(r"(_\d+)$")

    def h(x):
        if x is None:
            return x
        m = suf.search(x)
        return x[:m.start()] if m else x

    def f(o):
        return o[:3] + (tuple((r[0], h(r[1])) if len(r) > 1 else r for r in o[3]),) + o[4:]
    c = t_map(c, f)

    def blk(x):
        if not isinstance(x, tuple) or not x:
            return x
        if x[0] == "block":
            return ("block", tuple((a[0], h(a[1])) if len(a) > 1 else a for a in x[1]), tuple(blk(o) for o in x[2]))
        if x[0] == "region":
            return ("region", tuple(blk(b) for b in x[1]))
        if x[0] == "op":
            return x[:7] + (tuple(blk(r) for r in x[7]),) + x[8:]
        return x
    return blk(c)


def t_empty_regions_top(c):
    assert c[0] == "op"
    return c[:7] + (tuple(("region", ()) for _ in c[7]),) + c[8:]


def first_diff(a, b, path=""):
    if type(a) is not type(b):
        return f"{path}: {str(a)[:80]} != {str(b)[:80]}"
    if isinstance(a, tuple):
        if len(a) != len(b):
            return f"{path}: len {len(a)} != {len(b)} ({str(a)[:60]} | {str(b)[:60]})"
        for i, (x, y) in enumerate(zip(a, b)):
            if x != y:
                return first_diff(x, y, f"{path}/{a[0] if a and isinstance(a[0], str) else ''}[{i}]")
        return None
    return None if a == b else f"{path}: {str(a)[:80]} != {str(b)[:80]}"


# ------------------------------------------------------------------------------------------------ edits
class Editor:
    """Random edit history confined to the nodes of ONE side (a root node or a list of blocks)."""

    def __init__(self, rng, side_roots, extra_values, counters):
        self.rng = rng
        self.roots = side_roots
        self.extra = list(extra_values)
        self.C = counters
        self.graveyard = []
        self.detached = []

    def scan(self):
        ops, blocks, regions, values = [], [], [], []
        for r in self.roots:
            o, b, g, v = collect(r)
            ops += o
            blocks += b
            regions += g
            values += v
        return ops, blocks, regions, values

    def step(self):
        from xdsl.dialects.builtin import StringAttr, i32, i64
        from xdsl.dialects.test import TestOp
        from xdsl.ir import Block, Operation
        from xdsl.rewriter import Rewriter
        rng = self.rng
        ops, blocks, regions, values = self.scan()
        inner_ops = [o for o in ops if o not in self.roots]
        kind = rng.choice(("attr_set", "attr_del", "prop_set", "prop_del", "operand_set", "operands_assign", "succ_set",
                           "hint", "erase_op", "insert_op", "insert_arg", "erase_arg", "move_op", "add_block",
                           "erase_block", "rauw", "retype", "detach_region_block"))
        done = None
        if kind == "attr_set" and ops:
            o = rng.choice(ops)
            o.attributes[rng.choice(("a", "edit.k", "zz"))] = StringAttr("edited%d" % rng.randrange(100))
            done = kind
        elif kind == "attr_del" and ops:
            o = rng.choice(ops)
            ks = [k for k in o.attributes if k != "op_name__"]
            if ks:
                del o.attributes[rng.choice(ks)]
                done = kind
        elif kind == "prop_set" and ops:
            o = rng.choice(ops)
            o.properties[rng.choice(("prop1", "prop2", "p0"))] = StringAttr("edited%d" % rng.randrange(100))
            done = kind
        elif kind == "prop_del" and ops:
            o = rng.choice(ops)
            if o.properties:
                del o.properties[rng.choice(sorted(o.properties))]
                done = kind
        elif kind == "operand_set":
            c = [o for o in ops if len(o._operands)]
            pool = values + self.extra
            if c and pool:
                o = rng.choice(c)
                o.operands[rng.randrange(len(o._operands))] = rng.choice(pool)
                done = kind
        elif kind == "operands_assign" and ops:
            o = rng.choice(ops)
            cur = list(o._operands)
            rng.shuffle(cur)
            if cur and rng.random() < 0.5:
                cur.pop()
            elif values:
                cur.append(rng.choice(values))
            o.operands = cur
            done = kind
        elif kind == "succ_set":
            c = [o for o in ops if len(o._successors) and o.parent is not None and o.parent.parent is not None]
            if c:
                o = rng.choice(c)
                bl = region_blocks(o.parent.parent)
                if rng.random() < 0.3:
                    o.successors = list(o._successors)[:-1]
                else:
                    o.successors[rng.randrange(len(o._successors))] = rng.choice(bl)
                done = kind
        elif kind == "hint" and values:
            rng.choice(values).name_hint = rng.choice(("edited", "zq", None))
            done = kind
        elif kind == "erase_op":
            c = [o for o in inner_ops if o.parent is not None and all(r.first_use is None for r in o.results)
                 and not any(v.first_use is not None for v in collect(o)[3])
                 and not any(b.first_use is not None for b in collect(o)[1])]
            if c:
                o = rng.choice(c)
                self.graveyard.append(o)
                if rng.random() < 0.5:
                    o.parent.erase_op(o)
                else:
                    Rewriter.erase_op(o)
                done = kind
        elif kind == "insert_op" and blocks:
            b = rng.choice(blocks)
            pool = values + self.extra
            opnds = [rng.choice(pool) for _ in range(rng.randint(0, 2))] if pool else []
            new = TestOp.create(operands=opnds, result_types=[rng.choice((i32, i64))] * rng.randint(0, 2))
            bo = block_ops(b)
            if bo and rng.random() < 0.7:
                at = rng.choice(bo)
                (b.insert_op_before if rng.random() < 0.5 else b.insert_op_after)(new, at)
            else:
                b.add_op(new)
            done = kind
        elif kind == "insert_arg" and blocks:
            b = rng.choice(blocks)
            b.insert_arg(rng.choice((i32, i64)), rng.randint(0, len(b._args)))
            done = kind
        elif kind == "erase_arg":
            c = [(b, a) for b in blocks for a in b._args if a.first_use is None]
            if c:
                b, a = rng.choice(c)
                self.graveyard.append(a)
                b.erase_arg(a)
                done = kind
        elif kind == "move_op":
            c = [o for o in inner_ops if o.parent is not None]
            if c and blocks:
                o = rng.choice(c)
                dst = [b for b in blocks if not is_inside(b, o)]
                if dst:
                    b = rng.choice(dst)
                    o.detach()
                    bo = block_ops(b)
                    if bo and rng.random() < 0.6:
                        b.insert_op_before(o, rng.choice(bo))
                    else:
                        b.add_op(o)
                    done = kind
        elif kind == "add_block":
            c = [r for r in regions]
            if c:
                r = rng.choice(c)
                r.insert_block(Block(arg_types=[i32] * rng.randint(0, 2)), rng.randint(0, len(region_blocks(r))))
                done = kind
        elif kind in ("erase_block", "detach_region_block"):
            c = []
            for b in blocks:
                if b.parent is None or b in self.roots or b.first_use is not None:
                    continue
                _, bb, _, vv = collect(b)
                inner = {id(x) for x in collect(b)[0]}
                ok = all(u._operation is not None and id(u._operation) in inner
                         for v in vv for u in _uses(v)) and all(x.first_use is None or x is b for x in bb)
                if ok:
                    c.append(b)
            if c:
                b = rng.choice(c)
                if kind == "erase_block":
                    self.graveyard.append(b)
                    b.parent.erase_block(b)
                else:
                    self.detached.append(b)
                    b.parent.detach_block(b)
                done = kind
        elif kind == "rauw":
            if len(values) >= 2:
                a, b = rng.sample(values, 2)
                a.replace_all_uses_with(b)
                done = kind
        elif kind == "retype":
            if values:
                v = rng.choice(values)
                Rewriter.replace_value_with_new_type(v, rng.choice((i32, i64)))
                done = kind
        if done:
            self.C["edit:" + done] = self.C.get("edit:" + done, 0) + 1
        return done


def _uses(v):
    out = []
    u = v.first_use
    while u is not None:
        out.append(u)
        u = u._next_use
    return out


# ------------------------------------------------------------------------------------------------ clone cases
class Violation(Exception):
    def __init__(self, key, summary, detail=None):
        super().__init__(summary)
        self.key, self.summary, self.detail = key, summary, detail


FLAG_VARIANTS = [  # (clone_name_hints, clone_operands, mapper mode)
    (True, True, "none"), (True, True, "empty"), (True, True, "seeded"), (False, True, "none"),
    (True, False, "empty"), (False, False, "seeded"), (True, True, "seeded"), (True, True, "none"),
]
ENTRIES = ("op.clone", "op.clone_without_regions", "region.clone", "region.clone_into")


def make_case(rng, tier):
    """A JSON-able clone case descriptor (everything else derives from it deterministically)."""
    from xv import genir
    r = rng.random()
    root = "module" if r < 0.55 else rng.choice(("op", "region", "block"))
    hostile = rng.random() < 0.6
    kw = dict(root=root, n_outside=0 if root == "module" and rng.random() < 0.7 else rng.choice((1, 2, 3)),
              max_ops=rng.choice((6, 12, 20, 30, 45)), max_depth=rng.choice((1, 2, 3, 4)), p_loc=rng.choice((0.0, 0.2)))
    cfg = genir.Cfg.hostile(**kw) if hostile else (genir.Cfg(**kw) if rng.random() < 0.6 else genir.Cfg.plain(**kw))
    spec = genir.gen_spec(rng, cfg)
    case = {"spec": spec, "entry": rng.choice(ENTRIES), "pick": rng.randrange(1 << 30), "variant": rng.randrange(len(FLAG_VARIANTS)),
            "edit_seed": rng.randrange(1 << 30), "n_edits": rng.choice((4, 8, 16))}
    if case["entry"] == "region.clone_into":
        case["dest"] = rng.choice(("empty", "foreign", "foreign", "same_tree", "same_tree", "foreign_nested"))
        case["index"] = rng.choice(("none", "first", "mid", "last", "last", "mid"))
        if case["dest"] in ("foreign", "foreign_nested"):
            dcfg = genir.Cfg.hostile(root="region" if case["dest"] == "foreign" else "module", n_outside=1,
                                     max_ops=rng.choice((4, 10, 18)), max_depth=2, p_multiblock=0.8)
            case["dest_spec"] = genir.gen_spec(rng, dcfg)
    return case


def run_clone_case(case, C, sets, soft):
    """Runs one clone case; raises Violation (fatal for the case) or appends to `soft` (case continues).
    Returns (nontrivial: bool, hash)."""
    from xdsl.ir import Block, Operation, Region
    from xdsl.utils.test_value import create_ssa_value
    from xv import genir
    from xv.canon import canon_ir
    from xv.irsan import Broken, check_tree

    def bump(k, n=1):
        C[k] = C.get(k, 0) + n

    spec = case["spec"]
    built = genir.build(spec)
    prng = random.Random(case["pick"])
    entry = case["entry"]
    hints_flag, operands_flag, mapper_mode = FLAG_VARIANTS[case["variant"]]
    roots = [built.root] + list(built.keepalive) + [v.owner for v in built.outside]
    roots = list({id(r): r for r in roots}.values())
    ops, blocks, regions, values = collect(built.root)
    # ---- choose the source
    if entry.startswith("op."):
        cand = ops
        if not cand:
            bump("skipped:no-op")
            return False, None
        src = prng.choice(cand)
    else:
        cand = regions
        if not cand:
            bump("skipped:no-region")
            return False, None
        # prefer regions with content
        rich = [r for r in cand if len(region_blocks(r)) >= 2]
        src = prng.choice(rich) if rich and prng.random() < 0.6 else prng.choice(cand)
    s_ops, s_blocks, s_regions, s_values = collect(src)
    inner_v = {id(v) for v in s_values}
    inner_b = {id(b) for b in s_blocks}
    ext_vals = {id(o): o for op in s_ops for o in op._operands if id(o) not in inner_v}
    ext_blocks = {id(s): s for op in s_ops for s in op._successors if id(s) not in inner_b}
    fwd = _has_forward(s_ops, s_blocks, inner_v)
    nontrivial = len(s_blocks) >= 2 or fwd or bool(ext_vals) or bool(ext_blocks)
    bump("src_ops_total", len(s_ops))
    bump("sit:src_multi_block" if len(s_blocks) >= 2 else "sit:src_le1_block")
    if fwd:
        bump("sit:src_forward_ref")
    if ext_vals:
        bump("sit:src_outside_value_ref")
    if ext_blocks:
        bump("sit:src_outside_block_ref")
    if any(o in op._operands for op in s_ops for o in op.results):
        bump("sit:src_self_use")

    # ---- mappers
    vm = bm = None
    subst = {}
    keep = []
    if mapper_mode != "none":
        vm, bm = {}, {}
    if mapper_mode == "seeded":
        for vid, v in list(ext_vals.items())[:2]:
            rep = create_ssa_value(v.type)
            keep.append(rep.owner)
            roots.append(rep.owner)
            vm[v] = rep
            subst[vid] = id(rep)
        for bid, b in list(ext_blocks.items())[:1]:
            if b.parent is not None:
                others = [x for x in region_blocks(b.parent) if id(x) not in inner_b]
                rep = prng.choice(others)
                bm[b] = rep
                subst[bid] = id(rep)
        if subst:
            bump("sit:preseeded_mapper_hit")
    seeded_vm = dict(vm) if vm is not None else {}
    seeded_bm = dict(bm) if bm is not None else {}

    # ---- destination for clone_into
    dest = None
    dest_root = None
    index = None
    pre_blocks = []
    if entry == "region.clone_into":
        dk = case["dest"]
        if dk == "empty":
            dest = Region()
            dest_root = dest
            roots.append(dest)
        elif dk in ("foreign", "foreign_nested"):
            db = genir.build(case["dest_spec"])
            roots += [db.root] + list(db.keepalive)
            keep.append(db)
            dest_root = db.root
            if dk == "foreign":
                dest = db.root
            else:
                dr = [r for r in collect(db.root)[2]]
                nonempty = [r for r in dr if region_blocks(r)]
                dest = prng.choice(nonempty if nonempty and prng.random() < 0.8 else dr)
        else:  # same tree: any region that is not the source nor nested inside it
            c = [r for r in regions if r is not src and not is_inside(r, src)]
            if not c:
                dest = Region()
                dest_root = dest
                roots.append(dest)
                bump("sit:same_tree_unavailable")
            else:
                nonempty = [r for r in c if region_blocks(r)]
                dest = prng.choice(nonempty if nonempty and prng.random() < 0.8 else c)
                dest_root = built.root
                bump("sit:dest_same_tree")
                if is_inside(src, dest):
                    bump("sit:dest_is_ancestor_of_src")
        pre_blocks = region_blocks(dest)
        s_blocks_top = region_blocks(src)
        n = len(pre_blocks)
        ik = case["index"]
        index = None if ik == "none" else 0 if ik == "first" else n if ik == "last" else (n // 2 if n < 2 else prng.randint(1, n - 1))
        eff = n if index is None else index
        bump("sit:dest_nonempty" if n else "sit:dest_empty")
        if n:
            bump("sit:index_first" if eff == 0 else "sit:index_last" if eff == n else "sit:index_mid")
            if eff < n and len(s_blocks_top) >= 2:
                bump("sit:multiblock_src_inserted_before_end_of_nonempty_dest")
            if eff > 0 and any(block_ops(b) for b in pre_blocks[:eff]):
                bump("sit:dest_ops_before_insert_point")

    roots = list({id(r): r for r in roots}.values())
    # ---- snapshots
    try:
        check_tree(roots)
    except Broken as e:  # generator/harness error: crash the shard
        raise RuntimeError(f"harness: IR broken before the clone call: {e}")
    snap = [canon_ir(r, with_hints=True, normalise=False, with_loc=True) for r in roots]
    src_canon_h = canon_ir(src, with_hints=True, normalise=False, with_loc=True)
    src_canon = canon_ir(src, normalise=False)
    pre_canon = [canon_ir(b, with_hints=True, normalise=False) for b in pre_blocks]
    shadow = None
    if entry == "region.clone_into":
        shadow = {id(o): tuple(o._operands) for r in roots for o in collect(r)[0]}

    # ---- the call
    kw = dict(clone_name_hints=hints_flag, clone_operands=operands_flag)
    bump("calls:" + entry)
    bump(f"flags:hints={hints_flag},operands={operands_flag},mapper={mapper_mode}")
    if entry == "op.clone":
        copy = src.clone(vm, bm, **kw) if vm is not None else src.clone(**kw)
    elif entry == "op.clone_without_regions":
        copy = src.clone_without_regions(vm, bm, **kw) if vm is not None else src.clone_without_regions(**kw)
    elif entry == "region.clone":
        copy = src.clone()
        hints_flag, operands_flag, mapper_mode, vm, bm, subst = True, True, "none", None, None, {}
    else:
        if vm is not None:
            src.clone_into(dest, index, vm, bm, **kw)
        else:
            src.clone_into(dest, index, **kw)
        copy = None
    desc = f"{entry} hints={hints_flag} operands={operands_flag} mapper={mapper_mode}"
    if entry == "region.clone_into":
        desc += f" dest={case['dest']}({len(pre_blocks)} blocks) index={index}"

    # ---- clone_into: locate the new blocks, check the pre-existing ones
    if entry == "region.clone_into":
        now = region_blocks(dest)
        k = len(s_blocks) if src is not dest else 0
        k = len(region_blocks(src))
        eff = len(pre_blocks) if index is None else index
        new_blocks = now[eff:eff + k]
        rest = now[:eff] + now[eff + k:]
        if len(now) != len(pre_blocks) + k or [id(b) for b in rest] != [id(b) for b in pre_blocks] \
                or any(id(b) in {id(p) for p in pre_blocks} for b in new_blocks):
            raise Violation("clone_into:block-placement", f"{desc}: destination block list is not pre[:i]+new+pre[i:]")
        # known-defect model (evaluated on the state right after the call)
        model_match = None
        if operands_flag:
            model_match = _clone_into_bug_model(src, dest, new_blocks, shadow, roots, seeded_vm)
        post_canon = [canon_ir(b, with_hints=True, normalise=False) for b in pre_blocks]
        dest_changed = post_canon != pre_canon
        # link integrity of the destination WITH the new blocks in place (forward and backward raw links, parents,
        # use lists) and agreement of the public forward / reverse iterators
        _in_place_integrity(dest, now, roots, desc, entry, C, dest_changed)
        # edit after clone: take the new blocks out ONE AT A TIME (random order); after each step the destination must
        # contain exactly the remaining blocks, in order, under every way of iterating
        tmp = Region()
        remaining = list(now)
        order = list(new_blocks)
        prng.shuffle(order)
        for b in order:
            dest.detach_block(b)
            remaining = [x for x in remaining if x is not b]
            _block_list_is(dest, remaining, f"{desc}: after detaching one cloned block", "clone_into:detach-cloned-block-corrupts-destination")
            bump("in_place_detach_steps")
        tmp.add_block(new_blocks)
        copy = tmp
        roots.append(tmp)
        if dest_changed:
            i = next(i for i, (a, b) in enumerate(zip(pre_canon, post_canon)) if a != b)
            key = "clone_into:destination-ir-modified"
            if model_match:
                key = KNOWN_CLONE_INTO
            raise Violation(key, f"{desc}: a pre-existing destination block changed: {first_diff(pre_canon[i], post_canon[i])}",
                            {"model_match": model_match})
    else:
        roots.append(copy)
        model_match = None

    # ---- structure of the copy
    expected = src_canon
    if subst:
        expected = t_subst(expected, subst)
    if not operands_flag:
        expected = t_no_operands(expected)
    if entry == "op.clone_without_regions":
        expected = t_empty_regions_top(expected)
    got = canon_ir(copy, normalise=False)
    if got != expected:
        key = f"{entry}:copy-not-equivalent"
        if entry == "region.clone_into" and model_match:
            key = KNOWN_CLONE_INTO
        if entry == "op.clone_without_regions" and operands_flag:
            # model of the known wrong behaviour: an operand that is one of the op's OWN results (graph-region self
            # use) is looked up in the mapper before the results are registered, so it keeps pointing at the source
            own = {i: id(r) for i, r in enumerate(src.results)}

            def self_tok(t):
                return ("ext", own[t[1]]) if t[0] == "v" and t[1] in own else t
            if own and got == expected[:2] + (tuple(self_tok(t) for t in expected[2]),) + expected[3:]:
                key = KNOWN_SELF_USE
        raise Violation(key, f"{desc}: canonical form of the copy differs from the source: {first_diff(expected, got)}",
                        {"model_match": model_match})
    bump("copies_equivalent")
    # ---- source and every other root untouched
    roots = list({id(r): r for r in roots}.values())
    after = [canon_ir(r, with_hints=True, normalise=False, with_loc=True) for r in roots[:len(snap)]]
    for i, (a, b) in enumerate(zip(snap, after)):
        if a != b:
            which = "source-tree" if roots[i] is built.root else "destination-tree" if roots[i] is dest_root else "other-root"
            raise Violation(f"{entry}:{which}-modified", f"{desc}: {which} changed by the clone call: {first_diff(a, b)}")
    bump("roots_compared_unchanged", len(snap))
    try:
        st = check_tree(roots)
    except Broken as e:
        raise Violation(f"{entry}:irsan", f"{desc}: IR sanitizer after clone: {e}")
    bump("irsan_walks")
    bump("irsan_ops_walked", st["ops"])
    # ---- node identity: nothing shared
    c_ops, c_blocks, c_regions, c_values = collect(copy)
    src_ids = {id(x) for x in s_ops + s_blocks + s_regions + s_values}
    if any(id(x) in src_ids for x in c_ops + c_blocks + c_regions + c_values):
        raise Violation(f"{entry}:shared-node", f"{desc}: the copy contains a node object of the source")
    for a, b in zip(s_ops, c_ops):
        if entry == "op.clone_without_regions":
            break
        if a.attributes is b.attributes or a.properties is b.properties:
            raise Violation(f"{entry}:shared-dict", f"{desc}: attribute/property dictionary object shared with the source")
    if entry == "op.clone_without_regions" and (copy.attributes is src.attributes or copy.properties is src.properties):
        raise Violation(f"{entry}:shared-dict", f"{desc}: attribute/property dictionary object shared with the source")
    # ---- name hints
    got_h = canon_ir(copy, with_hints=True, normalise=False, with_loc=True)
    exp_h = canon_ir(src, with_hints=True, normalise=False, with_loc=True)
    if subst:
        exp_h = t_subst(exp_h, subst)
    if not operands_flag:
        exp_h = t_no_operands(exp_h)
    if entry == "op.clone_without_regions":
        exp_h = t_empty_regions_top(exp_h)
    if not hints_flag:
        exp_h = t_no_hints(exp_h)
    if got_h != exp_h:
        if hints_flag and got_h == t_hint_suffix_model(exp_h):
            # known wrong-behaviour model confirmed; the IR itself is intact, so the remaining checks still run
            soft.append(Violation(KNOWN_HINT, f"{desc}: name hint of the copy differs: {first_diff(exp_h, got_h)}"))
        else:
            raise Violation(f"{entry}:hints-or-locations-differ",
                            f"{desc}: hints/locations of the copy differ: {first_diff(exp_h, got_h)}")
    bump("hint_comparisons")
    # block-argument locations (not part of the canonical form): positional comparison
    from xdsl.ir import BlockArgument
    from xv.canon import canon_attr
    if entry != "op.clone_without_regions":
        for a, b in zip(s_values, c_values):
            if isinstance(a, BlockArgument) and canon_attr(a.location) != canon_attr(b.location):
                raise Violation(f"{entry}:block-argument-location-differs", f"{desc}: block argument location not cloned")
    # ---- mapper contents (positional correspondence)
    if vm is not None and entry != "op.clone_without_regions":
        for a, b in zip(s_values, c_values):
            if vm.get(a) is not b:
                raise Violation(f"{entry}:value-mapper", f"{desc}: value_mapper lacks/miswires an internal value")
        for a, b in zip(s_blocks, c_blocks):
            if bm.get(a) is not b:
                raise Violation(f"{entry}:block-mapper", f"{desc}: block_mapper lacks/miswires an internal block")
        for k0, v0 in seeded_vm.items():
            if vm.get(k0) is not v0:
                raise Violation(f"{entry}:value-mapper", f"{desc}: pre-seeded value_mapper entry was overwritten")
        for k0, v0 in seeded_bm.items():
            if bm.get(k0) is not v0:
                raise Violation(f"{entry}:block-mapper", f"{desc}: pre-seeded block_mapper entry was overwritten")
        bump("mapper_checks")
    if vm is not None and entry == "op.clone_without_regions":
        for a, b in zip(src.results, copy.results):
            if vm.get(a) is not b:
                raise Violation(f"{entry}:value-mapper", f"{desc}: value_mapper lacks a result")
        bump("mapper_checks")

    # ---- mapper reuse: further clones of the SAME source through the SAME caller-owned mapper pair (what loop unrolling
    # and repeated inlining do). Every later copy must again be a complete, equivalent copy that uses only its own
    # values; the mappers must then describe the LATEST copy; earlier copies, the source and all other roots must not
    # move; pre-seeded caller mappings for outside values must still be honoured.
    copies = [copy]
    if vm is not None and entry != "region.clone":
        for rep in range(1, 1 + case.get("repeats", 2)):
            rdesc = f"{desc} [clone #{rep + 1} through the same mappers]"
            roots = list({id(r): r for r in roots}.values())
            before_all = [canon_ir(r, with_hints=True, normalise=False, with_loc=True) for r in roots]
            bump("mapper_reuse_calls")
            if entry == "op.clone":
                cpy = src.clone(vm, bm, **kw)
            elif entry == "op.clone_without_regions":
                cpy = src.clone_without_regions(vm, bm, **kw)
            else:
                pre2 = region_blocks(dest)
                idx2 = None if index is None else min(index, len(pre2))
                src.clone_into(dest, idx2, vm, bm, **kw)
                now = region_blocks(dest)
                k = len(region_blocks(src))
                eff = len(pre2) if idx2 is None else idx2
                nb = now[eff:eff + k]
                if [id(b) for b in now[:eff] + now[eff + k:]] != [id(b) for b in pre2]:
                    raise Violation("clone_into:block-placement", f"{rdesc}: destination block list is not pre[:i]+new+pre[i:]")
                _in_place_integrity(dest, now, roots, rdesc, entry, C, False)
                cpy = Region()
                remaining = list(now)
                for b in (nb if rep % 2 else list(reversed(nb))):
                    dest.detach_block(b)
                    remaining = [x for x in remaining if x is not b]
                    _block_list_is(dest, remaining, f"{rdesc}: after detaching one cloned block",
                                   "clone_into:detach-cloned-block-corrupts-destination")
                cpy.add_block(nb)
            got = canon_ir(cpy, normalise=False)
            if got != expected:
                raise Violation(f"{entry}:mapper-reuse:copy-not-equivalent",
                                f"{rdesc}: canonical form of the later copy differs from the source: {first_diff(expected, got)}")
            got_h2 = canon_ir(cpy, with_hints=True, normalise=False, with_loc=True)
            if got_h2 != got_h:
                raise Violation(f"{entry}:mapper-reuse:copies-differ", f"{rdesc}: later copy differs from the first copy: "
                                f"{first_diff(got_h, got_h2)}")
            after_all = [canon_ir(r, with_hints=True, normalise=False, with_loc=True) for r in roots]
            for i, (a, b) in enumerate(zip(before_all, after_all)):
                if a != b:
                    which = "source-tree" if roots[i] is built.root else "earlier-copy" if any(roots[i] is c for c in copies) \
                        else "destination-tree" if roots[i] is dest_root else "other-root"
                    raise Violation(f"{entry}:mapper-reuse:{which}-modified", f"{rdesc}: {which} changed: {first_diff(a, b)}")
            roots.append(cpy)
            try:
                check_tree(roots)  # closed world: an earlier copy gaining a use from the later one is a stale/missing use
            except Broken as e:
                raise Violation(f"{entry}:mapper-reuse:irsan", f"{rdesc}: IR sanitizer: {e}")
            k_ops, k_blocks, k_regions, k_values = collect(cpy)
            seen_ids = src_ids | {id(x) for c in copies for part in collect(c) for x in part}
            if any(id(x) in seen_ids for x in k_ops + k_blocks + k_regions + k_values):
                raise Violation(f"{entry}:mapper-reuse:shared-node", f"{rdesc}: later copy shares a node with the source or an earlier copy")
            inner_ids = {id(v) for v in k_values}
            foreign = {id(v) for c in copies for v in collect(c)[3]}
            for o in k_ops:
                for x in o._operands:
                    if id(x) in foreign:
                        raise Violation(f"{entry}:mapper-reuse:uses-earlier-copy", f"{rdesc}: an op of the later copy uses a value of an earlier copy")
            if entry == "op.clone_without_regions":
                pairs_v, pairs_b = list(zip(src.results, cpy.results)), []
            else:
                pairs_v, pairs_b = list(zip(s_values, k_values)), list(zip(s_blocks, k_blocks))
            for a, b in pairs_v:
                if vm.get(a) is not b:
                    raise Violation(f"{entry}:mapper-reuse:value-mapper", f"{rdesc}: value_mapper does not map an internal value to the LATEST copy")
            for a, b in pairs_b:
                if bm.get(a) is not b:
                    raise Violation(f"{entry}:mapper-reuse:block-mapper", f"{rdesc}: block_mapper does not map an internal block to the LATEST copy")
            for k0, v0 in seeded_vm.items():
                if vm.get(k0) is not v0:
                    raise Violation(f"{entry}:mapper-reuse:value-mapper", f"{rdesc}: pre-seeded value_mapper entry was overwritten")
            for k0, v0 in seeded_bm.items():
                if bm.get(k0) is not v0:
                    raise Violation(f"{entry}:mapper-reuse:block-mapper", f"{rdesc}: pre-seeded block_mapper entry was overwritten")
            copies.append(cpy)
            bump("mapper_reuse_copies_equivalent")
        if s_values and len(copies) > 1:
            bump("mapper_reuse_histories_with_internal_values")
        copy = prng.choice(copies)  # the independence history below edits any one of the copies; the others are roots

    # ---- independence: edit the copy, the source must not move; then edit the source, the copy must not move
    erng = random.Random(case["edit_seed"])
    ed = Editor(erng, [copy], [v for v in built.outside], C)
    src_before = canon_ir(src, with_hints=True, normalise=False, with_loc=True)
    others_before = [canon_ir(r, with_hints=True, normalise=False, with_loc=True) for r in roots if r is not copy]
    n_done = 0
    for _ in range(case["n_edits"]):
        if ed.step():
            n_done += 1
    src_after = canon_ir(src, with_hints=True, normalise=False, with_loc=True)
    if src_after != src_before:
        raise Violation(f"{entry}:edit-of-copy-visible-in-source",
                        f"{desc}: editing the copy changed the source: {first_diff(src_before, src_after)}")
    others_after = [canon_ir(r, with_hints=True, normalise=False, with_loc=True) for r in roots if r is not copy]
    if others_after != others_before:
        raise Violation(f"{entry}:edit-of-copy-visible-elsewhere", f"{desc}: editing the copy changed another root")
    keep.append(ed.graveyard)
    try:
        check_tree(roots + ed.detached)
    except Broken as e:
        raise Violation(f"{entry}:irsan-after-copy-edits", f"{desc}: IR sanitizer after editing the copy: {e}")
    copy_before = canon_ir(copy, with_hints=True, normalise=False, with_loc=True)
    ed2 = Editor(erng, [src], [], C)
    for _ in range(case["n_edits"]):
        if ed2.step():
            n_done += 1
    copy_after = canon_ir(copy, with_hints=True, normalise=False, with_loc=True)
    if copy_after != copy_before:
        raise Violation(f"{entry}:edit-of-source-visible-in-copy",
                        f"{desc}: editing the source changed the copy: {first_diff(copy_before, copy_after)}")
    keep.append(ed2.graveyard)
    try:
        check_tree(roots + ed.detached + ed2.detached)
    except Broken as e:
        raise Violation(f"{entry}:irsan-after-source-edits", f"{desc}: IR sanitizer after editing the source: {e}")
    bump("independence_histories")
    bump("edits_applied", n_done)
    if nontrivial:
        bump("nontrivial_cases")
    return nontrivial, shash((src_canon_tokens(src_canon), entry, case["variant"], case.get("dest"), case.get("index")))


def _block_list_is(region, want, desc, key):
    """raw forward walk, raw backward walk, public forward / reversed / indexed iteration must all give `want`"""
    ids = [id(b) for b in want]
    fwd = region_blocks(region)
    bwd = []
    b = region._last_block
    while b is not None and len(bwd) <= len(want) + 2:
        bwd.append(b)
        b = b._prev_block
    pub = list(region.blocks)
    rev = list(reversed(region.blocks))
    views = {"forward links": fwd, "backward links": list(reversed(bwd)), "region.blocks": pub,
             "reversed(region.blocks)": list(reversed(rev))}
    for name, got in views.items():
        if [id(x) for x in got] != ids:
            raise Violation(key, f"{desc}: {name} give {len(got)} block(s), expected {len(want)} (or a different order)")
    if want and (region.blocks[-1] is not want[-1] or region.blocks[0] is not want[0]):
        raise Violation(key, f"{desc}: region.blocks[0] / [-1] are not the first / last block")
    if any(x.parent is not region for x in want):
        raise Violation(key, f"{desc}: a block of the region has a different parent")


def _in_place_integrity(dest, now, roots, desc, entry, C, dest_changed):
    from xv.irsan import Broken, check_tree
    _block_list_is(dest, now, f"{desc}: right after the call", "clone_into:destination-block-links")
    fwd_ops = [id(o) for o in collect(dest)[0]]
    rev_ops = [id(o) for o in dest.walk(reverse=True)]
    if sorted(fwd_ops) != sorted(rev_ops) or len(set(rev_ops)) != len(rev_ops):
        raise Violation("clone_into:destination-block-links", f"{desc}: walk(reverse=True) of the destination visits "
                        f"{len(rev_ops)} ops, the forward walk {len(fwd_ops)}")
    if not dest_changed:
        try:
            check_tree(list({id(r): r for r in roots}.values()))
        except Broken as e:
            raise Violation(f"{entry}:irsan-in-place", f"{desc}: IR sanitizer with the cloned blocks in place: {e}")
    C["in_place_integrity_checks"] = C.get("in_place_integrity_checks", 0) + 1


def src_canon_tokens(c):
    """Canonical form with identity tokens blanked (ids differ between processes)."""
    def f(t):
        return (t[0],) if t[0] in ("ext", "extb") else t
    return t_map(c, None, f)


def _has_forward(s_ops, s_blocks, inner_v):
    """use-before-def in walk order, or a successor to a later-or-same block, inside the cloned part."""
    order = {}
    n = 0
    bpos = {id(b): i for i, b in enumerate(s_blocks)}

    def pos_of_value(v):
        from xdsl.ir import OpResult
        return order.get(id(v.owner)) if isinstance(v, OpResult) else None
    for i, op in enumerate(s_ops):
        order[id(op)] = i
    for i, op in enumerate(s_ops):
        for o in op._operands:
            if id(o) in inner_v:
                from xdsl.ir import OpResult
                if isinstance(o, OpResult):
                    if order.get(id(o.owner), -1) >= i:
                        return True
                else:
                    # block argument of a block that starts after this op in walk order
                    b = o.owner
                    first = b._first_op
                    if first is not None and order.get(id(first), -1) > i and not is_inside(op, b):
                        return True
        for s in op._successors:
            if id(s) in bpos and op.parent is not None and bpos[id(s)] >= bpos.get(id(op.parent), 1 << 30):
                return True
    return False


def _clone_into_bug_model(src, dest, new_blocks, shadow, roots, seeded_vm):
    """Model of the KNOWN wrong behaviour of Region.clone_into: the operand fix-up loop pairs source ops with
    `dest.walk()` - i.e. starting at the destination's FIRST block instead of the first NEW block. Returns True when
    the operands of every op (pre-existing, new and source) are exactly what that loop produces and the result is
    different from the correct one."""
    S = collect(src)[0]
    D = collect(dest)[0]
    if not D or not new_blocks:
        return False
    N = [o for b in new_blocks for o in collect(b)[0]]
    if region_blocks(dest)[0] is new_blocks[0]:
        return False  # the destination walk starts at the new blocks: the loop is aligned, not the known defect
    if len(S) != len(N):
        return False
    # positional value map source -> new
    sv = collect(src)[3]
    nv = [v for b in new_blocks for v in collect(b)[3]]
    if len(sv) != len(nv):
        return False
    vmap = {id(k): v for k, v in seeded_vm.items()}
    vmap.update({id(a): b for a, b in zip(sv, nv)})
    sh = dict(shadow)
    for o in N:
        sh[id(o)] = ()
    for old, new in zip(S, D):
        sh[id(new)] = tuple(vmap.get(id(x), x) for x in sh.get(id(old), ()))
    for r in list(roots) + new_blocks:
        for o in collect(r)[0]:
            want = sh.get(id(o))
            if want is None:
                return False
            if [id(x) for x in o._operands] != [id(x) for x in want]:
                return False
    return True


# ------------------------------------------------------------------------------------------------ apply_to_clone
class InjectedFailure(Exception):
    pass


class CaseTimeout(BaseException):
    """raised from a SIGALRM handler: a pass that does not terminate on some input (not this property) must not
    take the shard with it; BaseException so that `except Exception` inside passes cannot swallow it"""


CASE_SECONDS = 30


def _alarm_handler(signum, frame):
    raise CaseTimeout()


_FP = {"count": 0, "raise_at": None, "active": False, "after": True}


def _install_failpoints():
    """Class-attribute wrappers around the primitive IR mutators every rewrite funnels through. They count calls
    while a pass runs and raise InjectedFailure at the chosen call (before or after performing it)."""
    from xdsl.ir import Block, Region
    from xdsl.ir.core import OpOperands
    if getattr(Block, "_xv_c02_fp", False):
        return

    def wrap(cls, name):
        orig = getattr(cls, name)

        def w(self, *a, **k):
            if not _FP["active"]:
                return orig(self, *a, **k)
            _FP["count"] += 1
            hit = _FP["raise_at"] is not None and _FP["count"] == _FP["raise_at"]
            if hit and not _FP["after"]:
                raise InjectedFailure(f"before {cls.__name__}.{name} #{_FP['count']}")
            r = orig(self, *a, **k)
            if hit:
                raise InjectedFailure(f"after {cls.__name__}.{name} #{_FP['count']}")
            return r
        w.__name__ = name
        w.__qualname__ = f"{cls.__name__}.{name}"
        setattr(cls, name, w)

    for n in ("insert_op_before", "insert_op_after", "add_op", "detach_op", "insert_arg", "erase_arg"):
        wrap(Block, n)
    for n in ("insert_block", "detach_block"):
        wrap(Region, n)
    wrap(OpOperands, "__setitem__")
    Block._xv_c02_fp = True


_PROBE = {}


def probe_passes():
    """Harness-defined passes that edit everything a pass can reach (the clone AND the Context) and optionally raise
    half-way: apply_to_clone must isolate the original from all of it, whatever the registered passes happen to do."""
    if _PROBE:
        return _PROBE["ok"], _PROBE["fail"]
    from dataclasses import dataclass
    from xdsl.dialects.builtin import StringAttr
    from xdsl.dialects.test import TestOp
    from xdsl.ir import Dialect
    from xdsl.irdl import IRDLOperation, irdl_op_definition
    from xdsl.passes import ModulePass

    @irdl_op_definition
    class XvProbeOp(IRDLOperation):
        name = "xvprobe.op"

    @dataclass(frozen=True)
    class XvProbePass(ModulePass):
        name = "xv-probe"
        fail: bool = False

        def apply(self, ctx, op):
            ctx.allow_unregistered = not ctx.allow_unregistered
            ctx.load_op(XvProbeOp)
            ctx.register_dialect("xvprobe", lambda: Dialect("xvprobe", [XvProbeOp], []))
            ops = list(op.walk())
            for i, o in enumerate(ops):
                o.attributes["xv.touched"] = StringAttr(str(i))
                for r in o.results:
                    r.name_hint = "xvprobe"
            op.attributes["xv.root"] = StringAttr("x")
            blk = op.body.block
            blk.add_op(TestOp.create(operands=[r for o in ops[1:3] for r in o.results]))
            if self.fail:
                raise InjectedFailure("probe pass fails after editing the clone and the context")
            for o in reversed(ops[1:]):
                if o.parent is blk and all(r.first_use is None for r in o.results):
                    blk.erase_op(o)
                    break

    _PROBE["ok"], _PROBE["fail"] = XvProbePass(), XvProbePass(fail=True)
    return _PROBE["ok"], _PROBE["fail"]


def ctx_state(ctx):
    return (ctx.allow_unregistered, tuple(sorted(ctx._loaded_dialects)), tuple(sorted(ctx._loaded_ops)),
            tuple(sorted(ctx._loaded_attrs)), tuple(sorted(ctx._registered_dialects)))


def all_passes():
    from xdsl.transforms import get_all_passes
    out = []
    for name, f in sorted(get_all_passes().items()):
        try:
            cls = f()
            inst = cls()
        except Exception:  # noqa: BLE001 - passes that need arguments are not default-constructible
            continue
        out.append((name, inst))
    return out


def run_apply_case(ctx, module, pname, pinst, fail_seed, C, text_for_witness, out=None):
    """apply_to_clone normally, then with an injected failure. Raises Violation."""
    from xv.canon import canon_ir
    from xv.irsan import Broken, check_tree

    def bump(k, n=1):
        C[k] = C.get(k, 0) + n

    before = canon_ir(module, with_hints=True, normalise=False, with_loc=True)
    cstate = ctx_state(ctx)
    m_nodes = collect(module)
    m_ids = {id(x) for part in m_nodes for x in part}
    mutated = False
    for mode in ("normal", "failpoint"):
        if mode == "failpoint":
            n = _FP["count"]
            if n == 0:
                bump("failpoint_skipped_no_mutation")
                break
            frng = random.Random(fail_seed)
            _FP.update(raise_at=frng.randint(1, n), after=frng.random() < 0.7)
        else:
            _FP.update(raise_at=None)
        _FP.update(count=0, active=False)
        raised = None
        res = None
        cls = type(pinst)
        orig_apply = cls.apply

        def apply_with_failpoints(self, c, m, _orig=orig_apply):
            # the failpoints are armed only while the pass body runs (not during the clone itself)
            _FP["active"] = True
            try:
                return _orig(self, c, m)
            finally:
                _FP["active"] = False
        cls.apply = apply_with_failpoints
        import signal
        signal.signal(signal.SIGALRM, _alarm_handler)
        signal.alarm(CASE_SECONDS)
        try:
            res = pinst.apply_to_clone(ctx, module)
        except CaseTimeout:
            raised = TimeoutError()
            bump("apply_timed_out")
            bump("apply_timed_out:" + pname)
        except InjectedFailure as e:
            raised = e
            bump("apply_raised_injected")
        except RecursionError:
            raised = RecursionError()
            bump("apply_raised_own")
        except Exception as e:  # noqa: BLE001 - a pass rejecting its input is not the property
            raised = e
            bump("apply_raised_own")
        finally:
            signal.alarm(0)
            _FP.update(active=False)
            cls.apply = orig_apply
        bump("apply_to_clone_calls")
        if mode == "failpoint" and not isinstance(raised, InjectedFailure):
            bump("failpoint_not_reached_or_swallowed")
        if mode == "normal" and _FP["count"] > 0 and raised is None:
            mutated = True
        tag = "" if raised is None else "-on-raise"
        after = canon_ir(module, with_hints=True, normalise=False, with_loc=True)
        if after != before:
            raise Violation(f"apply_to_clone:original-module-changed{tag}",
                            f"pass {pname} ({mode}): original module changed: {first_diff(before, after)}",
                            {"pass": pname, "mode": mode, "module": text_for_witness})
        if ctx_state(ctx) != cstate:
            raise Violation(f"apply_to_clone:original-context-changed{tag}", f"pass {pname} ({mode}): original Context changed",
                            {"pass": pname, "mode": mode, "module": text_for_witness})
        try:
            check_tree([module])
        except Broken as e:
            raise Violation(f"apply_to_clone:irsan-original{tag}",
                            f"pass {pname} ({mode}): sanitizer on the original (closed world: a foreign user of an original "
                            f"value is a stale reference): {e}", {"pass": pname, "mode": mode, "module": text_for_witness})
        bump("originals_compared_unchanged")
        if res is not None:
            ctx2, m2 = res
            if m2 is module or ctx2 is ctx:
                raise Violation("apply_to_clone:returns-original-object", f"pass {pname}: returned the original module/context",
                                {"pass": pname, "module": text_for_witness})
            if any(id(x) in m_ids for part in collect(m2) for x in part):
                raise Violation("apply_to_clone:result-shares-nodes", f"pass {pname}: result shares node objects with the original",
                                {"pass": pname, "module": text_for_witness})
            for op in collect(m2)[0]:
                for o in op._operands:
                    if id(o) in m_ids:
                        raise Violation("apply_to_clone:result-references-original-value",
                                        f"pass {pname}: an op of the result uses a value of the original",
                                        {"pass": pname, "module": text_for_witness})
            bump("results_checked_disjoint")
            if mode == "normal" and out is not None:
                out["result"] = res
    return mutated


# ------------------------------------------------------------------------------------------------ plan / work
def plan(tier, seed):
    jobs = []
    if tier == "quick":
        n_clone, per, n_pass, pper = 16, 180, 8, 160
    else:
        n_clone, per, n_pass, pper = 64, 1000, 32, 4000
    for i in range(n_clone):
        jobs.append({"kind": "clone", "seed": seed * 100003 + i, "n": per, "tier": tier})
    for i in range(n_pass):
        jobs.append({"kind": "pass", "seed": seed * 100003 + 7919 + i, "n": pper, "shard": i, "nshards": n_pass, "tier": tier,
                     "rand_passes": 2 if tier == "quick" else 12, "chunks_per_file": 2 if tier == "quick" else 50})
    return jobs


def _result():
    return {"evaluations": 0, "nontrivial": [], "samples": [], "counters": {}, "sets": {}, "violations": [], "extra": {}}


def work(job):
    import xv.genir as genir
    res = _result()
    C = res["counters"]
    sets: dict = {}
    vio_per_key: dict = {}

    def viol(v: Violation, witness):
        n = vio_per_key.get(v.key, 0)
        vio_per_key[v.key] = n + 1
        C["violating_cases"] = C.get("violating_cases", 0) + 1
        C["violation:" + v.key] = C.get("violation:" + v.key, 0) + 1
        if n < 3:
            res["violations"].append({"key": v.key, "summary": v.summary, "witness": witness})

    kind = job["kind"]
    if kind in ("clone", "clone1"):
        cases = []
        if kind == "clone1":
            cases = [job["case"]]
        else:
            rng = random.Random(job["seed"])
            for _ in range(job["n"]):
                cases.append(make_case(rng, job.get("tier", "quick")))
        for case in cases:
            res["evaluations"] += 1
            def wit(v):
                w = {"case": {k: case[k] for k in case if k not in ("spec", "dest_spec")},
                     "source_ir": genir.spec_text(case["spec"]), "detail": v.detail,
                     "replay_job": {"kind": "clone1", "case": case}}
                if "dest_spec" in case:
                    w["dest_ir"] = genir.spec_text(case["dest_spec"])
                return w
            soft = []
            try:
                nt, h = run_clone_case(case, C, sets, soft)
            except Violation as v:
                for sv in soft:
                    viol(sv, wit(sv))
                viol(v, wit(v))
                continue
            for sv in soft:
                viol(sv, wit(sv))
            if nt and h:
                res["nontrivial"].append(h)
            if len(res["samples"]) < 1 and nt:
                res["samples"].append({"entry": case["entry"], "variant": FLAG_VARIANTS[case["variant"]],
                                       "dest": case.get("dest"), "index": case.get("index"),
                                       "source_ir": genir.spec_text(case["spec"])[:1500]})
        f = genir.features(cases[-1]["spec"]) if cases else {}
        C["clone_cases"] = len(cases)
    elif kind in ("pass", "pass1"):
        _install_failpoints()
        import shlex
        from collections import OrderedDict
        from xdsl.passes import PassPipeline
        from xdsl.transforms import get_all_passes
        from xv import corpus
        passes = all_passes()
        allp = get_all_passes()
        C["passes_default_constructible"] = len(passes)
        rng = random.Random(job["seed"])

        def pipelines_of(full_text):
            out = []
            for rl in corpus.run_lines(full_text):
                if "xdsl-opt" not in rl:
                    continue
                try:
                    toks = shlex.split(rl.split("|")[0])
                except ValueError:
                    continue
                pipe = None
                for i, t in enumerate(toks):
                    if t in ("-p", "--passes") and i + 1 < len(toks):
                        pipe = toks[i + 1]
                    elif t.startswith("-p=") or t.startswith("--passes="):
                        pipe = t.split("=", 1)[1]
                if pipe and pipe not in out:
                    out.append(pipe)
            return out

        # todo items: (module descriptor, pipeline string | None, [pass names], fail seed)
        todo = []
        if kind == "pass1":
            todo = [(tuple(job["module"]), job.get("pipeline"), job.get("passes", []), job["fail_seed"])]
        else:
            by_file = OrderedDict()
            for rel, idx, text in corpus.chunks():
                by_file.setdefault(rel, []).append(text)
            files = corpus.shard(list(by_file.items()), job["shard"], job["nshards"])
            rng.shuffle(files)
            budget = job["n"]
            ngen = max(4, job["n"] // 10)
            for _ in range(ngen):
                spec = genir.gen_spec(rng, genir.Cfg(max_ops=rng.choice((8, 20, 35)), p_unregistered=0.1))
                names = ["canonicalize", "cse", "dce"] + [n for n, _ in rng.sample(passes, 3)]
                todo.append((("gen", spec), None, names, rng.randrange(1 << 30)))
            for rel, texts in files:
                if len(todo) >= budget:
                    break
                try:
                    full = open(corpus.REPO + "/" + rel, encoding="utf-8").read()
                except OSError:
                    continue
                pipes = pipelines_of(full)
                for text in texts[:job.get("chunks_per_file", 4)]:
                    if len(text) > 20000:
                        continue
                    for pipe in pipes[:2]:
                        todo.append((("corpus", text), pipe, [], rng.randrange(1 << 30)))
                    names = [n for n, _ in rng.sample(passes, job.get("rand_passes", 2))] + [rng.choice(["canonicalize", "cse", "dce"])]
                    todo.append((("corpus", text), None, names, rng.randrange(1 << 30)))
        pmap = dict(passes)
        for m, pipe, names, fseed in todo:
            if m[0] == "corpus":
                got = corpus.parse_verified(m[1])
                if got is None:
                    C["corpus_chunks_not_verifying"] = C.get("corpus_chunks_not_verifying", 0) + 1
                    continue
                ctx, module = got
                wtext = m[1][:4000]
            else:
                ctx = corpus.new_ctx()
                module = genir.build(m[1]).root
                wtext = genir.spec_text(m[1])
            C["modules_used"] = C.get("modules_used", 0) + 1
            chain = []
            if pipe is not None:
                try:
                    chain = [(p.name, p) for p in PassPipeline.parse_spec(allp, pipe).passes]
                except Exception:  # noqa: BLE001 - option syntax this tree does not accept
                    C["pipelines_unparseable"] = C.get("pipelines_unparseable", 0) + 1
                    continue
                C["corpus_pipelines"] = C.get("corpus_pipelines", 0) + 1
            else:
                chain = None
            items = chain if chain is not None else [(n, pmap[n]) for n in names]
            if chain is None:
                ok_p, fail_p = probe_passes()
                items = items + [("xv-probe", ok_p), ("xv-probe{fail}", fail_p)]
                C["probe_pass_cases"] = C.get("probe_pass_cases", 0) + 2
            cur_ctx, cur_mod = ctx, module
            for k, (pname, pinst) in enumerate(items):
                res["evaluations"] += 1
                out = {}
                try:
                    mutated = run_apply_case(cur_ctx, cur_mod, pname, pinst, fseed + k, C, wtext, out)
                except Violation as v:
                    w = dict(v.detail or {})
                    w["pipeline"] = pipe
                    w["position_in_pipeline"] = k
                    if m[0] == "corpus":
                        w["replay_job"] = {"kind": "pass1", "module": list(m), "pipeline": pipe, "passes": names,
                                           "fail_seed": fseed, "seed": 0}
                    viol(v, w)
                    break
                sets.setdefault("passes_applied", set()).add(pname)
                if mutated:
                    sets.setdefault("passes_that_mutated_their_clone", set()).add(pname)
                    C["nontrivial_cases"] = C.get("nontrivial_cases", 0) + 1
                    res["nontrivial"].append(shash((wtext, pipe, k, pname)))
                    if not res["samples"]:
                        res["samples"].append({"pass": pname, "pipeline": pipe, "module": wtext[:800]})
                if chain is not None:
                    # pipelines continue on the RESULT of apply_to_clone (which becomes the next original)
                    if out.get("result") is None:
                        break
                    cur_ctx, cur_mod = out["result"]
    else:
        raise ValueError(kind)
    res["sets"] = {k: sorted(v) for k, v in sets.items()}
    return res


def finish(agg, tier):
    c = agg.counters
    inc = []
    need = {"calls:op.clone": 200, "calls:op.clone_without_regions": 200, "calls:region.clone": 200,
            "calls:region.clone_into": 200, "sit:dest_nonempty": 100, "sit:dest_ops_before_insert_point": 40,
            "sit:src_forward_ref": 300, "sit:src_outside_value_ref": 300, "sit:src_multi_block": 300,
            "sit:preseeded_mapper_hit": 50, "independence_histories": 1000, "edits_applied": 10000,
            "sit:multiblock_src_inserted_before_end_of_nonempty_dest": 60, "in_place_integrity_checks": 400, "in_place_detach_steps": 400, "mapper_reuse_calls": 1500, "mapper_reuse_histories_with_internal_values": 500,
            "apply_to_clone_calls": 1500, "apply_raised_injected": 100, "originals_compared_unchanged": 1500}
    for k, n in need.items():
        if c.get(k, 0) < n:
            inc.append(f"{k} = {c.get(k, 0)} < {n}")
    ci = c.get("calls:region.clone_into", 0)
    if ci and c.get("sit:dest_nonempty", 0) < 0.3 * ci:
        inc.append("fewer than 30% of clone_into cases had a non-empty destination")
    if len(agg.sets.get("passes_that_mutated_their_clone", ())) < 10:
        inc.append("fewer than 10 distinct passes mutated their clone")
    return {"inconclusive": inc, "coverage": {}}
