"""C11 - The greedy rewrite driver reaches a fixpoint and observes every IR change.

The real PatternRewriteWalker / GreedyRewritePatternApplier / PatternRewriter / Worklist / listener plumbing run on
generated modules with a library of 29 terminating patterns; a monitoring pattern wraps the real pattern and produces
one record per invocation {before snapshot, after snapshot, listener events, flag}, which is decided offline against
(A) a per-rewriter-call notification specification and (B) an identity/canon diff of the region (xv/c11_lib.py).
Schedules: the walker's `_worklist` is substituted by a subclass whose pop returns a random present element with
probability p in {0, 0.3, 1}."""
from __future__ import annotations

from xv.harness import shash

ID = "C11"
LEVEL = "exploration"
RULE = ("one case = generated module of tagged test/arith ops (nested regions, multi-block regions, block arguments) x "
        "random subset of 29 terminating pattern kinds (incl. multi-call matches ending in a call that changes nothing, ops built under ImplicitBuilder(rewriter), inserts with rewriter.name_hint set) x one of 8 walker configurations x {bare pattern, applier, "
        "applier+dce, applier+folding, applier+dce+folding} x worklist perturbation p in {0, 0.3, 1} x post_walk_func in "
        "{none, region_dce, mutating test hook, no-op hook} (with unreachable blocks / dead ops and, in 45% of the hook "
        "cases, a pattern set that never matches); non-trivial = >= 3 "
        "mutating pattern invocations by >= 2 distinct acting pattern kinds (the applier's own DCE/folding counts as one "
        "kind); distinct by hash of (pattern set, canonical form of the input module, walker configuration, pop order)")
LEVEL_TEXT = ("Every pattern invocation of every generated driver run is recorded by a monitoring pattern wrapper (before / "
              "after identity snapshots with strong references and ancestor chains, xv.canon forms, events received by the "
              "registered user listener, action flag) and decided offline: stale invocations, missing insertion / removal / "
              "replacement / modification notifications, unset flag, return value, fixpoint by re-application, divergence; "
              "held = no record of the executions produced (with the perturbed pop orders explored) contradicts the property.")
LEVEL_NOTE = ("trusts xv.canon, xv.irsan, the snapshot differ and the notification specification in xv/c11_lib.py, and that "
              "the pattern library terminates (lexicographic measure argued in c11_lib, guarded by an invocation cap)")
TECHNIQUE = ("history + trace specification: monitoring pattern wrapper records every invocation of the real driver; offline "
             "check of listener-event log vs snapshot diff and per-call notification spec; schedule perturbation by "
             "substituting the walker's worklist; fixpoint decided by re-application")
ENGINES = ["harness", "canon", "irsan"]
ASSUMPTIONS = ["the pattern library is terminating for every application order (well-founded lexicographic measure)",
               "listener callbacks registered on PatternRewriteWalker.listener are the 'registered listeners' of the property",
               "attribute objects are immutable (canon_attr memoised by identity inside the worker)",
               "moving an already attached op inside the region (inline_block / inline_region of attached blocks) is not an "
               "insertion; attaching ops of a detached block is"]
JOB_TIMEOUT = {"quick": 600, "thorough": 3600}

SHARDS = {"quick": (32, 50), "thorough": (64, 500)}
ANCHORS = [("PatternRewriteWalker", "rewrite_region"), ("PatternRewriteWalker", "_populate_worklist"),
           ("PatternRewriteWalker", "_process_worklist"), ("PatternRewriteWalker", "_handle_operation_insertion"),
           ("PatternRewriteWalker", "_handle_operation_removal"), ("PatternRewriteWalker", "_handle_operation_modification"),
           ("PatternRewriteWalker", "_handle_operation_replacement"), ("PatternRewriteWalker", "_add_operands_to_worklist"),
           ("GreedyRewritePatternApplier", "match_and_rewrite")]


def plan(tier, seed):
    import os
    n, per = SHARDS[tier]
    per = int(os.environ.get("C11_PER_SHARD", per))  # self-test runs only (smaller mutant runs)
    return [{"kind": "cases", "first": (seed * 1_000_003 + i) * per, "n": per, "size": tier} for i in range(n)]


_anchor_counts: dict[str, int] = {}


def _install_anchor_counters():
    import xdsl.pattern_rewriter as pr
    if _anchor_counts:
        return
    for cls_name, meth in ANCHORS:
        cls = getattr(pr, cls_name)
        orig = getattr(cls, meth)
        name = f"anchor:{cls_name}.{meth}"
        _anchor_counts[name] = 0

        def wrap(orig=orig, name=name):
            def counted(*a, **k):
                _anchor_counts[name] += 1
                return orig(*a, **k)
            counted.__name__ = orig.__name__
            counted.__qualname__ = orig.__qualname__
            return counted
        setattr(cls, meth, wrap())


def work(job):
    _install_anchor_counters()
    from xv import c11_lib as L
    from xv.worker import journal
    res = {"evaluations": 0, "nontrivial": [], "samples": [], "counters": {}, "sets": {}, "violations": [], "extra": {}}
    C = res["counters"]
    orders: set[str] = set()
    per_key: dict[str, int] = {}

    def add(k, v=1):
        C[k] = C.get(k, 0) + v

    seeds = job["seeds"] if job["kind"] == "one" else range(job["first"], job["first"] + job["n"])
    for seed in seeds:
        journal(f"C11 case seed={seed} size={job['size']}")
        r = L.run_case(seed, job["size"])
        res["evaluations"] += 1
        cfg = r["cfg"]
        for k, v in r["stats"].items():
            add(k, v)
        add(f"cfg:reverse={int(cfg['walk_reverse'])},regions_first={int(cfg['walk_regions_first'])},"
            f"recursive={int(cfg['apply_recursively'])}")
        add("mode:" + cfg["mode"])
        add(f"perturb:p={cfg['perturb']}")
        add("hook:" + cfg["hook"])
        if cfg.get("hook_enables_pattern"):
            add("cases_where_only_the_hook_enables_a_pattern")
        if cfg["inert_patterns"]:
            add("cases_without_any_matching_pattern")
        add("perturbed_pops", r["perturbed_pops"])
        add("pops", len(r["pops"]))
        add("initial_ops", r["n0"])
        oh = shash(r["pops"])  # the pop sequence alone (ops numbered by creation order within the case)
        if oh not in orders:
            orders.add(oh)
        kinds = set(r["mutation_kinds"])
        if len(r["mutation_kinds"]) >= 3 and len(kinds) >= 2:
            res["nontrivial"].append(shash((r["names"], r["canon_hash"], sorted(cfg.items()), r["pops"])))
            add("nontrivial_cases")
            if len(res["samples"]) < 2:
                res["samples"].append({"seed": seed, "size": job["size"], "cfg": cfg, "patterns": r["names"],
                                       "initial_ops": r["n0"], "final_ops": r["n_end"], "pop_order": list(r["pops"])[:60],
                                       "acting_kinds": sorted(kinds), "walker_returned": r["ret"],
                                       "module": L.module_text(L.gen_case(seed, job["size"])[0])[:3000]})
        for v in r["violations"]:
            per_key[v["key"]] = per_key.get(v["key"], 0) + 1
            if per_key[v["key"]] > 3:
                continue
            res["violations"].append({
                "key": v["key"], "summary": v["summary"],
                "witness": {"seed": seed, "size": job["size"], "cfg": cfg, "patterns": r["names"], "detail": v["detail"],
                            "module": L.module_text(L.gen_case(seed, job["size"])[0])[:6000],
                            "replay_job": {"kind": "one", "seeds": [seed], "size": job["size"]}}})
    for k, n in per_key.items():
        add("violating_records:" + k, n)
    add("distinct_pop_orders", len(orders))
    res["sets"]["pop_order_hashes_sample"] = sorted(orders)[:40]
    res["sets"]["rewriter_apis_exercised"] = sorted(k[4:] for k in C if k.startswith("api:"))
    res["sets"]["patterns_acted"] = sorted(k[6:] for k in C if k.startswith("acted:"))
    for k, v in _anchor_counts.items():
        C[k] = v
    return res


QUICK_MIN = {
    "invocations": 20000, "mutating_invocations": 3000, "fixpoint_checked_cases": 500, "fixpoint_reapplications": 5000,
    "distinct_pop_orders": 600, "perturbed_pops": 2000, "applier_dce_erasures": 50, "applier_fold_rewrites": 20,
    "nontrivial_cases": 300, "irsan_walks": 800, "ops_newly_attached": 2000, "ops_left_region": 2000,
    "ops_operands_or_types_changed": 2000, "events:ins": 500, "events:rem": 500, "events:mod": 500, "events:rep": 500,
    "events:blk": 50, "api_events_expected": 5000,
}


def finish(agg, tier):
    from xv import c11_lib as L  # names only
    c = agg.counters
    inc = []
    mult = 1 if tier == "quick" else 10
    for k, m in QUICK_MIN.items():
        if c.get(k, 0) < m * mult:
            inc.append(f"monitor {k} reached {c.get(k, 0)} < {m * mult}")
    for cfg in L.WALK_CFGS:
        k = (f"cfg:reverse={int(cfg['walk_reverse'])},regions_first={int(cfg['walk_regions_first'])},"
             f"recursive={int(cfg['apply_recursively'])}")
        if c.get(k, 0) < 100 * mult:
            inc.append(f"walker configuration {k} only {c.get(k, 0)} cases")
    for m in L.MODES:
        if c.get("mode:" + m, 0) < 200 * mult:
            inc.append(f"mode {m} only {c.get('mode:' + m, 0)} cases")
    for p in L.PERTURB:
        if c.get(f"perturb:p={p}", 0) < 300 * mult:
            inc.append(f"perturbation p={p} only {c.get(f'perturb:p={p}', 0)} cases")
    for h in L.HOOKS:
        if c.get("hook:" + h, 0) < 200 * mult:
            inc.append(f"post_walk_func configuration {h} only {c.get('hook:' + h, 0)} cases")
    for k, m in (("hook_calls_mutating", 200), ("hook_only_change_cases", 60), ("fixpoint_hook_reruns", 150),
                 ("hook_blocks_removed", 50), ("hook_ops_removed", 300),
                 ("cases_where_only_the_hook_enables_a_pattern", 40)):
        if c.get(k, 0) < m * mult:
            inc.append(f"monitor {k} reached {c.get(k, 0)} < {m * mult}")
    for t in L.TAILS:
        if c.get("tail:" + t, 0) < 10 * mult:
            inc.append(f"multi-call match ending in no-op call '{t}' only {c.get('tail:' + t, 0)} times")
    for p in L.PATTERNS:
        if c.get("acted:" + p.__name__, 0) < 10 * mult:
            inc.append(f"pattern {p.__name__} acted only {c.get('acted:' + p.__name__, 0)} times")
    for cls_name, meth in ANCHORS:
        k = f"anchor:{cls_name}.{meth}"
        if c.get(k, 0) < 100:
            inc.append(f"{k} entered {c.get(k, 0)} times")
    return {"inconclusive": inc,
            "coverage": {"anchors": {k: v for k, v in sorted(c.items()) if k.startswith("anchor:")},
                         "situations": {"walker_configurations": 8, "applier_modes": len(L.MODES),
                                        "pattern_kinds": len(L.PATTERNS),
                                        "distinct_pop_orders": c.get("distinct_pop_orders", 0)}}}
