"""C15 - The xDSL interpreter computes MLIR semantics for arith / func / cf / scf.

Reference-model differential monitor, two workloads:

* op level: every arith op class that `xv.refsem` models is instantiated with the REAL op class on test
  SSA values and evaluated with `Interpreter.run_op` on exhaustive operand tuples (i1..i4, thorough: ..i8) and
  boundary x boundary + random tuples (i8/i16/i32/i64/index@32/index@64, f16/f32/f64 grids, casts,
  constants).  Integer operands are handed over in the representation the interpreter itself produces
  (signed-canonical python ints; for i1 additionally the `bool`s its own cmpi returns).  A result is converted
  to a bit pattern, range-checked against the signless range of the type (floats: must be representable in
  the type) and compared with `refsem.Machine.run_op` on the same op object.
* program level: generated func/arith/scf/cf programs (scf.if/for/while, cf diamonds / loops / same-target
  cond_br, internal / recursive / external func.call) run with `Interpreter.call_op`; a monitoring subclass
  checks every arith op execution in lock-step against refsem (first-class violations, the wrong value is
  then *repaired* so that the rest of the run still tests control flow, value passing and scoping), the
  final results and the external-call log are compared with `refsem.run`.  A plain, unmonitored Interpreter
  run must be identical to the monitored one whenever the monitor did not intervene.

sys.monitoring PY_START counters on every `impl` of ArithFunctions / ScfFunctions / CfFunctions /
FuncFunctions and on to_signed / to_unsigned / run_op / call_op / run_ssacfg_region show reach.
Ops without an interpretation function (InterpretationError) are counted as unsupported, never violations.
"""
from __future__ import annotations

import itertools
import math
import random
import struct
import sys

from xv import genprog, refsem
from xv.harness import shash
from xv.refsem import POISON, S, U

ID = "C15"
LEVEL = "exploration"
RULE = ("op level: (arith op [+predicate / cast type pair], operand type, sign/class of each operand) cells, reached "
        "by exhaustive operand tuples for i1..i4 (thorough: ..i8) and boundary x boundary + seeded random tuples for "
        "i8/i16/i32/i64/index(32 and 64 bit)/f16/f32/f64; a cell is non-trivial when refsem defines the result "
        "(no poison/UB) and the interpreter has an implementation for the op.  program level: generated "
        "func/arith/scf/cf programs (distinct by text) with boundary-biased argument rows; non-trivial when the "
        "program executes >= 1 scf/cf/func.call op, refsem defines the result for >= 1 row and the interpreter "
        "supports every op it reaches.  distinct = distinct cell hashes + distinct program text hashes")
LEVEL_TEXT = ("Every arith op the interpreter registers is run through the real Interpreter.run_op on exhaustive "
              "(narrow) and boundary/random (wide) operand tuples and generated multi-op programs are run through "
              "Interpreter.call_op; each result is range-checked and compared bit-for-bit with an independent "
              "reference semantics; held = no defined case disagreed on the executions explored.")
LEVEL_NOTE = ("trusts xv.refsem (integers as bit patterns, IEEE-754 through CPython floats + struct rounding), the "
              "xDSL parser/verifier for building the generated programs, CPython arithmetic")
TECHNIQUE = ("reference-model differential monitor: per-op lock-step comparison inside the running interpreter "
             "(check-and-repair), whole-program result + effect-log comparison, sys.monitoring reach counters")
ENGINES = ["harness", "refsem", "trace"]
ASSUMPTIONS = [
    "xv.refsem implements the MLIR/LLVM language semantics of the modelled ops (cross-checked here against the interpreter; disagreements were triaged by hand)",
    "index is 32 or 64 bit (both interleaved inside every worker process, at op level and per program: Interpreter(index_bitwidth=w), refsem.INDEX_W=w)",
    "inputs on which refsem reports poison / UB / unsupported are excluded and counted, not compared",
    "NaN payloads and NaN signs are not compared (any NaN == any NaN)",
]
JOB_TIMEOUT = {"quick": 600, "thorough": 3000}

CMPI_NAMES = refsem.CMPI_NAMES
FLOAT_SPECS = ("f16", "f32", "f64")
KEEP_PER_KEY = 3


# ----------------------------------------------------------------------------------------------- environment
class Env:
    pass


_ENV = []


def _setup():
    """Imports of the code under test + reach counters. Done once per worker process."""
    if not _ENV:
        _ENV.append(_setup_once())
    return _ENV[0]


def _setup_once():
    from xdsl.context import Context
    from xdsl.dialects import arith, builtin, cf, func, scf, test
    from xdsl.dialects.builtin import ModuleOp
    from xdsl.interpreter import (Interpreter, InterpreterFunctions, OpImplResult, impl_external,
                                  register_impls)
    from xdsl.interpreters.arith import ArithFunctions
    from xdsl.interpreters.cf import CfFunctions
    from xdsl.interpreters.func import FuncFunctions
    from xdsl.interpreters.scf import ScfFunctions
    from xdsl.parser import Parser
    from xdsl.utils import comparisons
    from xdsl.utils.exceptions import InterpretationError

    E = Env()
    E.arith, E.builtin, E.cf, E.func, E.scf, E.test = arith, builtin, cf, func, scf, test
    E.ModuleOp, E.Interpreter, E.OpImplResult = ModuleOp, Interpreter, OpImplResult
    E.InterpretationError = InterpretationError
    E.fn_classes = [ArithFunctions, ScfFunctions, CfFunctions, FuncFunctions]
    E.ArithFunctions = ArithFunctions
    E.classes = {c.name: c for c in arith.Arith.operations}
    E.registered = {}
    for fc in E.fn_classes:
        for op_type, _ in fc._impls():
            E.registered[op_type.name] = fc.__name__
    E.Parser = Parser

    def new_ctx():
        ctx = Context()
        for d in (builtin.Builtin, arith.Arith, func.Func, scf.Scf, cf.Cf, test.Test):
            ctx.load_dialect(d)
        return ctx

    E.new_ctx = new_ctx

    # ---- reach counters
    E.reach = {}
    mon = sys.monitoring
    tool = 4
    mon.use_tool_id(tool, "xv-c15")
    codes = {}

    def add(label, fn):
        fn = getattr(fn, "__func__", fn)
        code = fn.__code__
        if code in codes:
            return
        codes[code] = label
        E.reach[label] = 0
        mon.set_local_events(tool, code, mon.events.PY_START)

    def on_start(code, _off):
        E.reach[codes[code]] += 1

    mon.register_callback(tool, mon.events.PY_START, on_start)
    E.impl_labels = []
    for fc in E.fn_classes:
        for op_type, wrapper in list(fc._impls()) + list(fc._callable_impls()):
            inner = wrapper
            for cell in (getattr(wrapper, "__closure__", None) or ()):
                c = cell.cell_contents
                if callable(c) and hasattr(c, "__code__"):
                    inner = c
            label = f"impl:{fc.__name__}.{inner.__name__}[{op_type.name}]"
            add(label, inner)
            E.impl_labels.append(label)
    add("anchor:to_signed", comparisons.to_signed)
    add("anchor:to_unsigned", comparisons.to_unsigned)
    add("anchor:Interpreter.run_op", Interpreter.run_op)
    add("anchor:Interpreter.call_op", Interpreter.call_op)
    add("anchor:Interpreter.run_ssacfg_region", Interpreter.run_ssacfg_region)

    # ---- external function model shared with refsem (same deterministic pure function of the arguments)
    ext_machine = refsem.Machine(ModuleOp([]))
    E.extlog = []

    @register_impls
    class ExtFns(InterpreterFunctions):
        @impl_external("ext_i32")
        def ext_i32(self, interpreter, op, args):
            bits = tuple(_int_bits(a, 32, "ext_i32 argument") for a in args)
            E.extlog.append(("extcall", "ext_i32", bits))
            (r,) = ext_machine.ext("ext_i32", bits, [builtin.i32])
            return (S(r, 32),)

    E.ExtFns = ExtFns

    class MonInterp(Interpreter):
        """Interpreter whose per-op step is observed (and, on a divergence, repaired) by a Monitor."""

        def _run_op(self, op, inputs):
            return self.xv_mon.step(super()._run_op, op, inputs)

    E.MonInterp = MonInterp
    return E


class HarnessError(Exception):
    pass


class CorruptOperand(Exception):
    """An arith op inside a program received a value that is not a legal value of the operand type. All arith
    results are checked (and repaired), the arguments are ours: only value passing / control flow can do this."""


def _int_bits(v, w, what):
    if type(v) not in (int, bool) or not (-(1 << (w - 1)) <= v < (1 << w)):
        raise HarnessError(f"{what}: {v!r} is not an in-range int for width {w}")
    return int(v) & ((1 << w) - 1)


def _spec_of(t):
    n = type(t).__name__
    if n == "IntegerType":
        return f"i{t.width.data}"
    return {"IndexType": "index", "Float16Type": "f16", "Float32Type": "f32", "Float64Type": "f64"}.get(n, n)


def mk_type(E, spec):
    b = E.builtin
    if spec == "index":
        return b.IndexType()
    if spec[0] == "i":
        return b.IntegerType(int(spec[1:]))
    return {"f16": b.Float16Type, "f32": b.Float32Type, "f64": b.Float64Type}[spec]()


def fround_spec(x, spec):
    if spec == "f64" or math.isnan(x) or math.isinf(x):
        return x
    fmt = "<f" if spec == "f32" else "<e"
    try:
        return struct.unpack(fmt, struct.pack(fmt, x))[0]
    except OverflowError:
        return math.copysign(math.inf, x)


def fbits64(x):
    return struct.unpack("<Q", struct.pack("<d", x))[0]


def fkey(x):
    """JSON-able exact description of a float."""
    return "nan" if math.isnan(x) else x.hex()


def jval(v):
    if isinstance(v, float):
        return {"float": fkey(v)}
    if isinstance(v, bool):
        return {"bool": v}
    return v


def unjval(v):
    if isinstance(v, dict):
        if "float" in v:
            return math.nan if v["float"] == "nan" else float.fromhex(v["float"])
        return bool(v["bool"])
    return v


def sign_class(v):
    if isinstance(v, float):
        if math.isnan(v):
            return "nan"
        if math.isinf(v):
            return "+inf" if v > 0 else "-inf"
        if v == 0:
            return "+0" if math.copysign(1.0, v) > 0 else "-0"
        return "pos" if v > 0 else "neg"
    return "neg" if v < 0 else "zero" if v == 0 else "pos"


# ----------------------------------------------------------------------------------------------- the oracle
class Oracle:
    """Per-op reference evaluation + comparison + mechanism classification. One per worker."""

    def __init__(self, E, idxw):
        self.E = E
        self.set_idxw(idxw)
        self.machine = refsem.Machine(E.ModuleOp([]))
        self.noncanon = {}  # (width, python value) -> tag of the interpreter op that produced this non-canonical int

    def set_idxw(self, idxw):
        """Index width of the NEXT evaluations (refsem reads its global at call time). Workers switch back and forth
        between 32 and 64 so that nothing may depend on the first Interpreter created in the process."""
        self.idxw = idxw
        refsem.INDEX_W = idxw

    def note_results(self, op, inputs, got):
        """Remember in-range results that are not signed-canonical (x != to_signed(x)): legal by the property
        (right bit pattern, signless range) but consumers that do not normalise their operands break on them."""
        for g, r in zip(got, op.results):
            if refsem.is_int(r.type) and type(g) in (int, bool):
                w = self.width(r.type)
                if g != S(g, w):
                    tag = op.name
                    if op.name == "arith.shli" and type(g) is int and g == int(inputs[0]) << int(inputs[1]):
                        tag = "shli-unwrapped"
                    self.noncanon.setdefault((w, int(g)), tag)
                    return True
        return False

    def width(self, t):
        return self.idxw if type(t).__name__ == "IndexType" else t.width.data

    def to_ref(self, v, t, what):
        """interpreter value -> refsem value (bit pattern / float)."""
        if refsem.is_int(t):
            return _int_bits(v, self.width(t), what)
        if refsem.is_float(t):
            if type(v) is not float:
                raise HarnessError(f"{what}: {v!r} is not a float")
            return v
        raise refsem.Unsupported(f"operand type {t}")

    def to_interp(self, v, t):
        """refsem value -> the interpreter's representation (signed canonical ints, floats as is)."""
        if refsem.is_int(t):
            return S(v, self.width(t))
        return v

    def ref(self, op, inputs):
        """-> ("ok", [values]) | ("poison",) | ("undef", why) | ("unsup", why)."""
        try:
            env = {o: self.to_ref(v, o.type, f"operand of {op.name}") for o, v in zip(op.operands, inputs)}
            self.machine.run_op(op, env)
        except refsem.Undefined as e:
            return ("undef", str(e))
        except refsem.Unsupported as e:
            return ("unsup", str(e))
        vals = [env[r] for r in op.results]
        if any(v is POISON for v in vals):
            return ("poison",)
        return ("ok", vals)

    def compare(self, op, inputs, got, want):
        """-> None if every result conforms, else (key, summary, repaired values)."""
        if len(got) != len(want):
            raise HarnessError(f"{op.name}: result count {len(got)} vs reference {len(want)}")
        bad = None
        for k, (g, wv, r) in enumerate(zip(got, want, op.results)):
            t = r.type
            kind = None
            if refsem.is_int(t):
                w = self.width(t)
                if type(g) not in (int, bool):
                    kind = "type"
                elif not (-(1 << (w - 1)) <= g < (1 << w)):
                    kind = "range"
                elif (int(g) & ((1 << w) - 1)) != wv:
                    kind = "value"
            elif refsem.is_float(t):
                spec = _spec_of(t)
                if type(g) is not float:
                    kind = "type"
                elif not math.isnan(g) and fround_spec(g, spec) != g:
                    kind = "unrounded"
                elif math.isnan(g) != math.isnan(wv) or (not math.isnan(g) and fbits64(g) != fbits64(wv)):
                    kind = "value"
            else:
                raise HarnessError(f"result type {t} of {op.name} not comparable")
            if kind and bad is None:
                bad = (k, kind, g, wv, t)
        if bad is None:
            return None
        key = self.mechanism(op, inputs, *bad)
        k, kind, g, wv, t = bad
        summary = (f"{op.name}{self.describe(op)} on {_spec_of(op.operands[0].type) if op.operands else _spec_of(t)} "
                   f"operands {tuple(inputs)!r}: interpreter result #{k} = {g!r} ({kind}), reference "
                   f"{self.to_interp(wv, t)!r} (bits {wv if not isinstance(wv, float) else fkey(wv)})")
        return key, summary, tuple(self.to_interp(v, r.type) for v, r in zip(want, op.results))

    def describe(self, op):
        if op.name in ("arith.cmpi", "arith.cmpf"):
            p = op.properties["predicate"].value.data
            return "[" + (CMPI_NAMES[p] if op.name == "arith.cmpi" else genprog.FPRED[p]) + "]"
        if op.results and op.operands and op.results[0].type != op.operands[0].type and op.name != "arith.cmpi":
            return f"[{_spec_of(op.operands[0].type)}->{_spec_of(op.results[0].type)}]"
        return ""

    def mechanism(self, op, inputs, k, kind, g, wv, t):
        """Mechanism key. The three known wrong-behaviour models are confirmed before their key is given."""
        n = op.name
        if n == "arith.cmpi" and kind == "value":
            p = op.properties["predicate"].value.data
            w = self.width(op.operands[0].type)
            a, b = (int(x) & ((1 << w) - 1) for x in inputs)
            canonical = all(x == S(x, w) for x in inputs)
            if (p in (6, 7, 8, 9) and (S(a, w) < 0) != (S(b, w) < 0)
                    and bool(g) == bool(refsem.CMPI[p - 4](a, b, w))):
                return "cmpi-unsigned-uses-signed"
            pyop = [lambda x, y: x == y, lambda x, y: x != y, lambda x, y: x < y, lambda x, y: x <= y,
                    lambda x, y: x > y, lambda x, y: x >= y][p if p < 6 else p - 4]
            if not canonical and w == 1 and bool(g) == bool(pyop(inputs[0], inputs[1])):
                # i1 operands, one of them is the +1 spelling of "true" (the python True that the interpreter's own
                # cmpi/cmpf return, possibly passed through `shrsi x, 0` as int 1) next to the signed-canonical -1 of
                # arith.constant true / addi / ..., and the answer is what comparing the raw python values gives
                return "cmpi-compares-python-representation"
            if canonical:
                return f"wrong-result:arith.cmpi:{CMPI_NAMES[p]}"
        nonc = [(self.width(o.type), int(x)) for x, o in zip(inputs, op.operands)
                if refsem.is_int(o.type) and type(x) in (int, bool) and x != S(x, self.width(o.type))]
        if nonc and kind in ("value", "range"):
            # an operand is an in-range but not signed-canonical value: name the op that produced it
            tags = sorted({self.noncanon.get(k, "unknown-producer") for k in nonc})
            if tags == ["shli-unwrapped"]:
                return "shli-result-not-wrapped"
            return "noncanonical-result-breaks-consumer:" + "+".join(tags)
        if n == "arith.shli" and kind == "range":
            w = self.width(t)
            a, b = inputs
            if type(g) is int and 0 <= (int(b) & ((1 << w) - 1)) < w and g == int(a) << int(b):
                return "shli-result-not-wrapped"
        if kind == "unrounded":
            spec = _spec_of(t)
            gr = fround_spec(g, spec)
            if (math.isnan(gr) and math.isnan(wv)) or (not math.isnan(gr) and not math.isnan(wv)
                                                       and fbits64(gr) == fbits64(wv)):
                return "float-result-not-rounded-to-type"
            return f"float-result-unrounded-and-wrong:{n}"
        tag = {"value": "wrong-result", "range": "result-out-of-range", "type": "result-wrong-python-type"}[kind]
        return f"{tag}:{n}{self.describe(op) if n in ('arith.cmpf',) else ''}"


class Recorder:
    """Collects counters / violations / non-trivial cells of one shard."""

    def __init__(self):
        self.res = {"evaluations": 0, "nontrivial": [], "samples": [], "counters": {}, "sets": {},
                    "violations": [], "extra": {}}
        self.C = self.res["counters"]
        self.cells = set()
        self.per_key = {}

    def inc(self, k, n=1):
        self.C[k] = self.C.get(k, 0) + n

    def add(self, setname, v):
        self.res["sets"].setdefault(setname, [])
        if v not in self.res["sets"][setname]:
            self.res["sets"][setname].append(v)

    def viol(self, key, summary, witness):
        self.inc("violating_cases")
        self.inc("violation:" + key)
        n = self.per_key.get(key, 0)
        self.per_key[key] = n + 1
        if n < KEEP_PER_KEY:
            self.res["violations"].append({"key": key, "summary": summary[:900], "witness": witness})

    def done(self, E):
        self.res["nontrivial"] = sorted(self.cells)
        for k, v in E.reach.items():
            self.C["reach:" + k] = v
        return self.res


# ----------------------------------------------------------------------------------------------- op level
def int_values(w, mode, rng, nrand):
    if mode == "exh":
        return [S(x, w) for x in range(1 << w)]
    b = [0, 1, 2, 3, -1, -2, (1 << (w - 1)) - 1, -(1 << (w - 1)), -(1 << (w - 1)) + 1, (1 << (w - 1)) - 2,
         w - 1, w, w + 1, w - 2, 5, -7, 1 << (w - 2), -(1 << (w - 2)), int("55" * 8, 16), int("AA" * 8, 16), 100, -100]
    out = sorted(set(S(x, w) for x in b))
    return out


def rand_int(rng, w):
    k = rng.random()
    if k < 0.5:
        return S(rng.getrandbits(w), w)
    if k < 0.8:  # random magnitude
        return S(rng.getrandbits(rng.randint(1, w)) * rng.choice([1, -1]), w)
    return S(rng.choice([0, 1, -1, (1 << (w - 1)) - 1, -(1 << (w - 1)), rng.randint(0, w)]), w)


class OpRunner:
    """Runs single ops through Interpreter.run_op and the oracle."""

    def __init__(self, E, R, idxw):
        self.E, self.R = E, R
        self.O = Oracle(E, idxw)
        self.use(idxw)
        self.unsupported = set()
        self.unsup_ids = set()
        self.keep = []  # strong refs to ops

    def use(self, idxw):
        """Switch to a FRESH Interpreter of the given index width (and the oracle with it)."""
        self.idxw = idxw
        self.O.set_idxw(idxw)
        self.interp = self.E.Interpreter(self.E.ModuleOp([]), index_bitwidth=idxw)
        self.interp.register_implementations(self.E.ArithFunctions())
        self.R.inc(f"interpreters_created_index{idxw}")

    def case(self, label, op, inputs, cell, replay):
        """One evaluation. Returns False when the op has no interpretation function (caller may stop)."""
        E, R, O = self.E, self.R, self.O
        if id(op) in self.unsup_ids:
            return False
        R.res["evaluations"] += 1
        ref = O.ref(op, inputs)
        if ref[0] != "ok":
            R.inc({"poison": "excluded_poison_result", "undef": "excluded_ub", "unsup": "excluded_refsem_unsupported"}[ref[0]])
            if ref[0] == "unsup":
                R.add("refsem_unsupported", f"{label}: {ref[1]}"[:120])
            return True
        try:
            got = self.interp.run_op(op, tuple(inputs))
        except E.InterpretationError as e:
            msg = str(e)
            if "Could not find interpretation function" in msg:
                self.unsupported.add(label)
                self.unsup_ids.add(id(op))
                self.keep.append(op)
                R.inc("unsupported_op_evaluations")
                R.add("unsupported_ops", op.name)
                return False
            R.inc("interpretation_error_inside_impl")
            R.add("interpretation_errors", f"{label}: {msg.splitlines()[0]}"[:160])
            return True
        except Exception as e:  # noqa: BLE001 - a python exception on a DEFINED input is the observation
            R.viol(f"crash:{type(e).__name__}:{op.name}",
                   f"{label} on {tuple(inputs)!r}: {type(e).__name__}: {str(e).splitlines()[0] if str(e) else ''}",
                   {"op": label, "operands": [jval(v) for v in inputs], "replay_job": replay})
            return True
        R.inc("op_results_compared")
        R.inc("compared:" + op.name)
        R.cells.add(shash(("cell",) + cell))
        cmpres = O.compare(op, inputs, got, ref[1])
        if cmpres:
            key, summary, _ = cmpres
            R.viol(key, summary, {"op": label, "operands": [jval(v) for v in inputs],
                                  "got": [jval(g) for g in got], "replay_job": replay})
        elif O.note_results(op, inputs, got):
            R.inc("observed_noncanonical_int_results:" + op.name)  # e.g. python bools from cmpi; not a violation
        return True


def build_int_ops(E, tspec, t):
    """[(label, op, arity-kind)] for every refsem-modelled integer op on type t, built with the real classes."""
    i1 = E.builtin.i1
    src = E.test.TestOp(result_types=[t, t, i1])
    a, b, c = src.results
    out = []
    two = sorted(set(refsem.INT_BIN) | set(refsem.INT_DIV) |
                 {"arith.addui_extended", "arith.mului_extended", "arith.mulsi_extended"})
    for name in two:
        cls = E.classes.get(name)
        if cls is None:
            continue
        try:
            out.append((name, cls(a, b), "ab", {"name": name}))
        except ValueError:
            continue  # the op class itself rejects this operand type (e.g. addui_extended on index)
    for p in range(10):
        out.append((f"arith.cmpi[{CMPI_NAMES[p]}]", E.arith.CmpiOp(a, b, p), "ab", {"name": "arith.cmpi", "pred": p}))
    out.append(("arith.select", E.arith.SelectOp(c, a, b), "cab", {"name": "arith.select"}))
    return src, out


def _phases(job, tspec_is_index):
    """[(index width, which half of the work)]: both index widths are interleaved inside ONE process. For index-typed
    work the middle phase runs everything under the second width, the outer phases split the work under the first."""
    o = job.get("order") or [job.get("idxw", 64), 96 - job.get("idxw", 64)]
    if tspec_is_index:
        return [(o[0], "A"), (o[1], "all"), (o[0], "B")]
    return [(o[0], "A"), (o[1], "B")]


def _sel(seq, half):
    h = (len(seq) + 1) // 2
    return seq if half == "all" else seq[:h] if half == "A" else seq[h:]


def work_int(E, R, job):
    tspec, mode = job["tspec"], job["mode"]
    t = mk_type(E, tspec)
    run = OpRunner(E, R, (job.get("order") or [job.get("idxw", 64)])[0])
    src, ops = build_int_ops(E, tspec, t)
    run.keep.append(src)
    want_ops = job.get("ops")
    npairs = 0
    for idxw, half in _phases(job, tspec == "index"):
        run.use(idxw)
        rng = random.Random(job["seed"] * 7 + idxw)
        w = idxw if tspec == "index" else int(tspec[1:])
        vals = int_values(w, mode, rng, 0)
        pairs = list(itertools.product(vals, repeat=2))
        if mode != "exh":
            pairs += [(rand_int(rng, w), rand_int(rng, w)) for _ in range(job["nrand"])]
            # shift-amount / small-divisor rows (the second operand in [0, w]) with random first operand
            pairs += [(rand_int(rng, w), S(rng.randint(0, w), w)) for _ in range(job["nrand"] // 3)]
        part, nparts = job.get("part", [0, 1])
        pairs = pairs[part::nparts]
        npairs = len(pairs)
        tag = tspec + (f"@{idxw}" if tspec == "index" else "")
        for label, op, kind, desc in _sel(ops, half):
            if want_ops and desc["name"] not in want_ops:
                continue
            for (x, y) in pairs:
                rows = [(x, y)] if kind == "ab" else [(-1, x, y), (0, x, y)]
                stop = False
                for row in rows:
                    cell = (label, tag) + tuple(sign_class(v) for v in row)
                    rj = dict(desc, kind="op1", tspec=tspec, idxw=idxw, operands=list(row))
                    if not run.case(f"{label}:{tag}", op, row, cell, rj):
                        stop = True
                        break
                if stop:
                    break
    R.res["samples"].append({"op_level": f"{len(ops)} int ops on {tspec}", "mode": mode, "operand_pairs": npairs,
                             "index_width_phases": [list(x) for x in _phases(job, tspec == "index")]})


def float_grid(spec, rng, nrand):
    base = [0.0, -0.0, 1.0, -1.0, 0.5, 1.5, -2.25, 3.0, 0.1, 1.0 / 3.0, 1e-10, 100.0, -7.0, math.inf, -math.inf, math.nan,
            1e30, -1e30, 1e-30, 65504.0, 65520.0, 16777216.0, 16777217.0, 16777215.0, 9007199254740992.0, 9007199254740994.0,
            5e-324, -5e-324, 2.2250738585072014e-308, 1.7976931348623157e308, -1.7976931348623157e308,
            1.401298464324817e-45, 1.1754943508222875e-38, 3.4028234663852886e38, -3.4028234663852886e38, 3.4028235677973366e38,
            5.960464477539063e-08, 6.103515625e-05, 1.0 + 2.0 ** -52, 1.0 + 2.0 ** -23, 1.0 + 2.0 ** -10, 2.0 ** -24, 2.0 ** -53,
            2147483648.0, -2147483649.0, 4294967296.0, 255.5, -128.5, 9.223372036854775807e18, -0.75]
    vals = []
    for v in base:
        r = fround_spec(v, spec)
        vals.append(r)
    for _ in range(nrand):
        k = rng.random()
        v = rng.uniform(-10, 10) if k < 0.4 else math.ldexp(rng.uniform(-1, 1), rng.randint(-160, 160)) if k < 0.8 \
            else float(rng.randint(-70000, 70000))
        vals.append(fround_spec(v, spec))
    out, seen = [], set()
    for v in vals:
        kk = fkey(v)
        if kk not in seen:
            seen.add(kk)
            out.append(v)
    return out


def work_float(E, R, job):
    spec = job["tspec"]
    rng = random.Random(job["seed"])
    t = mk_type(E, spec)
    run = OpRunner(E, R, 64)
    src = E.test.TestOp(result_types=[t, t, E.builtin.i1])
    run.keep.append(src)
    a, b, c = src.results
    ops = []
    for name in refsem.FLT_BIN:
        if name in E.classes:
            ops.append((name, E.classes[name](a, b), "ab", {"name": name}))
    for p in range(16):
        ops.append((f"arith.cmpf[{genprog.FPRED[p]}]", E.arith.CmpfOp(a, b, p), "ab", {"name": "arith.cmpf", "pred": p}))
    ops.append(("arith.negf", E.arith.NegfOp(a), "a", {"name": "arith.negf"}))
    ops.append(("arith.select", E.arith.SelectOp(c, a, b), "cab", {"name": "arith.select"}))
    grid = float_grid(spec, rng, job["nrand"])
    pairs = list(itertools.product(grid, repeat=2))
    part, nparts = job.get("part", [0, 1])
    pairs = pairs[part::nparts]
    for k, (label, op, kind, desc) in enumerate(ops):
        run.use((64, 32)[k % 2])
        for (x, y) in (pairs if kind != "a" else [(g, None) for g in grid]):
            rows = {"ab": [(x, y)], "a": [(x,)], "cab": [(-1, x, y), (0, x, y)]}[kind]
            stop = False
            for row in rows:
                cell = (label, spec) + tuple(sign_class(v) for v in row)
                rj = dict(desc, kind="op1", tspec=spec, idxw=64, operands=[jval(v) for v in row])
                if not run.case(f"{label}:{spec}", op, row, cell, rj):
                    stop = True
                    break
            if stop:
                break
    R.res["samples"].append({"op_level": f"{len(ops)} float ops on {spec}", "grid_values": len(grid),
                             "first_grid": [fkey(g) for g in grid[:6]]})


INT_CAST_SPECS = ["i1", "i2", "i3", "i4", "i8", "i16", "i32", "i64"]


def work_cast(E, R, job):
    """casts (ext/trunc/index_cast/int<->float/extf/truncf/bitcast) and constants."""
    order = job.get("order") or [job.get("idxw", 64), 96 - job.get("idxw", 64)]
    rng = random.Random(job["seed"])
    run = OpRunner(E, R, order[0])
    A = E.arith
    nrand = job["nrand"]
    for idxw, half in [(order[0], "A"), (order[1], "all"), (order[0], "B")]:
        run.use(idxw)
        _cast_phase(E, R, run, rng, job["which"], idxw, half, nrand)
    R.res["samples"].append({"op_level": f"cast/constant group {job['which']}", "index_width_order": order})


def _cast_phase(E, R, run, rng, which, idxw, half, nrand):
    A = E.arith

    def ivals(spec):
        w = idxw if spec == "index" else int(spec[1:])
        if w <= 4:
            return [S(x, w) for x in range(1 << w)]
        return int_values(w, "bnd", rng, 0) + [rand_int(rng, w) for _ in range(nrand)]

    def go(label, mk, src_spec, dst_spec, values, desc):
        st = mk_type(E, src_spec)
        src = E.test.TestOp(result_types=[st])
        run.keep.append(src)
        op = mk(src.results[0], mk_type(E, dst_spec))
        tag = f"{src_spec}->{dst_spec}" + (f"@{idxw}" if "index" in (src_spec, dst_spec) else "")
        for v in values:
            cell = (label, tag, sign_class(v))
            rj = dict(desc, kind="op1", tspec=src_spec, dst=dst_spec, idxw=idxw, operands=[jval(v)])
            if not run.case(f"{label}[{tag}]", op, (v,), cell, rj):
                break

    if which == "intcast":
        for s_, d_ in (itertools.permutations(INT_CAST_SPECS, 2) if half == "all" else ()):
            ws, wd = int(s_[1:]), int(d_[1:])
            if ws < wd:
                go("arith.extsi", A.ExtSIOp, s_, d_, ivals(s_), {"name": "arith.extsi"})
                go("arith.extui", A.ExtUIOp, s_, d_, ivals(s_), {"name": "arith.extui"})
            else:
                go("arith.trunci", A.TruncIOp, s_, d_, ivals(s_), {"name": "arith.trunci"})
        for s_ in _sel(["i1", "i8", "i16", "i32", "i64"], half):
            go("arith.index_cast", A.IndexCastOp, s_, "index", ivals(s_), {"name": "arith.index_cast"})
            go("arith.index_cast", A.IndexCastOp, "index", s_, ivals("index"), {"name": "arith.index_cast"})
            go("arith.bitcast", A.BitcastOp, s_, s_, ivals(s_)[:8], {"name": "arith.bitcast"})
    elif which == "fpcast":
        for fs in _sel(list(FLOAT_SPECS), half):
            grid = float_grid(fs, rng, nrand)
            for is_ in ["i1", "i8", "i16", "i32", "i64"]:
                go("arith.fptosi", A.FPToSIOp, fs, is_, grid, {"name": "arith.fptosi"})
                go("arith.fptoui", A.FPToUIOp, fs, is_, grid, {"name": "arith.fptoui"})
                go("arith.sitofp", A.SIToFPOp, is_, fs, ivals(is_), {"name": "arith.sitofp"})
                go("arith.uitofp", A.UIToFPOp, is_, fs, ivals(is_), {"name": "arith.uitofp"})
            for fd in FLOAT_SPECS:
                if FLOAT_SPECS.index(fs) < FLOAT_SPECS.index(fd):
                    go("arith.extf", A.ExtFOp, fs, fd, grid, {"name": "arith.extf"})
                    go("arith.truncf", A.TruncFOp, fd, fs, float_grid(fd, rng, nrand), {"name": "arith.truncf"})
            ib = {"f16": "i16", "f32": "i32", "f64": "i64"}[fs]
            go("arith.bitcast", A.BitcastOp, fs, ib, grid, {"name": "arith.bitcast"})
            go("arith.bitcast", A.BitcastOp, ib, fs, ivals(ib), {"name": "arith.bitcast"})
    else:  # constants: the attribute is built from BOTH spellings of a bit pattern (signed and unsigned literal)
        b = E.builtin
        for spec in _sel(["index", "i1", "i2", "i3", "i4", "i8", "i16", "i32", "index", "i64"], half):
            t = mk_type(E, spec)
            w = idxw if spec == "index" else int(spec[1:])
            for v in ivals(spec):
                for lit in sorted({v, v + (1 << w) if v < 0 else v}):
                    try:
                        attr = b.IntegerAttr(lit, t)
                    except Exception:  # noqa: BLE001 - literal rejected by the attribute: not an interpreter input
                        R.inc("constant_literal_rejected_by_IntegerAttr")
                        continue
                    op = A.ConstantOp(attr)
                    run.keep.append(op)
                    cell = ("arith.constant", spec + (f"@{idxw}" if spec == "index" else ""), sign_class(lit),
                            "unsigned-spelling" if lit != v else "signed-spelling")
                    run.case(f"arith.constant:{spec}", op, (), cell,
                             {"kind": "op1", "name": "arith.constant", "tspec": spec, "idxw": idxw, "operands": [], "lit": lit})
        for fs in (FLOAT_SPECS if half == "all" else ()):
            t = mk_type(E, fs)
            for v in float_grid(fs, rng, nrand):
                op = A.ConstantOp(b.FloatAttr(v, t))
                run.keep.append(op)
                run.case(f"arith.constant:{fs}", op, (), ("arith.constant", fs, sign_class(v)),
                         {"kind": "op1", "name": "arith.constant", "tspec": fs, "idxw": idxw, "operands": [], "lit": jval(v)})


def work_chain(E, R, job):
    """Two-op chains: every in-range but NOT signed-canonical value that one of the interpreter's own ops returned
    (python bools from cmpi, unwrapped shifts, ...) is fed to every consumer op in both operand positions."""
    tspec = job["tspec"]
    order = job.get("order") or [job.get("idxw", 64), 96 - job.get("idxw", 64)]
    run = OpRunner(E, R, order[0])
    for idxw in (order if tspec == "index" else order[:1]):
        run.use(idxw)
        _chain_one(E, R, run, job, idxw)


def _chain_one(E, R, run, job, idxw):
    tspec = job["tspec"]
    rng = random.Random(job["seed"] * 5 + idxw)
    t = mk_type(E, tspec)
    w = idxw if tspec == "index" else int(tspec[1:])
    O = run.O
    tag = tspec + (f"@{idxw}" if tspec == "index" else "")
    rj = {k: v for k, v in job.items()}
    vals = int_values(w, "exh" if w <= 4 else "bnd", rng, 0)
    if w > 4:
        vals = sorted(set(vals[:: max(1, len(vals) // 14)] + [S(x, w) for x in (0, 1, -1, 1 << (w - 2), (1 << (w - 1)) - 1, -(1 << (w - 1)))]))
    src, ops = build_int_ops(E, tspec, t)
    run.keep.append(src)
    two = [(label, op, desc) for label, op, kind, desc in ops if kind == "ab"]
    # ---- producers
    before = R.res["evaluations"]
    for label, op, desc in two:
        if len(op.results) != 1 or op.results[0].type != t:
            continue
        for row in itertools.product(vals, repeat=2):
            if not run.case(f"{label}:{tag}", op, row, (label, tag, "chain-producer") + tuple(map(sign_class, row)), rj):
                break
    others = [x for x in ("i8", "i32", "i64", "index") if x != tspec]
    casts_in = []
    for o_ in others:
        if (o_ == "index") != (tspec == "index"):
            wo = idxw if o_ == "index" else int(o_[1:])
            so = E.test.TestOp(result_types=[mk_type(E, o_)])
            run.keep.append(so)
            cop = E.arith.IndexCastOp(so.results[0], t)
            casts_in.append(cop)
            for v in int_values(wo, "bnd", rng, 0) + [rand_int(rng, wo) for _ in range(job.get("nrand", 20))]:
                if not run.case(f"arith.index_cast[{o_}->{tag}]", cop, (v,), ("arith.index_cast", o_, tag, "chain-producer", sign_class(v)), rj):
                    break
    if tspec == "i1":
        s8 = E.test.TestOp(result_types=[E.builtin.i8, E.builtin.i8])
        run.keep.append(s8)
        for p in range(10):
            cop = E.arith.CmpiOp(s8.results[0], s8.results[1], p)
            for row in itertools.product([0, 1, -1, 127, -128], repeat=2):
                run.case(f"arith.cmpi[{CMPI_NAMES[p]}]:i8", cop, row, ("arith.cmpi", p, "i8", "chain-producer") + tuple(map(sign_class, row)), rj)
    R.inc("chain_producer_results_scanned", R.res["evaluations"] - before)
    found = sorted(v for (ww, v) in O.noncanon if ww == w)
    R.inc("chain_noncanonical_values_found", len(found))
    for v in found:
        R.add("chain_noncanonical_producers", f"{O.noncanon[(w, v)]}:{tag}")
    if len(found) > 120:
        found = found[:: len(found) // 120 + 1]
    # the representation the producer really returned (bool for cmpi)
    reps = [True if (w == 1 and v == 1 and O.noncanon[(w, v)] == "arith.cmpi") else v for v in found]
    # ---- consumers (for width-independent types on a fresh interpreter of the OTHER index width)
    if tspec != "index":
        run.use(96 - idxw)
    so = E.test.TestOp(result_types=[t])
    run.keep.append(so)
    casts_out = [(f"arith.index_cast[{tag}->{o_}]", E.arith.IndexCastOp(so.results[0], mk_type(E, o_)))
                 for o_ in others if (o_ == "index") != (tspec == "index")]
    for v in reps:
        for label, op, desc in two:
            for y in vals:
                for row in ((v, y), (y, v)):
                    R.inc("chain_consumer_cases")
                    cell = (label, tag, "chain-consumer", "noncanonical-lhs" if row[0] is v else "noncanonical-rhs", sign_class(y))
                    if not run.case(f"{label}:{tag} (operand produced by {O.noncanon[(w, int(v))]})", op, row, cell, rj):
                        break
        for label, cop in casts_out:
            R.inc("chain_consumer_cases")
            run.case(f"{label} (operand produced by {O.noncanon[(w, int(v))]})", cop, (v,), (label, "chain-consumer"), rj)
    R.res["samples"].append({"chain": tag, "noncanonical_values_fed_to_consumers": [jval(v) for v in reps[:8]],
                             "producers": sorted({O.noncanon[(w, int(v))] for v in reps})})


def work_op1(E, R, job):
    """Replay of one op-level case."""
    idxw = job.get("idxw", 64)
    run = OpRunner(E, R, idxw)
    A, b = E.arith, E.builtin
    name, tspec = job["name"], job["tspec"]
    t = mk_type(E, tspec)
    vals = tuple(unjval(v) for v in job["operands"])
    if name == "arith.constant":
        lit = unjval(job["lit"])
        op = A.ConstantOp(b.FloatAttr(lit, t) if isinstance(lit, float) else b.IntegerAttr(lit, t))
    elif "dst" in job:
        src = E.test.TestOp(result_types=[t])
        run.keep.append(src)
        op = E.classes[name](src.results[0], mk_type(E, job["dst"]))
    else:
        src = E.test.TestOp(result_types=[t, t, b.i1])
        run.keep.append(src)
        x, y, c = src.results
        if name == "arith.cmpi":
            op = A.CmpiOp(x, y, job["pred"])
        elif name == "arith.cmpf":
            op = A.CmpfOp(x, y, job["pred"])
        elif name == "arith.select":
            op = A.SelectOp(c, x, y)
        elif name == "arith.negf":
            op = A.NegfOp(x)
        else:
            op = E.classes[name](x, y)
    run.case(f"{name}:{tspec}", op, vals, (name, tspec, "replay"), job)


# ----------------------------------------------------------------------------------------------- programs
W = genprog.W
SHIFTS = ("shli", "shrui", "shrsi")
FBIN_ALL = ["addf", "subf", "mulf", "divf", "maximumf", "minimumf", "maxnumf", "minnumf"]


class Gen15(genprog.Gen):
    """genprog.Gen with a vocabulary filter and more control flow: scf.while, scf.if/for with 0..2 results,
    typed scf.for, internal / recursive / external calls, multi-block cf bodies. Text only."""

    def __init__(self, rng, vocab=None, safe_shift=0.85, idxw=64, **kw):
        super().__init__(rng, **kw)
        self.vocab = vocab
        self.idxw = idxw      # index constants must fit the index width the program will be run with
        self.forced = []      # helpers that main calls unconditionally (the recursive ones)
        self.features = set()
        self.safe_shift = safe_shift
        self.helpers = []  # (name, argtypes, rettypes)
        self.nlabel = 0
        self.ctl = set()  # names of values defined by control-flow constructs (preferred as function results)
        self.ibin = [o for o in self.bin_ops if self.ok("arith." + o)]
        self.fbin = [o for o in FBIN_ALL if self.ok("arith." + o)]
        self.casts = [o for o in ("extsi", "extui", "trunci", "index_cast") if self.ok("arith." + o)]
        self.fconv = [o for o in ("negf", "sitofp", "uitofp", "fptosi", "extf", "truncf") if self.ok("arith." + o)] \
            if vocab is None else []

    def ok(self, name):
        return self.vocab is None or name in self.vocab

    def const(self, t, lines, ind):
        if t == "index" and self.idxw == 32:
            w = 32
            c = [0, 1, -1, 2, 3, w - 1, w, (1 << (w - 1)) - 1, -(1 << (w - 1)), 5, 7, -8, 100, 65536, -65537]
            v = self.fresh()
            lines.append(f"{ind}{v} = arith.constant {self.rng.choice(c)} : index")
            return v
        return super().const(t, lines, ind)

    def label(self):
        self.nlabel += 1
        return f"bb{self.nlabel}"

    def types(self):
        return self.int_types + (self.flt_types if self.allow_float else [])

    def small_const(self, lines, ind, val, t):
        v = self.fresh()
        if t == "i1":
            lines.append(f"{ind}{v} = arith.constant {'true' if val not in (0, 'false') else 'false'}")
        else:
            lines.append(f"{ind}{v} = arith.constant {val} : {t}")
        return v

    # -- straight-line statements
    def s_ibin(self, env, lines, ind, t):
        rng = self.rng
        if t not in W or not self.ibin:
            return False
        a, b = self.pick(env, t, lines, ind), self.pick(env, t, lines, ind)
        opn = rng.choice(self.ibin)
        if ("div" in opn or "rem" in opn) and t != "i1" and rng.random() < self.safe_div:
            one = self.small_const(lines, ind, 1, t)
            b2 = self.fresh()
            lines.append(f"{ind}{b2} = arith.ori {b}, {one} : {t}")
            b = b2
        if opn in SHIFTS and rng.random() < self.safe_shift and self.ok("arith.andi"):
            m = self.small_const(lines, ind, "false" if t == "i1" else W[t] - 1, t)
            b2 = self.fresh()
            lines.append(f"{ind}{b2} = arith.andi {b}, {m} : {t}")
            b = b2
        v = self.fresh()
        lines.append(f"{ind}{v} = arith.{opn} {a}, {b} : {t}")
        env.append((v, t))
        return True

    def s_fbin(self, env, lines, ind, t):
        if t in W or not self.fbin:
            return False
        a, b = self.pick(env, t, lines, ind), self.pick(env, t, lines, ind)
        v = self.fresh()
        lines.append(f"{ind}{v} = arith.{self.rng.choice(self.fbin)} {a}, {b} : {t}")
        env.append((v, t))
        return True

    def s_cmp(self, env, lines, ind, t):
        a, b = self.pick(env, t, lines, ind), self.pick(env, t, lines, ind)
        v = self.fresh()
        if t in W:
            if not self.ok("arith.cmpi"):
                return False
            lines.append(f"{ind}{v} = arith.cmpi {self.rng.choice(genprog.PRED)}, {a}, {b} : {t}")
        else:
            if not self.ok("arith.cmpf"):
                return False
            lines.append(f"{ind}{v} = arith.cmpf {self.rng.choice(genprog.FPRED)}, {a}, {b} : {t}")
        env.append((v, "i1"))
        return True

    def s_select(self, env, lines, ind, t):
        if not self.ok("arith.select"):
            return False
        c = self.pick(env, "i1", lines, ind)
        a, b = self.pick(env, t, lines, ind), self.pick(env, t, lines, ind)
        v = self.fresh()
        lines.append(f"{ind}{v} = arith.select {c}, {a}, {b} : {t}")
        env.append((v, t))
        return True

    def s_cast(self, env, lines, ind, t):
        rng = self.rng
        if not self.casts:
            return False
        k = rng.choice(self.casts)
        v = self.fresh()
        if k == "index_cast":
            it = rng.choice([x for x in self.int_types if x != "index"] or ["i32"])
            if rng.random() < 0.5:
                a = self.pick(env, it, lines, ind)
                lines.append(f"{ind}{v} = arith.index_cast {a} : {it} to index")
                env.append((v, "index"))
            else:
                a = self.pick(env, "index", lines, ind)
                lines.append(f"{ind}{v} = arith.index_cast {a} : index to {it}")
                env.append((v, it))
            return True
        ints = [x for x in self.int_types if x != "index"]
        pairs = [(s_, d_) for s_ in ints for d_ in ints if W[s_] < W[d_]]
        if not pairs:
            return False
        s_, d_ = rng.choice(pairs)
        if k == "trunci":
            a = self.pick(env, d_, lines, ind)
            lines.append(f"{ind}{v} = arith.trunci {a} : {d_} to {s_}")
            env.append((v, s_))
        else:
            a = self.pick(env, s_, lines, ind)
            lines.append(f"{ind}{v} = arith.{k} {a} : {s_} to {d_}")
            env.append((v, d_))
        return True

    def s_fconv(self, env, lines, ind, t):
        rng = self.rng
        if not self.fconv or not self.allow_float:
            return False
        k = rng.choice(self.fconv)
        v = self.fresh()
        ft = rng.choice(self.flt_types)
        if k == "negf":
            a = self.pick(env, ft, lines, ind)
            lines.append(f"{ind}{v} = arith.negf {a} : {ft}")
            env.append((v, ft))
        elif k in ("sitofp", "uitofp"):
            it = rng.choice(["i8", "i32"])
            a = self.pick(env, it, lines, ind)
            lines.append(f"{ind}{v} = arith.{k} {a} : {it} to {ft}")
            env.append((v, ft))
        elif k == "fptosi":
            a = self.pick(env, ft, lines, ind)
            lines.append(f"{ind}{v} = arith.fptosi {a} : {ft} to i32")
            env.append((v, "i32"))
        elif k == "extf":
            a = self.pick(env, "f32", lines, ind)
            lines.append(f"{ind}{v} = arith.extf {a} : f32 to f64")
            env.append((v, "f64"))
        else:
            a = self.pick(env, "f64", lines, ind)
            lines.append(f"{ind}{v} = arith.truncf {a} : f64 to f32")
            env.append((v, "f32"))
        return True

    # -- structured control flow
    def body(self, env, lines, ind, depth, choices=(0, 1, 2)):
        for _ in range(self.rng.choice(choices)):
            self.stmt(env, lines, ind, depth)

    def s_if(self, env, lines, ind, depth):
        rng = self.rng
        if not self.ok("scf.if") or depth >= 3:
            return False
        c = self.pick(env, "i1", lines, ind)
        k = rng.choice([0, 1, 1, 1, 2])
        ts = [rng.choice(self.types()) for _ in range(k)]
        vs = [self.fresh() for _ in range(k)]
        if k == 0:
            lines.append(f"{ind}scf.if {c} {{")
            self.body(list(env), lines, ind + "  ", depth + 1, (1, 2))
            if rng.random() < 0.5:
                lines.append(f"{ind}}} else {{")
                self.body(list(env), lines, ind + "  ", depth + 1, (1, 2))
            lines.append(f"{ind}}}")
            return True
        lines.append(f"{ind}{', '.join(vs)} = scf.if {c} -> ({', '.join(ts)}) {{")
        for branch in range(2):
            e2 = list(env)
            self.body(e2, lines, ind + "  ", depth + 1)
            ys = [self.pick(e2, t, lines, ind + "  ") for t in ts]
            lines.append(f"{ind}  scf.yield {', '.join(ys)} : {', '.join(ts)}")
            if branch == 0:
                lines.append(f"{ind}}} else {{")
        lines.append(f"{ind}}}")
        env.extend(zip(vs, ts))
        self.ctl.update(vs)
        return True

    def recur(self, e2, lines, ind, acc, t):
        """A value of type t that (usually) depends on the loop-carried value `acc`, so that a loop which does not
        thread its carried values / runs a wrong number of iterations changes the result."""
        rng = self.rng
        if t in W:
            ops = [o for o in ("addi", "addi", "subi", "muli", "xori", "ori", "andi") if self.ok("arith." + o)]
        else:
            ops = [o for o in ("addf", "addf", "subf", "mulf") if self.ok("arith." + o)]
        if not ops or rng.random() < 0.15:
            return self.pick(e2, t, lines, ind)
        x = self.pick(e2, t, lines, ind)
        v = self.fresh()
        a, b = (acc, x) if rng.random() < 0.7 else (x, acc)
        lines.append(f"{ind}{v} = arith.{rng.choice(ops)} {a}, {b} : {t}")
        e2.append((v, t))
        return v

    def loop_bound(self, env, lines, ind, t="index"):
        rng = self.rng
        if t == "index" and rng.random() < 0.35 and self.ok("arith.andi"):
            return self.bounded_idx(env, lines, ind)
        return self.small_const(lines, ind, rng.choice([0, 1, 3, 4, 5, 7]), t)

    def s_for(self, env, lines, ind, depth):
        rng = self.rng
        if not self.ok("scf.for") or depth >= 2 or not self.allow_loops:
            return False
        it = "index" if rng.random() < 0.8 or "i32" not in self.int_types else rng.choice(["i32", "i8", "i64"])
        if it not in self.int_types:
            it = "index"
        lb = self.small_const(lines, ind, rng.choice([0, 0, 1, 2, -1, -3, 6]), it)
        ub = self.loop_bound(env, lines, ind, it)
        st = self.small_const(lines, ind, rng.choice([1, 1, 2, 3, 100]), it)
        k = rng.choice([0, 1, 1, 1, 2])
        ts = [rng.choice(self.types()) for _ in range(k)]
        inits = [self.pick(env, t, lines, ind) for t in ts]
        vs = [self.fresh() for _ in range(k)]
        iv = self.fresh()
        accs = [self.fresh() for _ in range(k)]
        suffix = "" if it == "index" else f" : {it}"
        if k == 0:
            lines.append(f"{ind}scf.for {iv} = {lb} to {ub} step {st}{suffix} {{")
        else:
            ia = ", ".join(f"{a} = {i}" for a, i in zip(accs, inits))
            lines.append(f"{ind}{', '.join(vs)} = scf.for {iv} = {lb} to {ub} step {st} iter_args({ia}) -> ({', '.join(ts)}){suffix} {{")
        e2 = list(env) + [(iv, it)] + list(zip(accs, ts))
        self.body(e2, lines, ind + "  ", depth + 1, (1, 2, 3))
        if k:
            ys = [self.recur(e2, lines, ind + "  ", a, t) for a, t in zip(accs, ts)]
            if k == 2 and ts[0] == ts[1] and rng.random() < 0.3:
                ys.reverse()  # carried values swap places every iteration
            lines.append(f"{ind}  scf.yield {', '.join(ys)} : {', '.join(ts)}")
        lines.append(f"{ind}}}")
        env.extend(zip(vs, ts))
        self.ctl.update(vs)
        return True

    def s_while(self, env, lines, ind, depth):
        rng = self.rng
        if not (self.ok("scf.while") and self.ok("arith.cmpi") and self.ok("arith.addi")) or depth >= 2 \
                or not self.allow_loops or "index" not in self.int_types:
            return False
        n = self.loop_bound(env, lines, ind)
        c0 = self.small_const(lines, ind, 0, "index")
        c1 = self.small_const(lines, ind, rng.choice([1, 1, 2]), "index")
        t = rng.choice(self.types())
        init = self.pick(env, t, lines, ind)
        r_i, r_a = self.fresh(), self.fresh()
        i, acc, i2, acc2 = self.fresh(), self.fresh(), self.fresh(), self.fresh()
        lines.append(f"{ind}{r_i}, {r_a} = scf.while ({i} = {c0}, {acc} = {init}) : (index, {t}) -> (index, {t}) {{")
        e_before = list(env) + [(i, "index"), (acc, t)]
        self.body(e_before, lines, ind + "  ", depth + 1, (0, 1))
        cnd = self.fresh()
        lines.append(f"{ind}  {cnd} = arith.cmpi slt, {i}, {n} : index")
        fwd = self.pick(e_before, t, lines, ind + "  ")
        lines.append(f"{ind}  scf.condition({cnd}) {i}, {fwd} : index, {t}")
        lines.append(f"{ind}}} do {{")
        lines.append(f"{ind}^{self.label()}({i2}: index, {acc2}: {t}):")
        e_after = list(env) + [(i2, "index"), (acc2, t)]
        self.body(e_after, lines, ind + "  ", depth + 1, (1, 2))
        nxt = self.fresh()
        lines.append(f"{ind}  {nxt} = arith.addi {i2}, {c1} : index")
        y = self.recur(e_after, lines, ind + "  ", acc2, t)
        lines.append(f"{ind}  scf.yield {nxt}, {y} : index, {t}")
        lines.append(f"{ind}}}")
        env.extend([(r_i, "index"), (r_a, t)])
        self.ctl.update((r_i, r_a))
        return True

    def s_call(self, env, lines, ind):
        rng = self.rng
        if not self.ok("func.call"):
            return False
        cands = list(self.helpers)
        if self.ext_calls:
            cands.append(("ext_i32", ["i32"], ["i32"]))
        if not cands:
            return False
        return self.emit_call(env, lines, ind, rng.choice(cands))

    def emit_call(self, env, lines, ind, helper, deep=False):
        rng = self.rng
        name, ats, rts = helper
        args = [self.pick(env, t, lines, ind) for t in ats]
        if name.startswith("rec"):
            # bounded recursion depth: a small constant, or a symbolic value masked to [0, 7]
            if deep and rng.random() < 0.7:
                args[0] = self.small_const(lines, ind, rng.choice([2, 3, 4, 5]), "index")
            else:
                m = self.small_const(lines, ind, 7, "index")
                b2 = self.fresh()
                lines.append(f"{ind}{b2} = arith.andi {args[0]}, {m} : index")
                args[0] = b2
        v = self.fresh()
        sig = f"({', '.join(ats)}) -> " + (rts[0] if len(rts) == 1 else f"({', '.join(rts)})")
        if len(rts) == 1:
            lines.append(f"{ind}{v} = func.call @{name}({', '.join(args)}) : {sig}")
            env.append((v, rts[0]))
            self.ctl.add(v)
        else:
            lines.append(f"{ind}{v}:{len(rts)} = func.call @{name}({', '.join(args)}) : {sig}")
            env.extend((f"{v}#{k}", t) for k, t in enumerate(rts))
            self.ctl.update(f"{v}#{k}" for k in range(len(rts)))
        return True

    def stmt(self, env, lines, ind, depth):
        rng = self.rng
        t = rng.choice(self.types())
        r = rng.random()
        done = False
        if r < 0.34:
            done = self.s_ibin(env, lines, ind, t) or self.s_fbin(env, lines, ind, t)
        elif r < 0.40:
            done = self.s_fbin(env, lines, ind, rng.choice(self.flt_types)) if self.allow_float else False
        elif r < 0.50:
            done = self.s_cmp(env, lines, ind, t)
        elif r < 0.55:
            done = self.s_select(env, lines, ind, t)
        elif r < 0.63:
            done = self.s_cast(env, lines, ind, t)
        elif r < 0.66:
            done = self.s_fconv(env, lines, ind, t)
        elif r < 0.75:
            done = self.s_if(env, lines, ind, depth)
        elif r < 0.84:
            done = self.s_for(env, lines, ind, depth)
        elif r < 0.88:
            done = self.s_while(env, lines, ind, depth)
        elif r < 0.95:
            done = self.s_call(env, lines, ind)
        if not done:
            if rng.random() < 0.6 and self.s_ibin(env, lines, ind, rng.choice(self.int_types)):
                return
            env.append((self.const(t, lines, ind), t))

    # -- multi-block bodies
    def cfg_segment(self, env, lines):
        rng = self.rng
        ind = "  "
        kind = rng.choice(["br", "diamond", "diamond", "triangle", "loop", "loop", "same"])
        t = rng.choice(self.types())
        if kind == "br":
            L, x = self.label(), self.fresh()
            a = self.pick(env, t, lines, ind)
            lines.append(f"{ind}cf.br ^{L}({a} : {t})")
            lines.append(f"^{L}({x}: {t}):")
            env.append((x, t))
            self.ctl.add(x)
        elif kind == "same":
            L, x = self.label(), self.fresh()
            c = self.pick(env, "i1", lines, ind)
            a, b = self.pick(env, t, lines, ind), self.pick(env, t, lines, ind)
            lines.append(f"{ind}cf.cond_br {c}, ^{L}({a} : {t}), ^{L}({b} : {t})")
            lines.append(f"^{L}({x}: {t}):")
            env.append((x, t))
            self.ctl.add(x)
        elif kind in ("diamond", "triangle"):
            c = self.pick(env, "i1", lines, ind)
            t2 = rng.choice(self.types())
            LT, LF, LJ = self.label(), self.label(), self.label()
            z = self.fresh()
            if kind == "diamond":
                a, b = self.pick(env, t, lines, ind), self.pick(env, t, lines, ind)
                xt, xf = self.fresh(), self.fresh()
                lines.append(f"{ind}cf.cond_br {c}, ^{LT}({a} : {t}), ^{LF}({b} : {t})")
                for L, x in ((LT, xt), (LF, xf)):
                    lines.append(f"^{L}({x}: {t}):")
                    e2 = list(env) + [(x, t)]
                    self.body(e2, lines, ind, 1, (0, 1, 2))
                    y = self.pick(e2, t2, lines, ind)
                    lines.append(f"{ind}cf.br ^{LJ}({y} : {t2})")
            else:
                a = self.pick(env, t2, lines, ind)
                if rng.random() < 0.5:
                    lines.append(f"{ind}cf.cond_br {c}, ^{LT}, ^{LJ}({a} : {t2})")
                else:
                    lines.append(f"{ind}cf.cond_br {c}, ^{LJ}({a} : {t2}), ^{LT}")
                lines.append(f"^{LT}:")
                e2 = list(env)
                self.body(e2, lines, ind, 1, (1, 2))
                y = self.pick(e2, t2, lines, ind)
                lines.append(f"{ind}cf.br ^{LJ}({y} : {t2})")
            lines.append(f"^{LJ}({z}: {t2}):")
            env.append((z, t2))
            self.ctl.add(z)
        else:  # counted loop through a back edge
            n = self.loop_bound(env, lines, ind)
            c0 = self.small_const(lines, ind, 0, "index")
            c1 = self.small_const(lines, ind, 1, "index")
            init = self.pick(env, t, lines, ind)
            LH, LB, LX = self.label(), self.label(), self.label()
            acc, i, r = self.fresh(), self.fresh(), self.fresh()
            lines.append(f"{ind}cf.br ^{LH}({init}, {c0} : {t}, index)")
            lines.append(f"^{LH}({acc}: {t}, {i}: index):")
            cnd = self.fresh()
            lines.append(f"{ind}{cnd} = arith.cmpi slt, {i}, {n} : index")
            lines.append(f"{ind}cf.cond_br {cnd}, ^{LB}, ^{LX}({acc} : {t})")
            lines.append(f"^{LB}:")
            e2 = list(env) + [(acc, t), (i, "index")]
            self.body(e2, lines, ind, 1, (1, 2, 3))
            i2 = self.fresh()
            lines.append(f"{ind}{i2} = arith.addi {i}, {c1} : index")
            y = self.recur(e2, lines, ind, acc, t)
            lines.append(f"{ind}cf.br ^{LH}({y}, {i2} : {t}, index)")
            lines.append(f"^{LX}({r}: {t}):")
            env.append((r, t))
            self.ctl.add(r)

    def func(self, name="main", nstmts=None, cfg=False, nargs=None):
        rng = self.rng
        nargs = rng.randint(0, 4) if nargs is None else nargs
        args = [(f"%arg{i}", rng.choice(self.types())) for i in range(nargs)]
        env, lines = list(args), []
        n = nstmts or rng.choice([3, 6, 10, 14])
        if cfg and self.ok("cf.br") and self.ok("cf.cond_br"):
            for _ in range(rng.choice([1, 2, 3])):
                self.body(env, lines, "  ", 0, (0, 1, 3))
                self.cfg_segment(env, lines)
            self.body(env, lines, "  ", 0, (0, 1, 2))
        else:
            for _ in range(n):
                self.stmt(env, lines, "  ", 0)
        must = []
        if name == "main":
            for h in self.forced:
                n0 = len(env)
                self.emit_call(env, lines, "  ", h, deep=True)
                must.extend(env[n0:])
        ctl = [x for x in env if x[0] in self.ctl]
        rets = [rng.choice(ctl) if ctl and rng.random() < 0.65 else rng.choice(env)
                for _ in range(rng.randint(1, 4))] if env else []
        rets = must + rets[:max(1, 4 - len(must))]
        if not rets:
            rets = [(self.const("i32", lines, "  "), "i32")]
        sig = ", ".join(f"{a}: {t}" for a, t in args)
        text = (f"func.func @{name}({sig}) -> ({', '.join(t for _, t in rets)}) {{\n" + "\n".join(lines) +
                f"\n  func.return {', '.join(v for v, _ in rets)} : {', '.join(t for _, t in rets)}\n}}\n")
        return text, [t for _, t in args], [t for _, t in rets]

    def rec_helper(self, name):
        """@rec(n, a): a if n <= 0 else rec(n - 1, f(a, n))"""
        t = self.rng.choice([x for x in self.int_types if x not in ("i1", "index")] or ["i32"])
        lines = []
        ind = "    "
        e2 = [("%n", "index"), ("%a", t)]
        self.body(e2, lines, ind, 2, (1, 2))
        b = self.recur(e2, lines, ind, "%a", t)
        text = (f"func.func @{name}(%n: index, %a: {t}) -> {t} {{\n"
                f"  %rc0 = arith.constant 0 : index\n  %rc1 = arith.constant 1 : index\n"
                f"  %stop = arith.cmpi sle, %n, %rc0 : index\n"
                f"  %r = scf.if %stop -> ({t}) {{\n    scf.yield %a : {t}\n  }} else {{\n"
                f"    %n1 = arith.subi %n, %rc1 : index\n" + "\n".join(lines) + "\n"
                f"    %rr = func.call @{name}(%n1, {b}) : (index, {t}) -> {t}\n"
                # the caller's own values are used AFTER the recursive call returned (scope restoration)
                f"    %rn = arith.index_cast %n : index to {t}\n    %rx = arith.addi %rr, %a : {t}\n"
                f"    %rz = arith.addi %rx, %rn : {t}\n    scf.yield %rz : {t}\n  }}\n"
                f"  func.return %r : {t}\n}}\n")
        return text, ["index", t], [t]

    def cf_rec_helper(self, name, callee, t, variant):
        """Multi-block (cf) function that re-enters itself (callee == name) or its partner (mutual recursion) with a
        decreasing counter. Values defined BEFORE the call (entry block arguments, entry block ops, ops of the
        calling block) are used AFTER it, so a frame whose bindings are clobbered by the callee changes the result."""
        rng = self.rng
        ind = "  "
        base, recb, exitb, pre1, pre2, prej = [self.label() for _ in range(6)]
        lines = []
        env = [("%n", "index"), ("%a", t)]
        lines.append(f"{ind}%c0 = arith.constant 0 : index")
        lines.append(f"{ind}%c1 = arith.constant {1 if variant != 'step2' else 2} : index")
        self.body(env, lines, ind, 2, (0, 1, 2))
        p = self.recur(env, lines, ind, "%a", t)
        if variant == "diamond":
            # a diamond in front of the recursion: more executed blocks (= more scopes pushed) per activation
            c, q = self.fresh(), self.fresh()
            lines.append(f"{ind}{c} = arith.cmpi slt, %a, {p} : {t}")
            lines.append(f"{ind}cf.cond_br {c}, ^{pre1}, ^{pre2}")
            lines.append(f"^{pre1}:")
            y1 = self.recur(list(env), lines, ind, p, t)
            lines.append(f"{ind}cf.br ^{prej}({y1} : {t})")
            lines.append(f"^{pre2}:")
            y2 = self.recur(list(env), lines, ind, "%a", t)
            lines.append(f"{ind}cf.br ^{prej}({y2} : {t})")
            lines.append(f"^{prej}({q}: {t}):")
            env.append((q, t))
            p2 = q
        else:
            p2 = p
        lines.append(f"{ind}%stop = arith.cmpi sle, %n, %c0 : index")
        lines.append(f"{ind}cf.cond_br %stop, ^{base}, ^{recb}")
        lines.append(f"^{base}:")
        eb = list(env)
        self.body(eb, lines, ind, 2, (0, 1))
        xb = self.recur(eb, lines, ind, p2, t)
        lines.append(f"{ind}cf.br ^{exitb}({xb} : {t})")
        lines.append(f"^{recb}:")
        er = list(env)
        lines.append(f"{ind}%n1 = arith.subi %n, %c1 : index")
        b = self.recur(er, lines, ind, "%a", t)
        lines.append(f"{ind}%rr = func.call @{callee}(%n1, {b}) : (index, {t}) -> {t}")
        # after the call: values of this activation defined before it
        lines.append(f"{ind}%rn = arith.index_cast %n : index to {t}")
        lines.append(f"{ind}%r1 = arith.addi %rr, %a : {t}")
        lines.append(f"{ind}%r2 = arith.addi %r1, %rn : {t}")
        lines.append(f"{ind}%r3 = arith.xori %r2, {p} : {t}")
        lines.append(f"{ind}%r4 = arith.addi %r3, {b} : {t}")
        lines.append(f"{ind}%r5 = arith.subi %r4, {p2} : {t}")
        if rng.random() < 0.4:
            # a second call in the same activation, its counter read after the first call returned
            lines.append(f"{ind}%n2 = arith.subi %n1, %c1 : index")
            lines.append(f"{ind}%rs = func.call @{callee}(%n2, %r5) : (index, {t}) -> {t}")
            lines.append(f"{ind}%r6 = arith.addi %rs, %a : {t}")
            lines.append(f"{ind}%r7 = arith.xori %r6, %rr : {t}")
            lines.append(f"{ind}cf.br ^{exitb}(%r7 : {t})")
        else:
            lines.append(f"{ind}cf.br ^{exitb}(%r5 : {t})")
        lines.append(f"^{exitb}(%res: {t}):")
        return (f"func.func @{name}(%n: index, %a: {t}) -> {t} {{\n" + "\n".join(lines) +
                f"\n{ind}func.return %res : {t}\n}}\n")

    CF_REC_OPS = ("cf.br", "cf.cond_br", "func.call", "arith.subi", "arith.cmpi", "arith.addi", "arith.xori",
                  "arith.index_cast")

    def program(self, cfg=False, nhelpers=0, rec=False, crec=False, mrec=False):
        parts = [self.prelude()]
        for k in range(nhelpers):
            name = f"h{k}"
            text, ats, rts = self.func(name, nstmts=self.rng.choice([2, 4, 6]), cfg=cfg and self.rng.random() < 0.4,
                                       nargs=self.rng.randint(1, 3))
            parts.append(text)
            self.helpers.append((name, ats, rts))
        if rec and all(self.ok(x) for x in ("scf.if", "func.call", "arith.subi", "arith.cmpi", "arith.addi",
                                            "arith.index_cast")):
            text, ats, rts = self.rec_helper("rec0")
            parts.append(text)
            self.helpers.append(("rec0", ats, rts))
        ints = [x for x in self.int_types if x not in ("i1", "index")] or ["i32"]
        if all(self.ok(x) for x in self.CF_REC_OPS):
            if crec:
                t = self.rng.choice(ints)
                parts.append(self.cf_rec_helper("rec_c0", "rec_c0", t, self.rng.choice(["plain", "diamond", "step2"])))
                h = ("rec_c0", ["index", t], [t])
                self.helpers.append(h)
                self.forced.append(h)
                self.features.add("cf-recursion-direct")
            if mrec:
                t = self.rng.choice(ints)
                parts.append(self.cf_rec_helper("rec_ma", "rec_mb", t, self.rng.choice(["plain", "diamond"])))
                parts.append(self.cf_rec_helper("rec_mb", "rec_ma", t, self.rng.choice(["plain", "diamond"])))
                h = ("rec_ma", ["index", t], [t])
                self.helpers.append(h)
                self.helpers.append(("rec_mb", ["index", t], [t]))
                self.forced.append(h)
                self.features.add("cf-recursion-mutual")
        text, ats, rts = self.func("main", cfg=cfg)
        parts.append(text)
        return "".join(parts), ats, rts


class Monitor:
    """Lock-step per-op oracle inside a running interpreter (see module docstring)."""

    def __init__(self, E, R, O, text):
        self.E, self.R, self.O, self.text = E, R, O, text
        self.interventions = 0
        self.executed = set()
        self.args = None

    def zero(self, t):
        return 0.0 if refsem.is_float(t) else 0

    def step(self, real, op, inputs):
        E, R, O = self.E, self.R, self.O
        name = op.name
        self.executed.add(name)
        if not name.startswith("arith."):
            return real(op, inputs)
        try:
            ref = O.ref(op, inputs)
        except HarnessError as e:
            raise CorruptOperand(str(e)) from None
        if ref[0] in ("poison", "undef"):
            # the reference result is poison / UB: the real impl is not run at all (x << 2**40 would allocate),
            # any value refines poison
            self.interventions += 1
            R.inc("prog_poison_ops_not_executed")
            return E.OpImplResult(tuple(self.zero(r.type) for r in op.results), None)
        if ref[0] == "unsup":
            R.inc("prog_ops_unchecked_refsem_unsupported")
            return real(op, inputs)
        try:
            res = real(op, inputs)
        except E.InterpretationError as e:
            if "Could not find interpretation function" not in str(e):
                raise
            # op without an implementation: counted, then emulated with the reference value so that the rest of
            # the program still exercises control flow / calls
            self.interventions += 1
            R.inc("prog_unsupported_arith_ops_emulated")
            R.add("unsupported_ops", name)
            return E.OpImplResult(tuple(O.to_interp(v, r.type) for v, r in zip(ref[1], op.results)), None)
        except RecursionError:
            raise
        except Exception as e:  # noqa: BLE001
            self.interventions += 1
            R.viol(f"crash:{type(e).__name__}:{name}",
                   f"{name} on {tuple(inputs)!r} inside a program: {type(e).__name__}: {str(e).splitlines()[0] if str(e) else ''}",
                   {"program": self.text, "args": self.args, "op": name, "operands": [jval(v) for v in inputs],
                    "replay_job": {"kind": "prog1", "text": self.text, "args": self.args, "idxw": O.idxw}})
            return E.OpImplResult(tuple(O.to_interp(v, r.type) for v, r in zip(ref[1], op.results)), None)
        R.inc("prog_op_executions_compared")
        R.inc("compared_in_programs:" + name)
        bad = O.compare(op, inputs, res.values, ref[1])
        if bad is None:
            if O.note_results(op, inputs, res.values):
                R.inc("prog_observed_noncanonical_int_results:" + name)
            return res
        key, summary, repaired = bad
        self.interventions += 1
        R.inc("prog_op_results_repaired")
        R.viol(key, "in program: " + summary,
               {"program": self.text, "args": self.args, "op": name + O.describe(op), "operands": [jval(v) for v in inputs],
                "got": [jval(g) for g in res.values],
                "replay_job": {"kind": "prog1", "text": self.text, "args": self.args, "idxw": O.idxw}})
        return E.OpImplResult(repaired, res.terminator_value)


def _vocab(E, supported_only):
    if not supported_only:
        return None
    return set(E.registered) | {"func.call"}


def gen_program(E, rng, profile, force_idxw=None):
    """profile: 'sup' (only ops the interpreter registers) | 'full' (whole refsem vocabulary)."""
    vocab = _vocab(E, profile == "sup")
    allow_float = rng.random() < 0.6
    int_types = genprog.INT_T if rng.random() < 0.8 else rng.choice([["i1", "i32", "index"], ["i8", "i64", "index", "i1"]])
    idxw = 32 if rng.random() < 0.4 else 64
    if force_idxw:
        idxw = force_idxw
    g = Gen15(rng, vocab=vocab, allow_float=allow_float, int_types=int_types, ext_calls=rng.random() < 0.3,
              safe_div=0.85, idxw=idxw)
    cfg = rng.random() < 0.45
    text, ats, rts = g.program(cfg=cfg, nhelpers=rng.choice([0, 0, 1, 2]), rec=rng.random() < 0.2,
                               crec=rng.random() < 0.2, mrec=rng.random() < 0.15)
    return text, ats, rts, idxw, sorted(g.features)


def observed(O, vals, types):
    """interpreter return values -> the observation format of refsem.run, or (None, why)."""
    out = []
    for v, t in zip(vals, types):
        if refsem.is_int(t):
            w = O.width(t)
            if type(v) not in (int, bool) or not (-(1 << (w - 1)) <= v < (1 << w)):
                return None, f"returned value {v!r} outside the signless range of {_spec_of(t)}"
            out.append(int(v) & ((1 << w) - 1))
        else:
            if type(v) is not float:
                return None, f"returned value {v!r} is not a float"
            if not math.isnan(v) and fround_spec(v, _spec_of(t)) != v:
                return None, f"returned value {v!r} not representable in {_spec_of(t)}"
            out.append(refsem.observe(v))
    return out, None


def run_program(E, R, O, text, rows, prog_id, idxw=64):
    """Parse one program, run every argument row through refsem and the (monitored + plain) interpreter."""
    O.set_idxw(idxw)
    module = E.Parser(E.new_ctx(), text).parse_module()
    module.verify()
    main = None
    for o in module.walk():
        if o.name == "func.func" and o.properties["sym_name"].data == "main":
            main = o
    ftype = main.properties["function_type"]
    in_types, out_types = list(ftype.inputs.data), list(ftype.outputs.data)
    R.inc("programs")
    defined_rows = supported_rows = 0
    control_executed = set()
    for row in rows:
        R.res["evaluations"] += 1
        try:
            exp, elog = refsem.run(module, "main", list(row), step_limit=100000)
        except refsem.Undefined:
            R.inc("prog_rows_excluded_ub_or_poison_observed")
            continue
        except refsem.StepLimit:
            R.inc("prog_rows_excluded_steplimit")
            continue
        except refsem.Unsupported as e:
            R.inc("prog_rows_refsem_unsupported")
            R.add("refsem_unsupported", str(e)[:100])
            continue
        defined_rows += 1
        args = tuple(O.to_interp(v, t) for v, t in zip(row, in_types))
        jargs = [jval(a) for a in args]
        mon = Monitor(E, R, O, text)
        mon.args = jargs
        it = E.MonInterp(module, index_bitwidth=idxw)
        it.xv_mon = mon
        for fc in E.fn_classes:
            it.register_implementations(fc())
        it.register_implementations(E.ExtFns())
        del E.extlog[:]
        wit = {"program": text, "args": jargs, "index_bitwidth": idxw,
               "replay_job": {"kind": "prog1", "text": text, "args": jargs, "idxw": idxw}}
        try:
            got = it.call_op("main", args)
        except E.InterpretationError as e:
            msg = str(e).splitlines()[0]
            R.inc("prog_rows_unsupported_by_interpreter")
            R.add("unsupported_ops", msg.rsplit(" ", 1)[-1] if "Could not find" in msg else msg[:80])
            continue
        except RecursionError:
            R.inc("prog_rows_recursion_limit")
            continue
        except HarnessError:
            raise
        except CorruptOperand as e:
            ctl = "+".join(sorted(n for n in mon.executed if not n.startswith("arith.")))
            R.viol(f"program-corrupt-operand:{ctl}", f"value passing delivered an illegal operand: {e}", wit)
            continue
        except Exception as e:  # noqa: BLE001 - python exception on a program with a defined result
            tb = e.__traceback__
            while tb.tb_next is not None:
                tb = tb.tb_next
            where = tb.tb_frame.f_code.co_qualname
            R.viol(f"crash:{type(e).__name__}:{where}",
                   f"call_op raised {type(e).__name__}: {str(e).splitlines()[0] if str(e) else ''} (in {where})", wit)
            continue
        supported_rows += 1
        control_executed |= {n for n in mon.executed if not n.startswith("arith.")}
        R.inc("prog_rows_compared")
        ilog = list(E.extlog)
        obs, why = observed(O, got, out_types)
        ctl = "+".join(sorted(n for n in mon.executed if not n.startswith("arith.")))
        if obs is None:
            R.viol(f"program-result-out-of-range:{ctl}", why, wit)
        elif obs != exp:
            R.viol(f"program-result-mismatch:{ctl}",
                   f"call_op returned {got!r} (observed {obs!r}), reference {exp!r}; every arith op execution was "
                   f"checked/repaired, so value passing / control flow diverged", wit)
        elif ilog != elog:
            R.viol(f"program-extcall-log-mismatch:{ctl}", f"external calls {ilog!r}, reference {elog!r}", wit)
        if mon.interventions == 0:
            # the monitor never intervened: a plain Interpreter must behave identically
            plain = E.Interpreter(module, index_bitwidth=idxw)
            for fc in E.fn_classes:
                plain.register_implementations(fc())
            plain.register_implementations(E.ExtFns())
            del E.extlog[:]
            pg = plain.call_op("main", args)
            if repr(pg) != repr(got) or list(E.extlog) != ilog:
                raise HarnessError(f"monitored run {got!r} differs from plain run {pg!r} without intervention")
            R.inc("prog_rows_confirmed_by_unmonitored_run")
        else:
            R.inc("prog_rows_with_monitor_intervention")
    for n in control_executed:
        R.inc("programs_executing:" + n)
    if defined_rows and supported_rows and control_executed - {"func.return"}:
        R.cells.add(shash(("prog", text)))
        R.inc("programs_nontrivial")
    return defined_rows, supported_rows


def work_prog(E, R, job):
    O = Oracle(E, 64)
    rng = random.Random(job["seed"])
    for k in range(job["n"]):
        profile = "sup" if rng.random() < job.get("p_sup", 0.65) else "full"
        # the first Interpreter of the process alternates between the index widths from shard to shard, the first
        # programs use both widths, later ones pick at random
        first = 32 if job["seed"] % 2 else 64
        text, ats, rts, idxw, feats = gen_program(E, rng, profile, first if k == 0 else 96 - first if k == 1 else None)
        rows = genprog.gen_inputs(rng, ats, job["rows"]) if ats else [[]]
        if idxw == 32:
            rows = [[rng.choice([0, 1, 0xFFFFFFFF, 0x80000000, 0x7FFFFFFF, 2, 3, 5, rng.getrandbits(32), rng.getrandbits(32)])
                     if t == "index" else v for v, t in zip(row, ats)] for row in rows]
        R.inc("programs_profile_" + profile)
        R.inc(f"programs_index{idxw}")
        d, sup = run_program(E, R, O, text, rows, (job["seed"], k), idxw)
        for f in feats:
            R.inc("programs_with:" + f)
            if d and sup:
                R.inc("programs_compared_with:" + f)
        if k < 1:
            R.res["samples"].append({"program": text, "first_args": [jval(x) for x in rows[0]]})


def work_prog1(E, R, job):
    O = Oracle(E, 64)
    text = job["text"]
    module = E.Parser(E.new_ctx(), text).parse_module()
    main = [o for o in module.walk() if o.name == "func.func" and o.properties["sym_name"].data == "main"][0]
    in_types = list(main.properties["function_type"].inputs.data)
    O.set_idxw(job.get("idxw", 64))
    row = [O.to_ref(unjval(a), t, "replay arg") for a, t in zip(job["args"], in_types)]
    run_program(E, R, O, text, [row], ("replay", 0), job.get("idxw", 64))


# ----------------------------------------------------------------------------------------------- plan / work
def plan(tier, seed):
    q = tier == "quick"
    jobs = []
    base = seed * 100003
    # exhaustive narrow widths
    for w in ([1, 2, 3, 4] if q else [1, 2, 3, 4, 5, 6]):
        jobs.append({"kind": "int", "tspec": f"i{w}", "mode": "exh", "seed": base + w})
    if not q:
        for w, nparts in ((7, 4), (8, 16)):
            for p in range(nparts):
                jobs.append({"kind": "int", "tspec": f"i{w}", "mode": "exh", "seed": base + w, "part": [p, nparts]})
    nrand = 400 if q else 6000
    for k, (spec, idxw) in enumerate([("i8", 64), ("i16", 64), ("i32", 64), ("i64", 64), ("index", 32), ("index", 64),
                                      ("i5", 64), ("i7", 64), ("i13", 64), ("i33", 64), ("i128", 64)]):
        if q and spec in ("i5",):
            continue
        nparts = 1 if q else 4
        for p in range(nparts):
            jobs.append({"kind": "int", "tspec": spec, "idxw": idxw, "mode": "bnd", "nrand": nrand,
                         "seed": base + 50 + k, "part": [p, nparts]})
    for k, spec in enumerate(FLOAT_SPECS):
        nparts = 1 if q else 4
        for p in range(nparts):
            jobs.append({"kind": "float", "tspec": spec, "nrand": 12 if q else 60, "seed": base + 80 + k, "part": [p, nparts]})
    for k, (which, idxw) in enumerate([("intcast", 64), ("intcast", 32), ("fpcast", 64), ("const", 64), ("const", 32)]):
        jobs.append({"kind": "cast", "which": which, "idxw": idxw, "nrand": 12 if q else 150, "seed": base + 90 + k})
    for k, (spec, idxw) in enumerate([("i1", 64), ("i2", 64), ("i4", 64), ("i8", 64), ("i32", 64), ("i64", 64),
                                      ("index", 32), ("index", 64)]):
        jobs.append({"kind": "chain", "tspec": spec, "idxw": idxw, "seed": base + 70 + k, "nrand": 20 if q else 200})
    nprog_jobs, nper, rows = (24, 22, 6) if q else (64, 500, 8)
    for j in range(nprog_jobs):
        jobs.append({"kind": "prog", "seed": base + 1000 + j, "n": nper, "rows": rows})
    return jobs


def work(job):
    E = _setup()
    R = Recorder()
    kind = job["kind"]
    {"int": work_int, "float": work_float, "cast": work_cast, "op1": work_op1, "prog": work_prog,
     "prog1": work_prog1, "chain": work_chain}[kind](E, R, job)
    R.res["sets"].setdefault("registered_impls", sorted(f"{v}:{k}" for k, v in E.registered.items()))
    R.res["sets"].setdefault("impl_labels", list(E.impl_labels))
    R.inc("shards_" + kind)
    return R.done(E)


def finish(agg, tier):
    inc = []
    c = agg.counters
    q = tier == "quick"
    labels = sorted(agg.sets.get("impl_labels", ()))
    if not labels:
        inc.append("no impl function of the interpreter function classes was found")
    never = [lab for lab in labels if c.get("reach:" + lab, 0) < (200 if q else 2000)]
    if never:
        inc.append("impl functions reached too rarely: " + ", ".join(never[:8]))
    for anchor, need in (("anchor:to_signed", 10000), ("anchor:Interpreter.run_op", 10000),
                         ("anchor:Interpreter.call_op", 500), ("anchor:Interpreter.run_ssacfg_region", 1000)):
        if c.get("reach:" + anchor, 0) < need:
            inc.append(f"{anchor} entered only {c.get('reach:' + anchor, 0)} times")
    for k, need in (("op_results_compared", 40000 if q else 1000000), ("prog_rows_compared", 800 if q else 25000),
                    ("programs_nontrivial", 150 if q else 5000), ("prog_op_executions_compared", 5000),
                    ("prog_rows_confirmed_by_unmonitored_run", 50)):
        if c.get(k, 0) < need:
            inc.append(f"{k} = {c.get(k, 0)} < {need}")
    for k, need in (("programs_compared_with:cf-recursion-direct", 15 if q else 1000),
                    ("programs_compared_with:cf-recursion-mutual", 12 if q else 800),
                    ("programs_index32", 60 if q else 5000), ("programs_index64", 60 if q else 5000),
                    ("interpreters_created_index32", 40), ("interpreters_created_index64", 40)):
        if c.get(k, 0) < need:
            inc.append(f"{k} = {c.get(k, 0)} < {need}")
    for opn in ("scf.for", "scf.if", "scf.yield", "cf.br", "cf.cond_br", "func.call", "func.return"):
        if c.get("programs_executing:" + opn, 0) < (20 if q else 500):
            inc.append(f"only {c.get('programs_executing:' + opn, 0)} programs executed {opn}")
    cov = {
        "exhaustive_widths": [1, 2, 3, 4] if q else [1, 2, 3, 4, 5, 6, 7, 8],
        "impl_reach": {lab: c.get("reach:" + lab, 0) for lab in labels},
        "unsupported_ops_counted": sorted(agg.sets.get("unsupported_ops", ())),
        "excluded": {k: v for k, v in c.items() if k.startswith("excluded_") or "excluded" in k},
    }
    return {"inconclusive": inc, "coverage": cov}
