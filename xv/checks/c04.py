"""C04 - Generic textual form round-trips every valid IR.

Reference-model differential monitor: every verified module is printed in the generic format, parsed in a
fresh Context (fresh resource table) and the result compared with the original through the independent
canonical form xv.canon (values/wiring/types/attributes/properties/blocks; default-valued property == absent,
inherent attribute in the dictionary == the property); the parsed IR is printed again and the text compared;
the same IR is printed twice and its clone once (determinism); a PYTHONHASHSEED sweep re-prints the same
cases in processes with other hash seeds.

Workloads: the verified .mlir corpus, generated generic IR with arbitrary name hints accepted by the
`name_hint` setter (xv.c04_gen), outputs of registered passes applied to corpus modules.

Mechanism keys: failures that depend on a class of name hints are attributed EXPERIMENTALLY - the hints of one
class (non-ASCII \\w characters / a retained `_<digits>` suffix / a block hint that is a default block name /
any block hint) are replaced by neutral ones and the case is re-run; the minimal set of classes whose
neutralisation removes the symptom names the mechanism (`hint:<class>:<symptom>`). Everything else is keyed by
the first differing (op name, component, attribute key, gained|dropped|changed) or by the parser production /
innermost raising function."""
from __future__ import annotations

import hashlib
import itertools
import random
import re
import signal
import struct

from xv.harness import shash

ID = "C04"
LEVEL = "exploration"
RULE = ("every parseable+verifying chunk of tests/**/*.mlir and docs/**/*.mlir; modules generated through the public "
        "constructors (test dialect / unregistered / nested IsolatedFromAbove module+func / multi-block CFG regions / "
        "forward references / registered ops with default-valued properties / inherent attributes placed in the "
        "attribute dictionary) whose values and blocks receive hints drawn from the regex the name_hint setter accepts "
        "(near-collisions a, a_1, a_1_2, bb3, punctuation $.-, digits, non-ASCII \\w); outputs of registered passes on "
        "corpus modules. A case is non-trivial if the module has >=1 hinted value or block, or >=2 regions, or a "
        "non-builtin attribute/type; distinct by hash of the canonical form incl. hints")
LEVEL_TEXT = ("Each explored module is printed in generic form, re-parsed in a fresh context and compared with the original "
              "through an independent canonical form, re-printed and compared textually, printed twice / cloned / printed under "
              "other hash seeds; held = no explored module showed a re-parse failure, a canonical difference, a text "
              "difference or a non-deterministic print, other than the listed known findings.")
LEVEL_NOTE = ("trusts xv.canon (+ xv.c04_rt resource resolution), the corpus harvester and CPython; the parser is used to "
              "obtain corpus IR in the first place, so defects that make parse(text) wrong in a self-consistent way are out of reach")
TECHNIQUE = "reference-model differential monitor (independent canonical form before printing vs after re-parsing) + text fixpoint + determinism sweep"
ENGINES = ["harness", "canon", "corpus"]
ASSUMPTIONS = ["xv.canon captures exactly the equivalence of the property statement (two normalisations)",
               "emptying the process-global dialect resource table before a parse models a parse in a fresh process",
               "the generator only builds IR that Operation.verify accepts (checked per case; rejected ones are counted and skipped)"]
JOB_TIMEOUT = {"quick": 900, "thorough": 7200}

HINT_CLASSES = ["non-ascii", "stripped-to-empty", "suffix-retained", "block-default-name", "block-hint", "non-ascii-attr-key"]


# --------------------------------------------------------------------------- helpers
def _thash(t: str) -> str:
    return hashlib.sha1(t.encode("utf-8", "backslashreplace")).hexdigest()[:12]


def _nontrivial(m):
    from xdsl.dialects.builtin import BuiltinAttribute
    from xv.c04_gen import named_objects
    nreg = 0
    nonbuiltin = False
    for op in m.walk():
        nreg += len(op.regions)
        for a in itertools.chain(op.properties.values(), op.attributes.values(), (r.type for r in op.results)):
            if not isinstance(a, BuiltinAttribute):
                nonbuiltin = True
    hinted = any(o.name_hint for o, _ in named_objects(m))
    return hinted or nreg >= 2 or nonbuiltin


def out_of_scope_operand(m):
    """First operand whose definition is not in a block that encloses (or is a sibling block in a region that encloses)
    its user - IR no text could denote; xDSL's verifier does not check it. Returns a description or None."""
    from xdsl.ir import Block, OpResult
    for op in m.walk():
        for v in op.operands:
            owner = v.owner
            dblk = owner.parent if not isinstance(owner, Block) else owner
            if dblk is None:
                return f"{op.name} uses a value whose defining op is detached"
            dreg = dblk.parent
            blk = op.parent
            ok = False
            while blk is not None:
                if blk is dblk or blk.parent is dreg:
                    ok = True
                    break
                reg = blk.parent
                par = reg.parent if reg is not None else None
                blk = par.parent if par is not None else None
            if not ok:
                return f"{op.name} uses a value defined in a region that does not enclose it"
    return None


def _float_hex_model(a_attr, b_attr) -> bool:
    """Known wrong behaviour (shared with C06): a dense float element the printer wrote as a hex literal
    (0x<bits>) is read back as the INTEGER 0x<bits> converted to float. True iff every element of b equals the
    element of a bit-for-bit or equals float(int(bits of a))."""
    from xdsl.dialects.builtin import DenseIntOrFPElementsAttr, Float32Type, Float64Type
    if not (isinstance(a_attr, DenseIntOrFPElementsAttr) and isinstance(b_attr, DenseIntOrFPElementsAttr)):
        return False
    et = a_attr.get_element_type()
    if isinstance(et, Float32Type):
        fmt, ifmt = "<f", "<I"
    elif isinstance(et, Float64Type):
        fmt, ifmt = "<d", "<Q"
    else:
        return False
    try:
        va, vb = list(a_attr.get_values()), list(b_attr.get_values())
    except Exception:  # noqa: BLE001 - classifier only
        return False
    if len(va) != len(vb) or not va:
        return False
    changed = 0
    for x, y in zip(va, vb):
        bx = struct.unpack(ifmt, struct.pack(fmt, x))[0]
        by = struct.unpack(ifmt, struct.pack(fmt, y))[0]
        if bx == by:
            continue
        try:
            want = struct.unpack(ifmt, struct.pack(fmt, float(bx)))[0]
        except (OverflowError, struct.error):
            return False
        if by != want:
            return False
        changed += 1
    return changed > 0


def diff_key(form: str, d: dict, ma=None, mb=None) -> str:
    """Mechanism key of a canonical difference."""
    comp = d.get("component")
    if comp in ("properties", "attributes") and d.get("detail") == "changed" and ma is not None and mb is not None:
        # locate the attribute pair for model-based classification
        k = d.get("key")
        for a, b in zip(ma.walk(), mb.walk()):
            x = a.properties.get(k, a.attributes.get(k))
            y = b.properties.get(k, b.attributes.get(k))
            if x is not None and y is not None and str(x)[:200] == d.get("a") and str(y)[:200] == d.get("b"):
                if _float_hex_model(x, y):
                    return "dense-float-hex-literal-reparsed-as-integer"
                break
    key = f"{form}:{d.get('op')}:{comp}"
    if "key" in d:
        key += f":{d['key']}:{d.get('detail')}"
    return key


def symptom_key(form: str, s: dict, ma=None, mb=None) -> str:
    sym = s["symptom"]
    if sym == "canon-differs":
        return diff_key(form, s, ma, mb)
    if sym in ("print-crash", "reparse-crash", "clone-print-crash", "ir-unreadable-before-print"):
        return f"{form}:{sym}:{s.get('exc')}:{s.get('site')}"
    if sym == "reparse-fail":
        return f"{form}:reparse-fail:{s.get('site')}:{_msg_class(s.get('msg', ''))}"
    return f"{form}:{sym}"


def _msg_class(msg: str) -> str:
    """Message with quoted / numeric / identifier payloads removed (never a random value in a key)."""
    m = re.sub(r"'[^']*'|\"[^\"]*\"|`[^`]*`", "_", msg)
    m = re.sub(r"[%^@#!][\w$.\-]+", "_", m)
    m = re.sub(r"\d+", "N", m)
    return re.sub(r"\s+", " ", m).strip()[:60]


# --------------------------------------------------------------------------- experimental attribution
def _sig(symptoms):
    """Name-independent signature of a symptom list (never contains printed names or positions)."""
    out = []
    for s in symptoms:
        if s["symptom"] == "canon-differs":
            out.append(("canon-differs", s.get("op"), s.get("component"), s.get("key"), s.get("detail") if "key" in s else None))
        else:
            out.append((s["symptom"], s.get("exc"), s.get("site"), _msg_class(s.get("msg", ""))))
    return sorted(out, key=repr)


def _classes_present(m):
    from xv.c04_gen import hint_classes, named_objects
    objs = named_objects(m)
    present = [c for c in HINT_CLASSES[:-1] if any(c in hint_classes(o._name, isb) for o, isb in objs)]
    if any(not k.isascii() for op in m.walk() for k in list(op.attributes) + list(op.properties)):
        present.append("non-ascii-attr-key")
    return present, objs


def _neutralise(m, objs, classes):
    """Apply the neutralisers of `classes` in place; returns an undo function."""
    from xv.c04_gen import hint_classes, sanitise_hint
    saved_names = [(o, o._name) for o, _ in objs]
    saved_dicts = []
    for o, isb in objs:
        raw = o._name
        for c in classes:
            if c != "non-ascii-attr-key" and raw is not None and c in hint_classes(raw, isb):
                raw = sanitise_hint(raw, c, isb)
        o._name = raw
    if "non-ascii-attr-key" in classes:
        for op in m.walk():
            for d in (op.attributes, op.properties):
                if any(not k.isascii() for k in d):
                    saved_dicts.append((d, dict(d)))
                    items = [(k if k.isascii() else "xv_" + k.encode("ascii", "backslashreplace").decode().replace("\\", "_"), v)
                             for k, v in d.items()]
                    d.clear()
                    d.update(items)

    def undo():
        for o, raw in saved_names:
            o._name = raw
        for d, old in saved_dicts:
            d.clear()
            d.update(old)
    return undo


def attribute_symptoms(m, ctx, first, generic=True, runner=None):
    """Peel the causes of a failing case one class at a time.

    Starting from the observed symptom list `first`, look for the smallest set of still-active classes whose
    neutralisation CHANGES the name-independent symptom signature; the symptoms that disappeared are attributed to
    those classes; the neutralisation is kept and the search repeats on what remains.  Returns
    ([(symptom dict, [classes] or None)], classes present, number of extra round trips)."""
    from xv.c04_rt import roundtrip
    run = runner or (lambda: roundtrip(m, ctx, generic)["symptoms"])
    present, objs = _classes_present(m)
    out = []
    active: list[str] = []
    current = first
    extra = 0
    while current:
        remaining = [c for c in present if c not in active]
        progressed = False
        cur_sig = _sig(current)
        # single classes first, then all remaining ones together (two classes hiding behind ONE name-independent
        # signature is the only case that needs the joint run)
        combos = [(c,) for c in remaining] + ([tuple(remaining)] if len(remaining) > 1 else [])
        for _size in (1,):
            for combo in combos:
                undo = _neutralise(m, objs, active + list(combo))
                try:
                    nxt = run()
                finally:
                    undo()
                extra += 1
                nxt_sig = _sig(nxt)
                if nxt_sig != cur_sig:
                    gone = [s for s in current if _sig([s])[0] not in nxt_sig]
                    if not gone:  # signature changed only by gaining symptoms: not a cure, ignore
                        continue
                    if len(combo) > 1:
                        # joint neutralisation: keep only the classes that are NECESSARY for this change
                        need = list(combo)
                        for c in combo:
                            trial = [x for x in need if x != c]
                            if not trial:
                                continue
                            undo = _neutralise(m, objs, active + trial)
                            try:
                                t = run()
                            finally:
                                undo()
                            extra += 1
                            if _sig(t) == nxt_sig:
                                need = trial
                                nxt = t
                        combo = tuple(need)
                    for s in gone:
                        out.append((s, list(combo)))
                    active += list(combo)
                    current = nxt
                    progressed = True
                    break
            if progressed:
                break
        if not progressed:
            for s in current:
                out.append((s, None))
            break
    return out, present, extra



# --------------------------------------------------------------------------- directed cases
# Minimal explicit inputs for every mechanism found on the tree this check was built against (commit 7c241fe)
# plus neighbouring cases that must hold.  Most of them were known findings until the fixes e3d6a19 (clone keeps
# stored hints), 30b0661 (dense hex floats), e1082be (hints ASCII, all _N suffixes stripped), f09f753 (bb<N> is not a
# block hint), dc09ffc (clone copies block hints) and the parser KeyError fix landed; they now document the expected
# (empty) outcome and act as regression cases.  Still open: block-hint-elided-label, attr-key-non-ascii.  vhints / bhints are given in walk order (results of each op,
# then for each region each block followed by its arguments); None = leave as parsed.
_M3 = ('"builtin.module"() ({\n  %0 = "test.op"() : () -> i32\n  %1 = "test.op"() : () -> i32\n'
       '  %2 = "test.op"(%0, %1) : (i32, i32) -> i32\n}) : () -> ()')
_R1 = ('"builtin.module"() ({\n  "test.op"() ({\n  ^bb0(%0: i32):\n    "test.termop"(%0) : (i32) -> ()\n  }) : () -> ()\n}) : () -> ()')
_R3 = ('"builtin.module"() ({\n  "test.op"() ({\n  ^bb0(%0: i32):\n    "test.termop"(%0) [^bb1, ^bb2] : (i32) -> ()\n'
       '  ^bb1:\n    "test.termop"() : () -> ()\n  ^bb2:\n    "test.termop"() : () -> ()\n  }) : () -> ()\n}) : () -> ()')
DIRECTED = [
    {"name": "near-collision-ok", "ir": _M3, "vhints": ["a", "a_1", "a_2"], "expect": []},
    {"name": "punctuation-ok", "ir": _M3, "vhints": ["-", "a.b-c$", "$.-"], "expect": []},
    {"name": "suffix-collision", "ir": _M3, "vhints": ["a", "a", "a_1_2"],
     "expect": []},
    {"name": "suffix-collision-then-use", "ir": _M3.replace("}) : () -> ()", '  "test.op"(%1, %2) : (i32, i32) -> ()\n}) : () -> ()'),
     "vhints": ["a", "a", "a_1_2"],
     "expect": []},
    {"name": "suffix-reprint", "ir": _M3, "vhints": ["a_1_2", None, None],
     "expect": []},  # clone-print-differs until e3d6a19 (clone copies the stored hint)
    {"name": "non-ascii", "ir": _M3, "vhints": ["a\u00e9", None, "_\u4e2d1"], "expect": []},
    {"name": "non-ascii-block-label-cut-short", "ir": _R3.replace("[^bb1, ^bb2]", "[^bb1]"), "bhints": [None, None, "a", "a\u00b2"],
     "expect": []},  # KeyError in _parse_block until the parser fix
    {"name": "stripped-to-empty", "ir": _M3, "vhints": ["_0", None, None], "expect": []},  # clone crashed (ValueError) until e3d6a19
    {"name": "block-default-collision", "ir": _R3, "bhints": [None, None, None, "bb1"],
     "expect": []},  # KeyError until the parser fix
    {"name": "block-default-redeclared", "ir": _R3.replace("[^bb1, ^bb2]", ""), "bhints": [None, None, None, "bb1"],
     "expect": []},
    {"name": "block-default-reprint", "ir": _R1, "bhints": [None, "bb7"],
     "expect": []},
    {"name": "same-hint-blocks", "ir": _R3, "bhints": [None, None, "x", "x"], "expect": []},
    {"name": "block-hint-clone", "ir": _R1, "bhints": [None, "entry"], "expect": []},
    {"name": "block-hint-elided-label", "ir": _R1, "bhints": ["x", "x"],
     "expect": ["hint:block-hint:reprint-differs"]},
    {"name": "attr-key-non-ascii", "ir": _M3, "attr_key": "\u00fc", "expect": ["non-ascii-attr-key:reparse-fail"]},
    {"name": "attr-key-quoted-ok", "ir": _M3, "attr_key": "with \"quote\" and space", "expect": []},
    {"name": "dense-float-hex",
     "ir": '"builtin.module"() ({\n  %0 = "arith.constant"() <{value = dense<299792458.0> : tensor<8xf32>}> : () -> tensor<8xf32>\n}) : () -> ()',
     "expect": []},  # was a known finding (hex float element re-read as integer) until fix 30b0661 landed
    {"name": "default-prop-explicit-ok",
     "ir": '"builtin.module"() ({\n  %0 = "arith.constant"() <{value = 1 : i32}> : () -> i32\n'
           '  %1 = "arith.addi"(%0, %0) <{overflowFlags = #arith.overflow<none>}> : (i32, i32) -> i32\n'
           '  %2 = "arith.addi"(%0, %0) {overflowFlags = #arith.overflow<nsw>} : (i32, i32) -> i32\n}) : () -> ()',
     "expect": []},
]


def build_directed(spec):
    from xdsl.dialects.builtin import IntegerAttr, i32
    from xdsl.parser import Parser
    from xv import corpus
    from xv.c04_gen import named_objects
    ctx = corpus.new_ctx()
    m = Parser(ctx, spec["ir"], "<directed>").parse_module()
    objs = named_objects(m)
    vals = [o for o, isb in objs if not isb]
    blks = [o for o, isb in objs if isb]
    for o, h in list(zip(vals, spec.get("vhints", ()))) + list(zip(blks, spec.get("bhints", ()))):
        if h is not None:
            try:
                o.name_hint = h
            except ValueError:
                pass  # not an accepted hint (any more): the case degenerates to the un-hinted module
    if spec.get("attr_key") is not None:
        list(m.walk())[1].attributes[spec["attr_key"]] = IntegerAttr(1, i32)
    m.verify()
    return ctx, m

# --------------------------------------------------------------------------- plan
def plan(tier, seed):
    import os
    scale = float(os.environ.get("XV_SCALE", "1"))  # self-tests with mutants only: a fraction of the workload
    jobs = [{"kind": "directed"}]
    quick = tier == "quick"
    ncorp = 16 if quick else 24
    for i in range(ncorp):
        jobs.append({"kind": "corpus", "i": i, "n": ncorp, "stride": max(1, round(1 / scale))})
    ngen_shards = 16 if quick else 64
    per = max(10, int((220 if quick else 600) * scale))
    for i in range(ngen_shards):
        jobs.append({"kind": "gen", "seed": seed * 100003 + i, "count": per})
    npass = 8 if quick else 32
    for i in range(npass):
        jobs.append({"kind": "passes", "i": i, "n": npass, "seed": seed * 7919 + i, "per_module": 1 if quick else 4,
                     "stride": max(1, round((4 if quick else 1) / scale))})
    # hash-seed sweep: the same cases re-printed under other PYTHONHASHSEEDs (text hashes are compared in finish)
    sweeps = [1, 2] if quick else [1, 2, 3, 12345]
    for h in sweeps:
        parts = 2 if quick else 6
        for i in range(parts):
            jobs.append({"kind": "hashsweep", "env": {"PYTHONHASHSEED": h}, "hashseed": h, "i": i, "n": parts,
                         "corpus_stride": max(1, round((6 if quick else 1) / scale)),
                         "gen": [[seed * 100003 + g, 40 if quick else 150] for g in range(i, ngen_shards, parts)][: (4 if quick else 12)]})
    return jobs


# --------------------------------------------------------------------------- work
class _Timeout(Exception):
    pass


def _alarm(signum, frame):
    raise _Timeout()


def work(job):
    from xv import corpus
    from xv.c04_gen import gen_module, hint_classes, named_objects
    from xv.c04_rt import canon_module, op_text, print_module, roundtrip
    from xv.canon import canon_ir
    from xv.worker import journal

    res = {"evaluations": 0, "nontrivial": [], "samples": [], "counters": {}, "sets": {}, "violations": [], "extra": {}}
    C = res["counters"]
    sets = res["sets"]

    def bump(k, n=1):
        C[k] = C.get(k, 0) + n

    def sadd(k, v):
        sets.setdefault(k, [])
        if v not in sets[k]:
            sets[k].append(v)

    seen_keys: dict[str, int] = {}

    def viol(key, summary, witness):
        seen_keys[key] = seen_keys.get(key, 0) + 1
        bump("violating_cases")
        if seen_keys[key] <= 3:
            res["violations"].append({"key": key, "summary": summary[:400], "witness": witness})

    def evaluate(case_id, m, ctx, origin, replay_job, gen_feats=()):
        """Full monitor on one verified module."""
        res["evaluations"] += 1
        bump(f"cases_{origin}")
        objs = named_objects(m)
        nh = sum(1 for o, _ in objs if o.name_hint)
        bump("values_and_blocks_seen", len(objs))
        bump("hinted_values_and_blocks", nh)
        classes = set()
        for o, isb in objs:
            classes |= hint_classes(o._name, isb)
        for c in classes:
            bump(f"modules_with_hint_class:{c}")
        nops = sum(1 for _ in m.walk())
        bump("ops_round_tripped", nops)
        if _nontrivial(m):
            res["nontrivial"].append(shash(canon_ir(m, with_hints=True)))
        journal(f"{case_id}")
        r = roundtrip(m, ctx, True)
        if r["t1"] is not None:
            sadd("texthash", f"{case_id}={_thash(r['t1'])}")
        if r["fixpoint_only"]:
            bump("text_compared_as_fixpoint_only(normalisation-only difference)")
        if not r["symptoms"]:
            bump("cases_ok")
            if origin == "generated" and classes:
                bump("generated_ok_despite_risky_hint_class")
            return r
        if any(s["symptom"] in ("print-crash", "ir-unreadable-before-print") for s in r["symptoms"]):
            # a printer exception may leave the IR half-edited (UnregisteredOp printing deletes and restores an
            # attribute around the call): report as is, do not touch the module again
            attributed, present, extra = [(s, None) for s in r["symptoms"]], [], 0
            poisoned = True
        else:
            attributed, present, extra = attribute_symptoms(m, ctx, r["symptoms"])
            poisoned = False
        bump("attribution_extra_roundtrips", extra)
        for s, classes_for in attributed:
            sym = s["symptom"]
            bump(f"symptom:{sym}")
            wit = {"case": case_id, "origin": origin, "symptom": {k: v for k, v in s.items()},
                   "printed_generic": (r["t1"] or "")[:3000], "replay_job": replay_job}
            if classes_for:
                wit["neutralised"] = classes_for
                wit["hints"] = sorted({o._name for o, isb in objs if o._name is not None and
                                       any(c in hint_classes(o._name, isb) for c in classes_for)})[:12]
                for c in classes_for:
                    pre = "" if c == "non-ascii-attr-key" else "hint:"
                    viol(f"{pre}{c}:{sym}", f"{sym} disappears when {c} is neutralised ({case_id})", wit)
            else:
                key = symptom_key("generic", s, m, r["m2"])
                viol(key, f"{sym} on {case_id}: " + str({k: v for k, v in s.items() if k != 'symptom'})[:300], wit)
        return r

    kind = job["kind"]
    if kind == "directed":
        for spec in DIRECTED:
            if job.get("only") and spec["name"] != job["only"]:
                continue
            ctx, m = build_directed(spec)
            before = {v["key"] for v in res["violations"]}
            n_before = dict(seen_keys)
            rr = evaluate(f"directed:{spec['name']}", m, ctx, "directed", {"kind": "directed", "only": spec["name"]})
            if spec["name"] in ("near-collision-ok", "suffix-collision-then-use", "same-hint-blocks") and rr["t1"]:
                res["samples"].append({"directed_case": spec["name"], "hints": {k: spec[k] for k in ("vhints", "bhints") if k in spec},
                                       "printed_generic": rr["t1"]})
            got = sorted(k for k in seen_keys if seen_keys[k] != n_before.get(k, 0))
            bump("directed_cases")
            if got != sorted(spec["expect"]):
                # a directed case behaving differently from its recorded outcome is reported under its own key: either a
                # neighbouring case that must hold broke, or a known mechanism changed shape (fixed / widened)
                if set(got) - set(spec["expect"]):
                    pass  # the unexpected keys themselves are already in the violation list
                bump("directed_cases_with_changed_outcome")
                sadd("directed_outcome_changed", f"{spec['name']}: expected {sorted(spec['expect'])} got {got}")
            else:
                bump("directed_cases_as_recorded")
    elif kind in ("corpus", "corpus1"):
        chs = corpus.chunks()
        if kind == "corpus":
            chs = corpus.shard(chs, job["i"], job["n"])[:: job.get("stride", 1)]
        else:
            chs = [c for c in chs if c[0] == job["file"] and c[1] == job["idx"]]
        for f, i, ch in chs:
            pv = corpus.parse_verified(ch, f)
            if pv is None:
                bump("corpus_chunks_not_parse+verify")
                continue
            ctx, m = pv
            evaluate(f"{f}#{i}", m, ctx, "corpus", {"kind": "corpus1", "file": f, "idx": i})
            if len(res["samples"]) < 1 and job.get("i", 0) == 0:
                res["samples"].append({"corpus_chunk": f"{f}#{i}", "ops": sum(1 for _ in m.walk())})
    elif kind in ("gen", "gen1"):
        ctx = corpus.new_ctx()
        idxs = range(job["count"]) if kind == "gen" else [job["index"]]
        for i in idxs:
            rng = random.Random(job["seed"] * 1000003 + i)
            m, hc, feats = gen_module(rng, hint_density=rng.choice([0.0, 0.3, 0.7, 1.0]))
            for k, v in hc.items():
                bump(k, v)
            try:
                m.verify()
            except Exception:  # noqa: BLE001 - generator produced IR outside the domain; skip, counted
                bump("generated_not_verifying(skipped)")
                continue
            for ft in sorted(feats):
                bump(f"feature:{ft}")
            r = evaluate(f"gen:{job['seed']}:{i}", m, ctx, "generated", {"kind": "gen1", "seed": job["seed"], "index": i}, feats)
            if len(res["samples"]) < 2 and r["t1"] and len(r["t1"]) < 1500 and any(o.name_hint for o, _ in named_objects(m)):
                res["samples"].append({"generated_module": r["t1"]})
    elif kind == "passes":
        from xdsl.passes import ModulePass
        from xdsl.transforms import get_all_passes
        allp = sorted(get_all_passes().items())
        rng = random.Random(job["seed"])
        signal.signal(signal.SIGALRM, _alarm)
        chs = corpus.shard(corpus.chunks(), job["i"], job["n"])[:: job.get("stride", 1)]
        for f, i, ch in chs:
            for _ in range(job["per_module"]):
                pname, factory = rng.choice(allp)
                pv = corpus.parse_verified(ch, f)
                if pv is None:
                    break
                ctx, m = pv
                try:
                    pcls = factory()
                    p = pcls()
                except Exception:  # noqa: BLE001 - pass needs arguments
                    bump("pass_not_default_constructible")
                    continue
                journal(f"pass {pname} on {f}#{i}")
                try:
                    signal.alarm(60)
                    p.apply(ctx, m)
                    m.verify()
                    signal.alarm(0)
                except _Timeout:
                    bump("pass_timeout(skipped)")
                    continue
                except BaseException as e:  # noqa: BLE001 - pass failure / unverifiable output is C17's business
                    signal.alarm(0)
                    if isinstance(e, (KeyboardInterrupt, SystemExit)):
                        raise
                    bump("pass_failed_or_output_unverifiable(skipped)")
                    continue
                sadd("passes_with_verified_output", pname)
                bad = out_of_scope_operand(m)
                if bad is not None:
                    # the pass left a use of a value that is not visible from its user; Operation.verify does not
                    # check visibility, no text can denote such IR (C17's domain: passes leave valid, printable IR)
                    bump("pass_output_with_out_of_scope_operand(skipped, C17 domain)")
                    sadd("passes_leaving_out_of_scope_operands", pname)
                    continue
                evaluate(f"pass:{pname}:{f}#{i}", m, ctx, "pass_output", None)
    elif kind == "hashsweep":
        import os
        C["hashsweep_process_hashseed_" + str(os.environ.get("PYTHONHASHSEED"))] = 1
        chs = corpus.shard(corpus.chunks(), job["i"], job["n"])[:: job["corpus_stride"]]
        for f, i, ch in chs:
            pv = corpus.parse_verified(ch, f)
            if pv is None:
                continue
            ctx, m = pv
            try:
                t = print_module(m, ctx, True)
            except Exception:  # noqa: BLE001 - reported by the main shards
                continue
            sadd("texthash", f"{f}#{i}={_thash(t)}")
            bump("hashsweep_prints")
        ctx = corpus.new_ctx()
        for gseed, count in job["gen"]:
            for i in range(count):
                rng = random.Random(gseed * 1000003 + i)
                m, hc, feats = gen_module(rng, hint_density=rng.choice([0.0, 0.3, 0.7, 1.0]))
                try:
                    m.verify()
                    t = print_module(m, ctx, True)
                except Exception:  # noqa: BLE001
                    continue
                sadd("texthash", f"gen:{gseed}:{i}={_thash(t)}")
                bump("hashsweep_prints")
        res["evaluations"] = 0
    else:
        raise ValueError(kind)
    if res["nontrivial"]:
        res["nontrivial"] = sorted(set(res["nontrivial"]))
    return res


def finish(agg, tier):
    inc = []
    c = agg.counters
    # hash-seed sweep: group text hashes per case
    by_case: dict[str, set] = {}
    for e in agg.sets.get("texthash", ()):
        cid, _, h = e.rpartition("=")
        by_case.setdefault(cid, set()).add(h)
    multi = sorted(cid for cid, hs in by_case.items() if len(hs) > 1)
    for cid in multi[:5]:
        agg.violations.append({"key": "print-depends-on-hash-seed", "summary": f"{cid} prints differently under another PYTHONHASHSEED",
                               "witness": {"case": cid, "hashes": sorted(by_case[cid])}})
    swept = c.get("hashsweep_prints", 0)
    agg.sets.pop("texthash", None)
    need = {"directed_cases": len(DIRECTED), "cases_corpus": 700, "cases_generated": 2000 if tier == "quick" else 25000, "cases_ok": 2500,
            "hinted_values_and_blocks": 5000, "symptom:reparse-fail": 1, "hashsweep_prints": 200,
            "cases_pass_output": 30}
    for k, v in need.items():
        if c.get(k, 0) < v:
            inc.append(f"monitor reach too low: {k}={c.get(k, 0)} < {v}")
    return {"inconclusive": inc,
            "coverage": {"hashsweep": {"cases_printed_under_other_hash_seeds": swept, "cases_with_differing_text": len(multi)},
                         "excluded": {k: v for k, v in c.items() if "skipped" in k or "not_" in k}}}
