"""C01 - IR edits keep the op/block/region tree and use-def chains consistent.

(a) random histories of public mutation calls with the whole-forest invariant walker (xv.irsan) run after
    every call (closed world: the harness knows every live node, so a stale use is a violation);
(b) realistic histories: the corpus' own RUN pipelines executed pass by pass with a forest walk at each
    pass boundary (open world for detached ops a pass may legitimately hold)."""
from __future__ import annotations

import collections
import random
import shlex
import traceback

from xv.harness import shash

ID = "C01"
LEVEL = "exploration"
RULE = ("random histories of ~70 public IR-mutation entry points (Block/Region/Operation/SSAValue, Rewriter, "
        "PatternRewriter, Builder) on generated IR, arguments biased to boundary situations, whole-forest invariant "
        "walk after every call; plus corpus RUN pipelines with a walk after every pass. A history is non-trivial if "
        "it has >=20 successful calls of >=8 distinct APIs and leaves >=5 ops alive; distinct by hash of the "
        "(api, outcome) sequence")
LEVEL_TEXT = ("An IR sanitizer (independent walker over the raw intrusive links and use lists) is evaluated after every "
              "successful call of generated mutation histories and after every pass of the corpus pipelines; held = no "
              "walk found a broken link, stale/missing use or wrong index on the executions produced.")
LEVEL_NOTE = ("trusts xv.irsan's walker and the World registry of live nodes; calls that raise end the history when they "
              "leave IR half-edited (counted as nonatomic_failures, outside the property); cyclic-tree misuse is filtered")
TECHNIQUE = "invariant at a hook: whole-structure IR sanitizer after every mutation call of random API histories and after every pass"
ENGINES = ["harness", "irsan", "corpus"]
ASSUMPTIONS = ["xv.irsan invariants are exactly the ones stated by the property",
               "the World registry sees every node the history creates"]
JOB_TIMEOUT = {"quick": 900, "thorough": 7200}


class Skip(Exception):
    pass


def need(x):
    if x is None or x == [] or x == ():
        raise Skip()
    return x


def _imports():
    g = globals()
    if "Block" in g:
        return
    from xdsl.builder import Builder
    from xdsl.dialects.builtin import ModuleOp, f32, i32, i64
    from xdsl.dialects.test import TestOp, TestTermOp
    from xdsl.ir import Block, BlockArgument, Operation, OpResult, Region, SSAValue
    from xdsl.pattern_rewriter import PatternRewriter
    from xdsl.rewriter import BlockInsertPoint, InsertPoint, Rewriter
    g.update(locals())
    g["TYPES"] = [i32, i64, f32]


class World:
    def __init__(self, rng):
        self.rng = rng
        self.nodes = {}  # id -> node; holds strong references, so ids are never recycled while tracked
        self.graveyard = []  # erased nodes stay referenced for the whole history (DESIGN 1.6)
        self.sit = set()

    def add(self, n):
        if n is not None:
            self._add_rec(n)

    def _add_rec(self, n):
        if id(n) in self.nodes:
            return
        self.nodes[id(n)] = n
        if isinstance(n, Operation):
            for r in n.regions:
                self._add_rec(r)
        elif isinstance(n, Region):
            b, k = n._first_block, 0
            while b is not None and k < 10000:
                self._add_rec(b)
                b = b._next_block
                k += 1
        elif isinstance(n, Block):
            o, k = n._first_op, 0
            while o is not None and k < 100000:
                self._add_rec(o)
                o = o._next_op
                k += 1

    def collect(self, n):
        out, stack = [], [n]
        while stack:
            x = stack.pop()
            out.append(x)
            if isinstance(x, Operation):
                stack.extend(x.regions)
            elif isinstance(x, Region):
                stack.extend(list(x.blocks))
            elif isinstance(x, Block):
                stack.extend(list(x.ops))
        return out

    def drop(self, nodes):
        for x in nodes:
            self.graveyard.append(x)
            self.nodes.pop(id(x), None)

    def rescan(self):
        for n in list(self.nodes.values()):
            if isinstance(n, Operation):
                for r in n.regions:
                    self._add_rec(r)
            elif isinstance(n, Region):
                for b in n.blocks:
                    self._add_rec(b)
            elif isinstance(n, Block):
                for o in n.ops:
                    self._add_rec(o)

    def roots(self):
        return [n for n in self.nodes.values() if n.parent is None]

    def ops(self):
        return [n for n in self.nodes.values() if isinstance(n, Operation)]

    def blocks(self):
        return [n for n in self.nodes.values() if isinstance(n, Block)]

    def regions(self):
        return [n for n in self.nodes.values() if isinstance(n, Region)]

    def values(self):
        vs = []
        for n in self.nodes.values():
            if isinstance(n, Operation):
                vs.extend(n.results)
            elif isinstance(n, Block):
                vs.extend(n.args)
        return vs

    # situation tags (coverage of boundary positions)
    def tag_op(self, api, op):
        b = op.parent
        if b is None:
            t = "detached"
        elif b._first_op is op and b._last_op is op:
            t = "only"
        elif b._first_op is op:
            t = "first"
        elif b._last_op is op:
            t = "last"
        else:
            t = "middle"
        self.sit.add(f"{api}:op-{t}")

    def tag_block(self, api, blk):
        r = blk.parent
        if r is None:
            t = "detached"
        elif r._first_block is blk and r._last_block is blk:
            t = "only"
        elif r._first_block is blk:
            t = "first"
        elif r._last_block is blk:
            t = "last"
        else:
            t = "middle"
        self.sit.add(f"{api}:block-{t}" + ("-empty" if blk._first_op is None else ""))

    def tag(self, api, t):
        self.sit.add(f"{api}:{t}")


def new_op(w, allow_succ=True):
    rng = w.rng
    vals = w.values()
    nopnd = rng.choice([0, 0, 1, 2, 3])
    operands = [rng.choice(vals) for _ in range(nopnd)] if vals else []
    if operands and rng.random() < 0.3:
        operands.append(operands[0])  # same value twice
    nres = rng.choice([0, 1, 1, 2])
    regions = []
    if rng.random() < 0.2:
        nb = rng.choice([0, 1, 2])
        regions = [Region([Block(arg_types=[rng.choice(TYPES) for _ in range(rng.choice([0, 1, 2]))])
                           for _ in range(nb)])]
    if allow_succ and rng.random() < 0.2 and w.blocks():
        succ = [rng.choice(w.blocks()) for _ in range(rng.choice([1, 2]))]
        if rng.random() < 0.3:
            succ.append(succ[0])
        op = TestTermOp.create(operands=operands, result_types=[rng.choice(TYPES) for _ in range(nres)],
                               successors=succ, regions=regions)
    else:
        op = TestOp.create(operands=operands, result_types=[rng.choice(TYPES) for _ in range(nres)],
                           regions=regions)
    w.add(op)
    return op


def _op_for(w, rng, dops):
    return rng.choice(dops) if dops and rng.random() < 0.7 else new_op(w)


def _blk_for(w, rng, dblocks):
    b = rng.choice(dblocks) if dblocks and rng.random() < 0.7 else \
        Block(arg_types=[rng.choice(TYPES) for _ in range(rng.choice([0, 0, 1]))])
    w.add(b)
    return b


def _ip(w, rng, b, api):
    ops = list(b.ops)
    if not ops or rng.random() < 0.3:
        w.tag(api, "ip-end" + ("-emptyblock" if not ops else ""))
        return InsertPoint.at_end(b)
    if rng.random() < 0.15:
        w.tag(api, "ip-start")
        return InsertPoint.at_start(b)
    o = rng.choice(ops)
    w.tag_op(api + ".ip", o)
    return rng.choice([InsertPoint.before, InsertPoint.after])(o)


def _bip(w, rng, regions, ablocks, api):
    if not ablocks or rng.random() < 0.3:
        r = rng.choice(regions)
        w.tag(api, "bip-region-" + ("empty" if r._first_block is None else "nonempty"))
        return rng.choice([BlockInsertPoint.at_end, BlockInsertPoint.at_start])(r)
    b = rng.choice(ablocks)
    w.tag_block(api + ".bip", b)
    return rng.choice([BlockInsertPoint.before, BlockInsertPoint.after])(b)


def _safe(w, rng, nodes):
    """safe_erase flag: respect the documented precondition (no remaining uses) most of the time, since a
    failed safe erase leaves the IR half-edited and ends the history; violate it on purpose in ~4% of cases."""
    used = False
    for n in nodes:
        vs = n.results if isinstance(n, Operation) else n.args if isinstance(n, Block) else ()
        if any(v.first_use is not None for v in vs):
            used = True
            break
    if used:
        w.tag("erase", "values-still-used")
        return rng.random() < 0.04
    return rng.random() < 0.6


# ---- API actions: (w, rng, ops, blocks, regions, vals, dops, aops, dblocks, ablocks, dregions)
def a_new_op(w, rng, *a):
    new_op(w)


def a_new_block(w, rng, *a):
    w.add(Block(arg_types=[rng.choice(TYPES) for _ in range(rng.choice([0, 1, 2]))]))


def a_new_region(w, rng, *a):
    w.add(Region())


def a_block_add_op(w, rng, ops, blocks, regions, vals, dops, *a):
    need(blocks)
    b = rng.choice(blocks)
    w.tag_block("add_op", b)
    b.add_op(_op_for(w, rng, dops))


def a_block_add_ops(w, rng, ops, blocks, *a):
    need(blocks)
    rng.choice(blocks).add_ops([new_op(w) for _ in range(rng.choice([0, 1, 3]))])


def a_insert_op_before(w, rng, ops, blocks, regions, vals, dops, aops, *a):
    need(aops)
    tgt = rng.choice(aops)
    w.tag_op("insert_op_before", tgt)
    (tgt.parent if rng.random() < 0.95 else rng.choice(blocks)).insert_op_before(_op_for(w, rng, dops), tgt)


def a_insert_op_after(w, rng, ops, blocks, regions, vals, dops, aops, *a):
    need(aops)
    tgt = rng.choice(aops)
    w.tag_op("insert_op_after", tgt)
    (tgt.parent if rng.random() < 0.95 else rng.choice(blocks)).insert_op_after(_op_for(w, rng, dops), tgt)


def a_insert_ops_before(w, rng, ops, blocks, regions, vals, dops, aops, *a):
    need(aops)
    tgt = rng.choice(aops)
    w.tag_op("insert_ops_before", tgt)
    tgt.parent.insert_ops_before([new_op(w) for _ in range(rng.choice([0, 2, 3]))], tgt)


def a_insert_ops_after(w, rng, ops, blocks, regions, vals, dops, aops, *a):
    need(aops)
    tgt = rng.choice(aops)
    w.tag_op("insert_ops_after", tgt)
    tgt.parent.insert_ops_after([new_op(w) for _ in range(rng.choice([0, 2, 3]))], tgt)


def a_detach_op(w, rng, ops, blocks, regions, vals, dops, aops, *a):
    need(aops)
    op = rng.choice(aops)
    w.tag_op("detach_op", op)
    if rng.random() < 0.5:
        op.detach()
    else:
        op.parent.detach_op(op)


def a_block_erase_op(w, rng, ops, blocks, regions, vals, dops, aops, *a):
    need(aops)
    op = rng.choice(aops)
    blk = op.parent
    w.tag_op("erase_op", op)
    pre = w.collect(op)
    blk.erase_op(op, safe_erase=_safe(w, rng, pre))
    w.drop(pre)


def a_split_before(w, rng, ops, blocks, regions, vals, dops, aops, *a):
    need(aops)
    op = rng.choice(aops)
    w.tag_op("split_before", op)
    w.add(op.parent.split_before(op, arg_types=[rng.choice(TYPES) for _ in range(rng.choice([0, 1]))]))


def a_insert_arg(w, rng, ops, blocks, *a):
    need(blocks)
    b = rng.choice(blocks)
    i = rng.randint(0, len(b.args) + (1 if rng.random() < 0.05 else 0))
    w.tag("insert_arg", "idx-" + ("0" if i == 0 else "end" if i == len(b.args) else "mid"))
    b.insert_arg(rng.choice(TYPES), i)


def a_erase_arg(w, rng, ops, blocks, *a):
    bs = [b for b in blocks if b.args]
    need(bs)
    b = rng.choice(bs)
    arg = rng.choice(b.args)
    w.tag("erase_arg", "idx-" + ("0" if arg.index == 0 else "end" if arg.index == len(b.args) - 1 else "mid")
          + ("-used" if arg.first_use is not None else ""))
    (b if rng.random() < 0.95 else rng.choice(blocks)).erase_arg(arg, safe_erase=rng.random() < 0.5)


def a_set_operands(w, rng, ops, blocks, regions, vals, *a):
    need(ops)
    need(vals)
    op = rng.choice(ops)
    op.operands = [rng.choice(vals) for _ in range(rng.choice([0, 1, 2, 3]))]


def a_set_operand_i(w, rng, ops, blocks, regions, vals, *a):
    os_ = [o for o in ops if len(o.operands)]
    need(os_)
    op = rng.choice(os_)
    i = rng.randrange(len(op.operands))
    v = op.operands[i] if rng.random() < 0.1 else rng.choice(vals)
    w.tag("operands[i]=", "same" if v is op.operands[i] else "other")
    op.operands[i] = v


def a_set_successors(w, rng, ops, blocks, *a):
    need(ops)
    need(blocks)
    op = rng.choice(ops)
    succ = [rng.choice(blocks) for _ in range(rng.choice([0, 1, 2]))]
    if op.parent is not None and rng.random() < 0.3:
        succ.append(op.parent)  # self-successor
        w.tag("successors=", "self-loop")
    op.successors = succ


def a_set_successor_i(w, rng, ops, blocks, *a):
    os_ = [o for o in ops if len(o.successors)]
    need(os_)
    op = rng.choice(os_)
    op.successors[rng.randrange(len(op.successors))] = rng.choice(blocks)


def a_add_region(w, rng, ops, blocks, regions, vals, dops, aops, dblocks, ablocks, dregions):
    need(ops)
    r = rng.choice(dregions) if dregions and rng.random() < 0.7 else Region()
    w.add(r)
    op = rng.choice(ops)
    if r.is_ancestor(op):
        raise Skip()  # would create a cyclic tree (API misuse outside the property)
    op.add_region(r)


def a_detach_region(w, rng, ops, *a):
    os_ = [o for o in ops if o.regions]
    need(os_)
    op = rng.choice(os_)
    if rng.random() < 0.5:
        op.detach_region(rng.randrange(len(op.regions)))
    else:
        op.detach_region(rng.choice(op.regions))


def a_op_erase(w, rng, ops, blocks, regions, vals, dops, *a):
    need(dops)
    op = rng.choice(dops)
    pre = w.collect(op)
    op.erase(safe_erase=_safe(w, rng, pre))
    w.drop(pre)


def a_op_clone(w, rng, ops, *a):
    need(ops)
    w.add(rng.choice(ops).clone())


def a_op_clone_without_regions(w, rng, ops, *a):
    need(ops)
    w.add(rng.choice(ops).clone_without_regions())


def a_region_add_block(w, rng, ops, blocks, regions, vals, dops, aops, dblocks, *a):
    need(regions)
    r = rng.choice(regions)
    w.tag("add_block", "region-" + ("empty" if r._first_block is None else "nonempty"))
    r.add_block(_blk_for(w, rng, dblocks))


def a_region_insert_block_list(w, rng, ops, blocks, regions, *a):
    need(regions)
    bs = [Block() for _ in range(rng.choice([0, 2, 3]))]
    for b in bs:
        w.add(b)
    r = rng.choice(regions)
    r.insert_block(bs, rng.randint(0, len(r.blocks)))


def a_insert_block_before(w, rng, ops, blocks, regions, vals, dops, aops, dblocks, ablocks, *a):
    need(ablocks)
    t = rng.choice(ablocks)
    w.tag_block("insert_block_before", t)
    t.parent.insert_block_before(_blk_for(w, rng, dblocks), t)


def a_insert_block_after(w, rng, ops, blocks, regions, vals, dops, aops, dblocks, ablocks, *a):
    need(ablocks)
    t = rng.choice(ablocks)
    w.tag_block("insert_block_after", t)
    t.parent.insert_block_after(_blk_for(w, rng, dblocks), t)


def a_insert_block_idx(w, rng, ops, blocks, regions, vals, dops, aops, dblocks, *a):
    need(regions)
    r = rng.choice(regions)
    n = len(r.blocks)
    i = rng.randint(0, n)
    w.tag("insert_block", "idx-" + ("0" if i == 0 else "end" if i == n else "mid"))
    r.insert_block(_blk_for(w, rng, dblocks), i)


def a_detach_block(w, rng, ops, blocks, regions, vals, dops, aops, dblocks, ablocks, *a):
    need(ablocks)
    b = rng.choice(ablocks)
    w.tag_block("detach_block", b)
    if rng.random() < 0.5:
        b.parent.detach_block(b)
    else:
        b.parent.detach_block(b.parent.get_block_index(b))


def a_erase_block(w, rng, ops, blocks, regions, vals, dops, aops, dblocks, ablocks, *a):
    need(ablocks)
    b = rng.choice(ablocks)
    w.tag_block("erase_block", b)
    pre = w.collect(b)
    b.parent.erase_block(b, safe_erase=_safe(w, rng, pre))
    w.drop(pre)


def a_block_erase(w, rng, ops, blocks, regions, vals, dops, aops, dblocks, *a):
    need(dblocks)
    b = rng.choice(dblocks)
    pre = w.collect(b)
    b.erase(safe_erase=_safe(w, rng, pre))
    w.drop(pre)


def a_region_erase(w, rng, ops, blocks, regions, vals, dops, aops, dblocks, ablocks, dregions):
    need(dregions)
    r = rng.choice(dregions)
    pre = w.collect(r)
    if any(v.first_use is not None and any(u.operation not in pre for u in v.uses) for n in pre
           for v in (n.results if isinstance(n, Operation) else n.args if isinstance(n, Block) else ())) \
            and rng.random() < 0.96:
        raise Skip()
    r.erase()
    w.drop(pre)


def a_move_blocks(w, rng, ops, blocks, regions, *a):
    need(regions)
    src = rng.choice(regions)
    dst = rng.choice(regions)
    if src.is_ancestor(dst) and src is not dst:
        raise Skip()
    w.tag("move_blocks", ("src-empty" if src._first_block is None else "src-nonempty") + "/" +
          ("dst-empty" if dst._first_block is None else "dst-nonempty") + ("/same" if src is dst else ""))
    src.move_blocks(dst)


def a_move_blocks_before(w, rng, ops, blocks, regions, vals, dops, aops, dblocks, ablocks, *a):
    need(regions)
    need(ablocks)
    src = rng.choice(regions)
    t = rng.choice(ablocks)
    if src.is_ancestor(t) and t.parent is not src:
        raise Skip()
    w.tag_block("move_blocks_before", t)
    src.move_blocks_before(t)


def a_region_clone_into(w, rng, ops, blocks, regions, *a):
    need(regions)
    src = rng.choice(regions)
    dst = rng.choice(regions)
    if dst is src or src.is_ancestor(dst):
        raise Skip()
    idx = rng.randint(0, len(dst.blocks)) if rng.random() < 0.7 else None
    w.tag("clone_into", "dst-" + ("empty" if dst._first_block is None else "nonempty") +
          ("-idx0" if idx == 0 else "-idxNone" if idx is None else "-idx>0"))
    src.clone_into(dst, idx)


def a_rauw(w, rng, ops, blocks, regions, vals, *a):
    need(vals)
    a_ = rng.choice(vals)
    b_ = a_ if rng.random() < 0.05 else rng.choice(vals)
    n = sum(1 for _ in a_.uses)
    w.tag("replace_all_uses_with", ("self" if a_ is b_ else "other") + f"-uses{min(n, 2)}")
    a_.replace_all_uses_with(b_)


def a_ruwi(w, rng, ops, blocks, regions, vals, *a):
    need(vals)
    a_, b_ = rng.choice(vals), rng.choice(vals)
    k = rng.choice([0, 1, 2])
    pred = (lambda u: u.index % 2 == 0) if k == 0 else (lambda u: True) if k == 1 else (lambda u: False)
    a_.replace_uses_with_if(b_, pred)


def a_val_erase(w, rng, ops, blocks, regions, vals, *a):
    need(vals)
    rng.choice(vals).erase(safe_erase=rng.random() < 0.7)


def a_rw_erase_op(w, rng, ops, *a):
    need(ops)
    op = rng.choice(ops)
    w.tag_op("Rewriter.erase_op", op)
    pre = w.collect(op)
    Rewriter.erase_op(op, safe_erase=_safe(w, rng, pre))
    w.drop(pre)


def _new_results(rng, op, vals):
    if rng.random() < 0.4:
        return None
    return [rng.choice([None] + vals) for _ in op.results]


def a_rw_replace_op(w, rng, ops, blocks, regions, vals, dops, aops, *a):
    need(aops)
    op = rng.choice(aops)
    new = [new_op(w, allow_succ=False) for _ in range(rng.choice([0, 1, 2]))]
    w.tag_op("Rewriter.replace_op", op)
    pre = w.collect(op)
    nr = _new_results(rng, op, vals)
    unsafe = nr is not None and any(r is None and o.first_use is not None for r, o in zip(nr, op.results))
    unsafe = unsafe or any(v.first_use is not None for n in pre[1:] for v in
                           (n.results if isinstance(n, Operation) else n.args if isinstance(n, Block) else ()))
    Rewriter.replace_op(op, new, nr, safe_erase=(rng.random() < 0.04) if unsafe else rng.random() < 0.6)
    w.drop(pre)


def a_rw_new_type(w, rng, ops, blocks, regions, vals, *a):
    need(vals)
    v = rng.choice(vals)
    w.tag("replace_value_with_new_type", type(v).__name__)
    Rewriter.replace_value_with_new_type(v, rng.choice(TYPES))


def _inline_args(w, rng, src, dst, vals):
    if src is dst or src.is_ancestor(dst):
        raise Skip()
    av = () if rng.random() < 0.5 or not vals else [rng.choice(vals) for _ in src.args]
    if any(isinstance(v, BlockArgument) and v.block is src for v in av):
        raise Skip()
    return av


def a_rw_inline_block(w, rng, ops, blocks, regions, vals, *a):
    need(blocks)
    src = rng.choice(blocks)
    dst = rng.choice(blocks)
    av = _inline_args(w, rng, src, dst, vals)
    w.tag_block("Rewriter.inline_block", src)
    Rewriter.inline_block(src, _ip(w, rng, dst, "Rewriter.inline_block"), av)
    w.drop([src])
    w.rescan()


def a_rw_insert_block(w, rng, ops, blocks, regions, vals, dops, aops, dblocks, ablocks, *a):
    need(regions)
    b = _blk_for(w, rng, dblocks)
    Rewriter.insert_block(b, _bip(w, rng, regions, ablocks, "Rewriter.insert_block"))


def a_rw_insert_op(w, rng, ops, blocks, *a):
    need(blocks)
    b = rng.choice(blocks)
    Rewriter.insert_op([new_op(w) for _ in range(rng.choice([1, 2]))] if rng.random() < 0.5 else new_op(w),
                       _ip(w, rng, b, "Rewriter.insert_op"))


def a_rw_move_region_contents(w, rng, ops, blocks, regions, *a):
    need(regions)
    w.add(Rewriter.move_region_contents_to_new_regions(rng.choice(regions)))


def a_rw_inline_region(w, rng, ops, blocks, regions, vals, dops, aops, dblocks, ablocks, *a):
    need(regions)
    r = rng.choice(regions)
    bip = _bip(w, rng, regions, ablocks, "Rewriter.inline_region")
    if r is bip.region or r.is_ancestor(bip.region):
        raise Skip()
    Rewriter.inline_region(r, bip)


# ---- PatternRewriter / Builder positioned on a live attached op
def _pr(w, rng, aops):
    need(aops)
    op = rng.choice(aops)
    return PatternRewriter(op), op


def a_pr_insert(w, rng, ops, blocks, regions, vals, dops, aops, *a):
    pr, op = _pr(w, rng, aops)
    if rng.random() < 0.5:
        pr.insert(new_op(w))
    else:
        need(blocks)
        pr.insert([new_op(w), new_op(w)], _ip(w, rng, rng.choice(blocks), "PatternRewriter.insert"))


def a_pr_erase(w, rng, ops, blocks, regions, vals, dops, aops, *a):
    pr, op = _pr(w, rng, aops)
    tgt = op if rng.random() < 0.6 else rng.choice(aops)
    w.tag_op("PatternRewriter.erase", tgt)
    pre = w.collect(tgt)
    pr.erase(tgt, safe_erase=_safe(w, rng, pre))
    w.drop(pre)


def a_pr_replace(w, rng, ops, blocks, regions, vals, dops, aops, *a):
    pr, op = _pr(w, rng, aops)
    tgt = op if rng.random() < 0.7 else rng.choice(aops)
    new = [new_op(w, allow_succ=False) for _ in range(rng.choice([0, 1, 2]))]
    w.tag_op("PatternRewriter.replace", tgt)
    pre = w.collect(tgt)
    nr = _new_results(rng, tgt, vals)
    unsafe = nr is not None and any(r is None and o.first_use is not None for r, o in zip(nr, tgt.results))
    unsafe = unsafe or any(v.first_use is not None for n in pre[1:] for v in
                           (n.results if isinstance(n, Operation) else n.args if isinstance(n, Block) else ()))
    pr.replace(tgt, new, nr, safe_erase=(rng.random() < 0.04) if unsafe else rng.random() < 0.6)
    w.drop(pre)


def a_pr_rauw(w, rng, ops, blocks, regions, vals, dops, aops, *a):
    pr, op = _pr(w, rng, aops)
    need(vals)
    pr.replace_all_uses_with(rng.choice(vals), rng.choice(vals + [None]), safe_erase=rng.random() < 0.5)


def a_pr_ruwi(w, rng, ops, blocks, regions, vals, dops, aops, *a):
    pr, op = _pr(w, rng, aops)
    need(vals)
    pr.replace_uses_with_if(rng.choice(vals), rng.choice(vals), lambda u: u.index % 2 == 1)


def a_pr_new_type(w, rng, ops, blocks, regions, vals, dops, aops, *a):
    pr, op = _pr(w, rng, aops)
    need(vals)
    pr.replace_value_with_new_type(rng.choice(vals), rng.choice(TYPES))


def a_pr_insert_block_argument(w, rng, ops, blocks, regions, vals, dops, aops, *a):
    pr, op = _pr(w, rng, aops)
    b = rng.choice(blocks)
    pr.insert_block_argument(b, rng.randint(0, len(b.args)), rng.choice(TYPES))


def a_pr_erase_block_argument(w, rng, ops, blocks, regions, vals, dops, aops, *a):
    pr, op = _pr(w, rng, aops)
    bs = [b for b in blocks if b.args]
    need(bs)
    pr.erase_block_argument(rng.choice(rng.choice(bs).args), safe_erase=rng.random() < 0.5)


def a_pr_inline_block(w, rng, ops, blocks, regions, vals, dops, aops, *a):
    pr, op = _pr(w, rng, aops)
    src = rng.choice(blocks)
    dst = rng.choice(blocks)
    av = _inline_args(w, rng, src, dst, vals)
    pr.inline_block(src, _ip(w, rng, dst, "PatternRewriter.inline_block"), av)
    w.drop([src])
    w.rescan()


def a_pr_inline_region(w, rng, ops, blocks, regions, vals, dops, aops, dblocks, ablocks, *a):
    pr, op = _pr(w, rng, aops)
    r = rng.choice(regions)
    bip = _bip(w, rng, regions, ablocks, "PatternRewriter.inline_region")
    if r is bip.region or r.is_ancestor(bip.region):
        raise Skip()
    pr.inline_region(r, bip)


def a_pr_move_region_contents(w, rng, ops, blocks, regions, vals, dops, aops, *a):
    pr, op = _pr(w, rng, aops)
    w.add(pr.move_region_contents_to_new_regions(rng.choice(regions)))


def a_pr_create_block(w, rng, ops, blocks, regions, vals, dops, aops, dblocks, ablocks, *a):
    pr, op = _pr(w, rng, aops)
    need(regions)
    w.add(pr.create_block(_bip(w, rng, regions, ablocks, "Builder.create_block"),
                          [rng.choice(TYPES) for _ in range(rng.choice([0, 1, 2]))]))


def a_builder_insert(w, rng, ops, blocks, *a):
    need(blocks)
    b = Builder(_ip(w, rng, rng.choice(blocks), "Builder.insert"))
    for _ in range(rng.choice([1, 2, 3])):
        b.insert(new_op(w))


API = [v for k, v in list(globals().items()) if k.startswith("a_")]


def run_history(seed, nsteps, check_tree, Broken):
    """Returns (violation|None, info)."""
    rng = random.Random(seed)
    w = World(rng)
    w.add(ModuleOp([]))
    # seed the module with a bit of IR so that early steps have targets
    log = []
    stats = collections.Counter()
    for i in range(nsteps):
        ops, blocks, regions, vals = w.ops(), w.blocks(), w.regions(), w.values()
        dops = [o for o in ops if o.parent is None]
        aops = [o for o in ops if o.parent is not None]
        dblocks = [b for b in blocks if b.parent is None]
        ablocks = [b for b in blocks if b.parent is not None]
        dregions = [r for r in regions if r.parent is None]
        act = rng.choice(API)
        name = act.__name__[2:]
        raised = None
        try:
            act(w, rng, ops, blocks, regions, vals, dops, aops, dblocks, ablocks, dregions)
        except Skip:
            stats["skipped"] += 1
            continue
        except Broken:
            raise
        except RecursionError:
            raise
        except Exception as e:  # noqa: BLE001 - a raising call is skipped by the property
            raised = type(e).__name__
        w.rescan()
        try:
            check_tree(w.roots())
        except (Broken, RecursionError) as b:
            if raised is not None:
                # half-edited IR after a failed call: outside the property, end of history
                stats["nonatomic_failures"] += 1
                return None, dict(stats=stats, log=log, w=w, nonatomic=f"{name} raised {raised}: {str(b)[:60]}")
            return dict(step=i, api=name, broken=str(b), tail=log[-8:]), dict(stats=stats, log=log, w=w)
        log.append((name, "ok" if raised is None else "raise:" + raised))
        stats[("ok:" if raised is None else "raised:") + name] += 1
    return None, dict(stats=stats, log=log, w=w)


# ---------------------------------------------------------------- pipelines (b)
def pipeline_of(runline):
    """Extract the pass pipeline string of an `xdsl-opt` RUN line (None if there is none)."""
    if "xdsl-opt" not in runline:
        return None
    first = runline.split("|")[0]
    try:
        toks = shlex.split(first)
    except ValueError:
        return None
    for i, t in enumerate(toks):
        if t in ("-p", "--passes") and i + 1 < len(toks):
            return toks[i + 1]
        if t.startswith("-p=") or t.startswith("--passes="):
            return t.split("=", 1)[1]
    return None


def run_pipelines(job, res, check_tree, Broken):
    from xdsl.parser import Parser
    from xdsl.passes import PassPipeline
    from xdsl.transforms import get_all_passes
    from xv import corpus
    C = res["counters"]
    allp = get_all_passes()
    by_file = collections.OrderedDict()
    for rel, idx, text in corpus.chunks():
        by_file.setdefault(rel, []).append((idx, text))
    files = corpus.shard(list(by_file.items()), job["shard"], job["nshards"])
    for rel, chs in files:
        full = open(corpus.REPO + "/" + rel).read()
        pipes = []
        for rl in corpus.run_lines(full):
            p = pipeline_of(rl)
            if p and p not in pipes:
                pipes.append(p)
        if not pipes:
            continue
        for idx, text in chs:
            for pipe in pipes[:3]:
                ctx = corpus.new_ctx()
                try:
                    m = Parser(ctx, text, rel).parse_module()
                except BaseException:  # noqa: BLE001
                    C["pipeline_inputs_unparseable"] = C.get("pipeline_inputs_unparseable", 0) + 1
                    break
                try:
                    check_tree([m], closed_world=False)
                except Broken as b:
                    res["violations"].append({"key": "parser-output:" + str(b)[:60], "summary": f"{rel}#{idx}: {b}",
                                              "witness": {"file": rel, "chunk": idx}})
                    break
                try:
                    pp = PassPipeline.parse_spec(allp, pipe)
                    passes = list(pp.passes)
                except BaseException:  # noqa: BLE001
                    C["pipelines_unparseable"] = C.get("pipelines_unparseable", 0) + 1
                    continue
                res["evaluations"] += 1
                npass = 0
                for p in passes:
                    try:
                        p.apply(ctx, m)
                    except BaseException as e:  # noqa: BLE001
                        if isinstance(e, (KeyboardInterrupt, SystemExit, MemoryError)):
                            raise
                        C["pipeline_pass_raised"] = C.get("pipeline_pass_raised", 0) + 1
                        break
                    npass += 1
                    C["pipeline_passes_walked"] = C.get("pipeline_passes_walked", 0) + 1
                    try:
                        st = check_tree([m], closed_world=False)
                        C["pipeline_ops_walked"] = C.get("pipeline_ops_walked", 0) + st["ops"]
                    except (Broken, RecursionError) as b:
                        res["violations"].append({
                            "key": f"pipeline:{p.name}:{str(b)[:50]}",
                            "summary": f"{rel}#{idx} after pass {p.name} of '{pipe}': {b}",
                            "witness": {"file": rel, "chunk": idx, "pipeline": pipe, "pass": p.name}})
                        break
                if npass:
                    res["nontrivial"].append(shash(("pipe", rel, idx, pipe)))
                    res.setdefault("sets", {}).setdefault("pipeline_passes", set()).update(p.name for p in passes[:npass])
    if files:
        res["samples"].append({"pipeline_file": files[0][0]})


def plan(tier, seed):
    nh, steps, per = (640, 200, 10) if tier == "quick" else (20000, 400, 125)
    jobs = [{"kind": "hist", "seeds": [seed * 1_000_003 + s for s in range(k, k + per)], "steps": steps}
            for k in range(0, nh, per)]
    if tier == "thorough":
        jobs += [{"kind": "hist", "seeds": [seed * 1_000_003 + 500_000 + s for s in range(k, k + 10)], "steps": 1000}
                 for k in range(0, 320, 10)]
    nsh = 32
    jobs += [{"kind": "pipes", "shard": i, "nshards": nsh} for i in range(nsh)]
    return jobs


def work(job):
    _imports()
    from xv.irsan import Broken, check_tree
    res = {"evaluations": 0, "nontrivial": [], "samples": [], "counters": {}, "sets": {}, "violations": []}
    C = res["counters"]
    if job["kind"] == "pipes":
        run_pipelines(job, res, check_tree, Broken)
        res["sets"] = {k: sorted(v) for k, v in res["sets"].items()}
        return res
    sit = set()
    apis_ok = set()
    for seed in job["seeds"]:
        res["evaluations"] += 1
        try:
            v, info = run_history(seed, job["steps"], check_tree, Broken)
        except Exception as e:  # noqa: BLE001 - harness error: make the shard fail loudly
            raise RuntimeError(f"harness error in history seed={seed}: {traceback.format_exc()[-1500:]}") from e
        st = info["stats"]
        w = info["w"]
        sit |= w.sit
        nok = sum(n for k, n in st.items() if k.startswith("ok:"))
        oks = {k[3:] for k in st if k.startswith("ok:")}
        apis_ok |= oks
        C["successful_calls"] = C.get("successful_calls", 0) + nok
        C["raising_calls"] = C.get("raising_calls", 0) + sum(n for k, n in st.items() if k.startswith("raised:"))
        C["skipped_preconditions"] = C.get("skipped_preconditions", 0) + st.get("skipped", 0)
        C["forest_walks"] = C.get("forest_walks", 0) + nok
        if "nonatomic" in info:
            C["nonatomic_failures"] = C.get("nonatomic_failures", 0) + 1
            res["sets"].setdefault("nonatomic_failure_kinds", set()).add(info["nonatomic"].split(":")[0])
        if v:
            res["violations"].append({
                "key": f"history:{v['api']}:{v['broken'][:60]}",
                "summary": f"seed={seed} step={v['step']} after {v['api']}: {v['broken']}",
                "witness": {"seed": seed, "steps": job["steps"], "detail": v,
                            "replay_job": {"kind": "hist", "seeds": [seed], "steps": job["steps"]}}})
        if nok >= 20 and len(oks) >= 8 and len(w.ops()) >= 5:
            res["nontrivial"].append(shash(info["log"]))
        if len(res["samples"]) < 1:
            res["samples"].append({"history_seed": seed, "first_calls": info["log"][:25]})
    res["sets"]["situations"] = sorted(sit)
    res["sets"]["apis_successful"] = sorted(apis_ok)
    res["sets"] = {k: sorted(v) for k, v in res["sets"].items()}
    return res


def finish(agg, tier):
    inc = []
    napi = len([a for a in API])
    ok = agg.sets.get("apis_successful", set())
    if len(ok) < napi - 2:
        missing = sorted({a.__name__[2:] for a in API} - set(ok))
        inc.append(f"only {len(ok)}/{napi} APIs ever succeeded; never: {missing}")
    if agg.counters.get("successful_calls", 0) < 20000:
        inc.append("fewer than 20000 successful calls walked")
    if len(agg.sets.get("situations", ())) < 100:
        inc.append(f"only {len(agg.sets.get('situations', ()))} boundary situations reached (<100)")
    if agg.counters.get("pipeline_passes_walked", 0) < 300:
        inc.append("fewer than 300 pipeline passes walked")
    return {"inconclusive": inc, "coverage": {"api_count": napi}}
