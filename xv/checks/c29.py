"""C29 - Symbol lookup returns the operation the nesting rules designate; cached lookup agrees with direct.

Reference-model differential monitor.  A symbol tree is generated as a pure-python SPEC (nested nodes with
kind / name / visibility / regions); the IR is built from the spec through the public constructors and must
verify.  Every lookup entry point of xDSL (xdsl.utils.symbol_table.SymbolTable static lookups, the
SymbolTable object, SymbolTableCollection, traits.SymbolTable.lookup_symbol / insert_or_update) is called on
the real IR, and its answer is compared - by object identity - with a reference resolver that works on the
SPEC only (it never touches regions/blocks/ops of the IR under test).  Lookups are issued from every
operation of the tree, in every reference form (str, StringAttr, flat / nested SymbolRefAttr built in three
ways, parsed attribute), in two different orders through two collections, and again after edits made through
the table API (erase / remove / insert_or_update), for which the spec is edited in lock-step.
sys.monitoring PY_START counters on the anchored functions show reach."""
from __future__ import annotations

import os
import random
import sys

from xv.harness import shash

ID = "C29"
LEVEL = "exploration"
RULE = ("cases are generated symbol trees: nested symbol-table ops of 8 kinds (builtin.module named/unnamed, "
        "gpu.module, irdl.dialect, fsm.machine, three harness-defined table ops incl. a table that is not a symbol "
        "and an optional-symbol table), symbol ops of 5 kinds with all visibilities (absent/public/private/nested), "
        "non-symbol region ops, decoys carrying a sym_name attribute, unregistered ops, names from a tiny pool "
        "(shadowing across levels, hostile names such as '' and 'a::b'); every op of the tree is a lookup origin "
        "and gets random and directed references (paths that do resolve, paths through private symbols, through "
        "non-table symbols, into absent names) in all reference forms; half of the trees are then edited through "
        "SymbolTable.erase/remove and traits.SymbolTable.insert_or_update and looked up again. A case (tree + its "
        "lookup batch) is non-trivial if the tree has >= 2 nested symbol-table levels, some name is defined more "
        "than once in the tree, and the batch contains >= 1 nested hit and >= 1 refusal other than 'root name "
        "absent'; distinct = distinct canonical spec hashes (structure, kinds, names, visibilities)")
LEVEL_TEXT = ("Every lookup issued (all entry points, all reference forms, from every op of every generated verified "
              "tree, before and after table edits) is compared by object identity with an independent resolver that "
              "works on the generating spec; held = no compared call disagreed on the trees explored.")
LEVEL_NOTE = ("trusts the spec-level reference resolver (about 40 lines), the spec->IR builder (checked by a "
              "structural cross-check of every built tree against its spec) and CPython")
TECHNIQUE = ("reference-model differential monitor (spec-level symbol resolver vs all lookup entry points, identity "
             "comparison) with history + executable model for table edits and sys.monitoring reach counters")
ENGINES = ["harness", "models", "trace"]
ASSUMPTIONS = [
    "a symbol is an operation with the SymbolOpInterface trait and a sym_name (the rule both anchored "
    "implementations use); operations that merely carry a sym_name attribute, and unregistered operations, are "
    "neither symbols nor symbol tables",
    "the nearest enclosing symbol table of an op is the closest ancestor-or-self with the SymbolTable trait",
    "a nested component (every component after the root) is refused when its sym_visibility is 'private'; the "
    "previous component must be a symbol table",
    "traits.SymbolTable.lookup_symbol raising ValueError when there is no enclosing symbol table is its documented "
    "contract (the utils lookups return None there); counted, not a violation",
    "SymbolTable.remove only unregisters the name from the table object (documented); the model of the cached "
    "view follows that, and a collection is discarded after an edit that bypasses it (no invalidation exists)",
    "SymbolTable.insert / rename / rename_to_unique are unimplemented (NotImplementedError) on this tree; if they "
    "become implemented the check reports inconclusive until a model is added",
]
JOB_TIMEOUT = {"quick": 600, "thorough": 3600}

VIS = [None, None, "public", "private", "private", "nested"]
TABLE_KINDS = ("module", "gpu", "irdl", "fsm", "xtable", "xopttable", "xanon")
SYMIFACE_KINDS = ("module", "gpu", "irdl", "fsm", "xtable", "xopttable", "func", "tsym", "state", "xoptsym")
OPTIONAL_NAME_KINDS = ("module", "xopttable", "xoptsym")
CAUSES = ("hit-flat", "hit-nested", "miss-root", "miss-nested", "miss-private", "miss-nontable", "no-table")
FORMS1 = ("str", "StringAttr", "ref-str", "ref-attr", "parsed")
FORMSN = ("ref-str", "ref-attr", "ref-array", "parsed")

KNOWN_TRAIT_PRIVATE = "trait.lookup_symbol:returns-private-symbol-reached-through-nesting"
KNOWN_TRAIT_NONTABLE = "trait.lookup_symbol:non-table-intermediate-resolved-in-enclosing-table"
KNOWN_TRAIT_UNREG = "trait.lookup_symbol:unregistered-ancestor-taken-as-symbol-table"


# ------------------------------------------------------------------------------------------ spec
class N:
    """Spec node.  regions: list of single-block regions, each a list of child nodes."""
    __slots__ = ("kind", "name", "vis", "regions", "parent", "op", "extra")

    def __init__(self, kind, name=None, vis=None, regions=None, extra=None):
        self.kind = kind
        self.name = name
        self.vis = vis
        self.regions = regions if regions is not None else []
        self.parent = None
        self.op = None
        self.extra = extra
        for r in self.regions:
            for c in r:
                c.parent = self

    @property
    def table(self):
        return self.kind in TABLE_KINDS

    @property
    def symbol(self):
        return self.kind in SYMIFACE_KINDS and self.name is not None

    def canon(self):
        return (self.kind, self.name, self.vis, tuple(tuple(c.canon() for c in r) for r in self.regions))

    def walk(self):
        yield self
        for r in self.regions:
            for c in r:
                yield from c.walk()

    def path(self):
        out = []
        n = self
        while n.parent is not None:
            for ri, r in enumerate(n.parent.regions):
                for ci, c in enumerate(r):
                    if c is n:
                        out.append((ri, ci))
            n = n.parent
        return list(reversed(out))

    def describe(self):
        return f"{self.kind}{'' if self.name is None else ' ' + show_ref([self.name])}" \
               f"{'' if self.vis is None else ' ' + self.vis} at {self.path()}"


# reference resolver ---------------------------------------------------------------------------
def ref_nearest_table(n):
    while n is not None and not n.table:
        n = n.parent
    return n


def ref_child(table, name, removed=None):
    """First direct child of `table` that is a symbol called `name` (names are unique per verified table)."""
    if removed and name in removed.get(id(table), ()):
        return None
    for c in table.regions[0]:
        if c.symbol and c.name == name:
            return c
    return None


def ref_resolve(table, path, removed=None, check_private=True):
    """-> (chain of nodes or None, cause)."""
    if table is None:
        return None, "no-table"
    cur = table
    chain = []
    for i, name in enumerate(path):
        if i > 0 and not cur.table:
            return None, "miss-nontable"
        found = ref_child(cur, name, removed)
        if found is None:
            return None, "miss-root" if i == 0 else "miss-nested"
        if i > 0 and check_private and found.vis == "private":
            return None, "miss-private"
        chain.append(found)
        cur = found
    return chain, "hit-flat" if len(path) == 1 else "hit-nested"


def trait_defect_model(origin, path):
    """Model of the KNOWN wrong behaviour of traits.SymbolTable.lookup_symbol on the unchanged tree: unregistered
    ops count as symbol tables when looking for the anchor, a non-table intermediate re-anchors at its own
    nearest table, and visibility is ignored.  Returns ('op', node) / ('none',) / ('exc', name) / ('notable',)
    and the set of deviating rules used on the way."""
    used = set()
    anchor = origin
    while anchor is not None and not (anchor.table or anchor.kind == "unreg"):
        anchor = anchor.parent
    if anchor is None:
        return ("notable",), used
    for name_i, name in enumerate(path):
        if anchor.kind == "unreg":
            used.add("unreg")
            if not anchor.regions:
                return ("exc", "IndexError"), used
        found = None
        for c in anchor.regions[0]:
            if c.symbol and c.name == name:
                found = c
                break
        if found is None:
            return ("none",), used
        if name_i > 0 and found.vis == "private":
            used.add("private")
        if name_i == len(path) - 1:
            return ("op", found), used
        if not found.table:
            used.add("nontable")  # anchor stays: nearest table of a direct child is the anchor itself
        else:
            anchor = found
    raise AssertionError("unreachable")


# ------------------------------------------------------------------------------------------ environment
class Env:
    pass


_ENV = None


def _env():
    global _ENV
    if _ENV is not None:
        return _ENV
    import warnings
    warnings.simplefilter("ignore")
    from xdsl import traits as xt
    from xdsl.context import Context
    from xdsl.dialects import fsm, func, gpu
    from xdsl.dialects.builtin import (ArrayAttr, Builtin, FunctionType, ModuleOp, StringAttr, SymbolRefAttr,
                                       UnregisteredOp)
    from xdsl.dialects.irdl import irdl
    from xdsl.dialects.test import TestOp, TestSymbolOp, TestTermOp
    from xdsl.ir import Block, Region
    from xdsl.irdl import (IRDLOperation, attr_def, irdl_op_definition, opt_attr_def, opt_prop_def, region_def,
                           traits_def, var_region_def)
    from xdsl.parser import Parser
    from xdsl.utils import symbol_table as stmod

    @irdl_op_definition
    class XTable(IRDLOperation):
        name = "xv29.table"
        sym_name = attr_def(StringAttr)
        body = region_def("single_block")
        traits = traits_def(xt.NoTerminator(), xt.SymbolOpInterface(), xt.SymbolTable())

    @irdl_op_definition
    class XOptTable(IRDLOperation):
        name = "xv29.opt_table"
        sym_name = opt_prop_def(StringAttr)
        body = region_def("single_block")
        traits = traits_def(xt.NoTerminator(), xt.OptionalSymbolOpInterface(), xt.SymbolTable())

    @irdl_op_definition
    class XAnonTable(IRDLOperation):
        name = "xv29.anon_table"
        body = region_def("single_block")
        traits = traits_def(xt.NoTerminator(), xt.SymbolTable())

    @irdl_op_definition
    class XOptSym(IRDLOperation):
        name = "xv29.opt_sym"
        sym_name = opt_attr_def(StringAttr)
        regs = var_region_def()
        traits = traits_def(xt.NoTerminator(), xt.OptionalSymbolOpInterface())

    E = Env()
    E.traits, E.stmod = xt, stmod
    E.ST, E.STC, E.TraitST = stmod.SymbolTable, stmod.SymbolTableCollection, xt.SymbolTable
    E.StringAttr, E.SymbolRefAttr, E.ArrayAttr = StringAttr, SymbolRefAttr, ArrayAttr
    E.Block, E.Region = Block, Region
    E.ModuleOp, E.func, E.gpu, E.fsm, E.irdl = ModuleOp, func, gpu, fsm, irdl
    E.TestOp, E.TestSymbolOp, E.TestTermOp = TestOp, TestSymbolOp, TestTermOp
    E.Unreg = UnregisteredOp.with_name("xv29.unregistered")
    E.XTable, E.XOptTable, E.XAnonTable, E.XOptSym = XTable, XOptTable, XAnonTable, XOptSym
    E.FunctionType = FunctionType
    E.InsertPoint = __import__("xdsl.builder", fromlist=["InsertPoint"]).InsertPoint
    ctx = Context()
    ctx.load_dialect(Builtin)
    E.parse_attr = lambda text: Parser(ctx, text).parse_attribute()

    # reach counters on the anchored functions
    E.reach = {}
    mon = sys.monitoring
    tool = 4
    mon.use_tool_id(tool, "xv-c29")
    codes = {}

    def add(label, fn):
        fn = getattr(fn, "__func__", fn)
        codes[fn.__code__] = label
        E.reach[label] = 0
        mon.set_local_events(tool, fn.__code__, mon.events.PY_START)

    def on_start(code, _off):
        E.reach[codes[code]] += 1

    mon.register_callback(tool, mon.events.PY_START, on_start)
    add("symbol_table._lookup_symbol_ref_in", stmod._lookup_symbol_ref_in)
    add("symbol_table._lookup_symbol_in_direct_children", stmod._lookup_symbol_in_direct_children)
    add("symbol_table.get_name_if_symbol", stmod.get_name_if_symbol)
    add("SymbolTable.lookup_symbol_in", stmod.SymbolTable.lookup_symbol_in)
    add("SymbolTable.lookup_nearest_symbol_from", stmod.SymbolTable.lookup_nearest_symbol_from)
    add("SymbolTable.get_nearest_symbol_table", stmod.SymbolTable.get_nearest_symbol_table)
    add("SymbolTable.get_symbol_visibility", stmod.SymbolTable.get_symbol_visibility)
    add("SymbolTable.__init__", stmod.SymbolTable.__init__)
    add("SymbolTable.lookup", stmod.SymbolTable.lookup)
    add("SymbolTable.remove", stmod.SymbolTable.remove)
    add("SymbolTable.erase", stmod.SymbolTable.erase)
    add("SymbolTableCollection.lookup_symbol_in", stmod.SymbolTableCollection.lookup_symbol_in)
    add("SymbolTableCollection.lookup_nearest_symbol_from", stmod.SymbolTableCollection.lookup_nearest_symbol_from)
    add("SymbolTableCollection.get_symbol_table", stmod.SymbolTableCollection.get_symbol_table)
    add("traits.SymbolTable.lookup_symbol", xt.SymbolTable.lookup_symbol)
    add("traits.SymbolTable.insert_or_update", xt.SymbolTable.insert_or_update)
    add("traits.SymbolTable.verify", xt.SymbolTable.verify)
    _ENV = E
    return E


# ------------------------------------------------------------------------------------------ generator
POOLS = [
    ["a", "b", "c"], ["a", "b", "c"], ["a", "b", "c"], ["a", "b"], ["a"], ["a", "b", "c", "d", "e"],
    ["a", "A", "a ", ""], ["a", "a::b", "b", "a.b"], ["x", "é", "@x", "x\"y"],
]

GEN_KINDS = ["module", "module", "module", "module", "gpu", "gpu", "irdl", "irdl", "fsm", "xtable", "xtable",
             "xopttable", "xanon",
             "func", "func", "func", "func", "tsym", "tsym", "tsym", "xoptsym",
             "top", "top", "leaf", "leaf", "decoy", "unreg"]
LEAFY_KINDS = ["func", "func", "tsym", "tsym", "xoptsym", "leaf", "decoy", "unreg", "module"]


class Profile:
    def __init__(self, rng):
        self.pool = rng.choice(POOLS)
        self.maxdepth = rng.choice([2, 3, 3, 4, 4, 5])
        self.fan = rng.choice([2, 3, 3, 4, 5])
        self.budget = rng.choice([12, 25, 40, 60])
        self.unnamed = rng.choice([0.0, 0.15, 0.3])
        self.table_bias = rng.choice([0, 0, 1, 3])  # extra weight for tables (deep chains)
        self.top_nontable = rng.random() < 0.08


def _gen_body(rng, P, depth, parent_kind, bud):
    """Children of one single-block region.  Names of sym_name-bearing children are unique if the parent is a table."""
    table_parent = parent_kind in TABLE_KINDS
    kids = []
    used = set()
    n = rng.randint(0, P.fan) if depth > 0 else rng.randint(1, P.fan + 1)
    for _ in range(n):
        if bud[0] <= 0:
            break
        if depth >= P.maxdepth:
            kind = rng.choice(LEAFY_KINDS)
        else:
            kind = rng.choice(GEN_KINDS + ["module", "xtable", "gpu"] * P.table_bias)
        if parent_kind == "fsm" and rng.random() < 0.4:
            kind = "state"
        name = vis = None
        if kind in SYMIFACE_KINDS or kind in ("decoy",) or (kind == "unreg" and rng.random() < 0.4):
            name = rng.choice(P.pool)
            if kind in OPTIONAL_NAME_KINDS and rng.random() < P.unnamed:
                name = None
            if name is not None and table_parent:
                if name in used:
                    continue
                used.add(name)
            if name is not None or kind in OPTIONAL_NAME_KINDS:
                vis = rng.choice(VIS)
        bud[0] -= 1
        kids.append(_gen_node(rng, P, depth, kind, name, vis, bud))
    return kids


def _gen_node(rng, P, depth, kind, name, vis, bud):
    leafy = depth >= P.maxdepth
    if kind in TABLE_KINDS:
        body = [] if leafy else _gen_body(rng, P, depth + 1, kind, bud)
        extra = None
        if kind == "fsm":
            cands = [c.name for c in body if c.symbol]
            if cands and rng.random() < 0.7:
                extra = rng.choice(cands)
            else:
                taken = {c.name for c in body if c.name is not None}
                extra = next(x for x in (P.pool + ["s0", "s1"]) if x not in taken)
                body.append(N("state", extra, rng.choice(VIS), [[], []]))
        return N(kind, name, vis, [body], extra)
    if kind == "state":
        return N(kind, name, vis, [[], []])
    if kind == "func":
        body = [] if leafy else _gen_body(rng, P, depth + 1, kind, bud)
        return N(kind, name, vis, [body + [N("ret")]])
    if kind in ("tsym", "xoptsym", "top", "decoy", "unreg"):
        nreg = 0 if (leafy or kind == "decoy" and rng.random() < 0.5) else rng.choice([0, 1, 1, 2])
        if kind == "top":
            nreg = max(nreg, 1)
        regs = []
        for _ in range(nreg):
            body = _gen_body(rng, P, depth + 1, kind, bud)
            if kind not in ("xoptsym",) and (kind != "unreg" or rng.random() < 0.5):
                body.append(N("term"))
            regs.append(body)
        return N(kind, name, vis, regs)
    if kind == "leaf":
        return N(kind)
    raise AssertionError(kind)


def gen_tree(rng):
    P = Profile(rng)
    bud = [P.budget]
    if P.top_nontable:
        regs = [_gen_body(rng, P, 1, "top", bud) + [N("term")] for _ in range(rng.choice([1, 2]))]
        return N("top", None, None, regs), P
    kind = rng.choice(["module"] * 6 + ["gpu", "irdl", "xtable", "xopttable", "xanon", "fsm"])
    name = None
    if kind in SYMIFACE_KINDS and (kind not in OPTIONAL_NAME_KINDS or rng.random() < 0.3):
        name = rng.choice(P.pool)
    root = _gen_node(rng, P, 0, kind, name, rng.choice(VIS) if name is not None else None, bud)
    return root, P


def build(E, n):
    """Spec -> IR through the public constructors (children first)."""
    S = E.StringAttr
    regions = [E.Region(E.Block([build(E, c) for c in r])) for r in n.regions]
    visattr = {} if n.vis is None else {"sym_visibility": S(n.vis)}
    k = n.kind
    if k == "module":
        op = E.ModuleOp(regions[0], attributes=visattr, sym_name=None if n.name is None else S(n.name))
    elif k == "gpu":
        op = E.gpu.ModuleOp.create(properties={"sym_name": S(n.name)}, attributes=visattr, regions=regions)
    elif k == "irdl":
        op = E.irdl.DialectOp.create(properties={"sym_name": S(n.name)}, attributes=visattr, regions=regions)
    elif k == "fsm":
        op = E.fsm.MachineOp.create(attributes={"sym_name": S(n.name), "initialState": S(n.extra),
                                                "function_type": E.FunctionType.from_lists([], []), **visattr},
                                    regions=regions)
    elif k == "state":
        op = E.fsm.StateOp.create(attributes={"sym_name": S(n.name), **visattr}, regions=regions)
    elif k == "xtable":
        op = E.XTable.create(attributes={"sym_name": S(n.name), **visattr}, regions=regions)
    elif k == "xopttable":
        op = E.XOptTable.create(properties={} if n.name is None else {"sym_name": S(n.name)}, attributes=visattr,
                                regions=regions)
    elif k == "xanon":
        op = E.XAnonTable.create(regions=regions)
    elif k == "func":
        op = E.func.FuncOp(n.name, ((), ()), regions[0], visibility=n.vis)
    elif k == "tsym":
        op = E.TestSymbolOp.create(properties={"sym_name": S(n.name)}, attributes=visattr, regions=regions)
    elif k == "xoptsym":
        op = E.XOptSym.create(attributes={**({} if n.name is None else {"sym_name": S(n.name)}), **visattr},
                              regions=regions)
    elif k in ("top", "leaf"):
        op = E.TestOp.create(regions=regions)
    elif k == "decoy":
        op = E.TestOp.create(attributes={"sym_name": S(n.name), **visattr}, regions=regions)
    elif k == "unreg":
        op = E.Unreg.create(attributes={**({} if n.name is None else {"sym_name": S(n.name)}), **visattr},
                            regions=regions)
    elif k == "term":
        op = E.TestTermOp.create()
    elif k == "ret":
        op = E.func.ReturnOp()
    else:
        raise AssertionError(k)
    n.op = op
    return op


def cross_check(n):
    """The built IR must have exactly the spec's shape (guards the builder, which the oracle's meaning rests on)."""
    op = n.op
    assert len(op.regions) == len(n.regions), (n.kind, len(op.regions), len(n.regions))
    for reg, r in zip(op.regions, n.regions):
        blocks = list(reg.blocks)
        assert len(blocks) == 1
        ops = list(blocks[0].ops)
        assert len(ops) == len(r) and all(a is c.op for a, c in zip(ops, r)), ("shape", n.kind)
        for c in r:
            assert c.op.parent_op() is op
            cross_check(c)


def make_ref(E, rng, path, form):
    S, R = E.StringAttr, E.SymbolRefAttr
    if len(path) == 1:
        if form == "str":
            return path[0]
        if form == "StringAttr":
            return S(path[0])
    if form == "ref-str":
        return R(path[0], list(path[1:]))
    if form == "ref-attr":
        return R(S(path[0]), [S(p) for p in path[1:]])
    if form == "ref-array":
        return R(path[0], E.ArrayAttr([S(p) for p in path[1:]]))
    if form == "parsed":
        if all(p.isalnum() and p.isascii() for p in path):
            got = E.parse_attr("::".join("@" + p for p in path))
            assert isinstance(got, R)
            return got
        return R(path[0], list(path[1:]))
    raise AssertionError(form)


def show_ref(path):
    return "::".join("@" + (p if p.isalnum() and p.isascii() else '"' + repr(p)[1:-1].replace('"', '\\"') + '"')
                     for p in path)


# ------------------------------------------------------------------------------------------ the monitor
class Monitor:
    def __init__(self, E, res, job):
        self.E, self.res, self.job = E, res, job
        self.C = res["counters"]
        self.sets = res["sets"]
        self.exc = None

    def count(self, k, n=1):
        self.C[k] = self.C.get(k, 0) + n

    def call(self, fn, *a, **kw):
        """Run the real code; exceptions of the code under test are results, not harness errors."""
        try:
            return fn(*a, **kw)
        except Exception as e:  # noqa: BLE001 - the outcome is compared below
            return _Exc(e)

    def violation(self, key, summary, root, tseed, detail):
        self.count("mismatches")
        self.count("mismatch:" + key)
        if sum(1 for v in self.res["violations"] if v["key"] == key) >= 3 or len(self.res["violations"]) >= 40:
            return
        self.res["violations"].append({
            "key": key, "summary": summary,
            "witness": {"module": str(root.op) if root is not None and root.op is not None else None, **detail,
                        "replay_job": {"kind": "trees", "base": tseed, "count": 1}}})


class _Exc:
    def __init__(self, e):
        self.e = e
        self.name = type(e).__name__

    def __repr__(self):
        return f"raised {self.name}: {str(self.e)[:80]}"


def got_class(got, want_node, by_op):
    if isinstance(got, _Exc):
        return "raised-" + got.name
    if got is None:
        return "none"
    if want_node is None:
        return "op-where-none-expected"
    return "wrong-op"


def descr_got(got, by_op):
    if isinstance(got, _Exc):
        return repr(got)
    if got is None:
        return "None"
    if isinstance(got, list):
        return "[" + ", ".join(descr_got(g, by_op) for g in got) + "]"
    n = by_op.get(id(got))
    return n.describe() if n is not None else f"<op not in the tree: {got.name}>"


def lookup_everywhere(M, root, tseed, origin, path, form, rng, coll, removed, state, phase):
    """One reference, all entry points, compared with the spec-level resolver."""
    E = M.E
    by_op = state["by_op"]
    ref = make_ref(E, rng, path, form)
    T = ref_nearest_table(origin)
    chain, cause = ref_resolve(T, path)
    want = chain[-1] if chain else None
    cchain, ccause = (chain, cause) if not removed else ref_resolve(T, path, removed)
    cwant = cchain[-1] if cchain else None
    M.count("refs:" + phase)
    M.count("cause:" + cause)
    M.count("form:" + form)
    M.count(f"pathlen:{min(len(path), 4)}")
    state["causes"].add(cause)
    if len(state["sample_lookups"]) < 6 and (cause not in ("miss-root", "hit-flat") or not state["sample_lookups"]):
        state["sample_lookups"].append({"from": origin.describe(), "reference": show_ref(path), "form": form,
                                        "expected": cause + ("" if want is None else " -> " + want.describe())})
    base = {"origin": origin.describe(), "reference": show_ref(path), "form": form, "phase": phase,
            "expected": cause + ("" if want is None else " -> " + want.describe())}

    def cmp_single(api, got, w, wcause):
        M.res["evaluations"] += 1
        M.count("compared:" + api)
        ok = (got is None) if w is None else (got is w.op)
        if isinstance(got, _Exc):
            ok = False
        if not ok:
            M.violation(f"{api}:{wcause}:{got_class(got, w, by_op)}",
                        f"{api}({origin.describe()}, {show_ref(path)} as {form}) gave {descr_got(got, by_op)}, "
                        f"reference says {wcause}" + ("" if w is None else " -> " + w.describe()),
                        root, tseed, {**base, "api": api, "got": descr_got(got, by_op)})
        return ok

    # 1. direct, from the op
    cmp_single("SymbolTable.lookup_nearest_symbol_from", M.call(E.ST.lookup_nearest_symbol_from, origin.op, ref),
               want, cause)
    # 2. cached, from the op
    cmp_single("SymbolTableCollection.lookup_nearest_symbol_from",
               M.call(coll.lookup_nearest_symbol_from, origin.op, ref), cwant, ccause)
    # 3. in the table itself (both implementations, single and all_symbols)
    if origin.table:
        cmp_single("SymbolTable.lookup_symbol_in", M.call(E.ST.lookup_symbol_in, origin.op, ref), want, cause)
        cmp_single("SymbolTableCollection.lookup_symbol_in", M.call(coll.lookup_symbol_in, origin.op, ref),
                   cwant, ccause)
        for api, fn, ch, cs in (("SymbolTable.lookup_symbol_in[all]", E.ST.lookup_symbol_in, chain, cause),
                                ("SymbolTableCollection.lookup_symbol_in[all]", coll.lookup_symbol_in, cchain, ccause)):
            got = M.call(fn, origin.op, ref, all_symbols=True)
            M.res["evaluations"] += 1
            M.count("compared:" + api)
            if ch is None:
                ok = got is None
            else:
                ok = isinstance(got, list) and len(got) == len(ch) and all(g is c.op for g, c in zip(got, ch))
            if not ok:
                M.violation(f"{api}:{cs}:{'none' if got is None else 'raised-' + got.name if isinstance(got, _Exc) else 'wrong-chain'}",
                            f"{api}({origin.describe()}, {show_ref(path)}) gave {descr_got(got, by_op)}, reference "
                            f"chain {None if ch is None else [c.describe() for c in ch]}",
                            root, tseed, {**base, "api": api, "got": descr_got(got, by_op)})
    # 4. the trait's lookup
    got = M.call(E.TraitST.lookup_symbol, origin.op, ref)
    M.res["evaluations"] += 1
    M.count("compared:traits.SymbolTable.lookup_symbol")
    if T is None:
        if isinstance(got, _Exc) and got.name == "ValueError":
            M.count("trait_no_table_valueerror")
            ok = True
        else:
            ok = False
    else:
        ok = (not isinstance(got, _Exc)) and ((got is None) if want is None else (got is want.op))
    if not ok:
        model, used = trait_defect_model(origin, path)
        matches = ((model[0] == "op" and not isinstance(got, _Exc) and got is model[1].op)
                   or (model[0] == "none" and got is None)
                   or (model[0] == "exc" and isinstance(got, _Exc) and got.name == model[1])
                   or (model[0] == "notable" and isinstance(got, _Exc) and got.name == "ValueError"))
        key = None
        if matches and used:
            # the first deviating rule on the way names the mechanism
            if "unreg" in used:
                key = KNOWN_TRAIT_UNREG
            elif cause == "miss-nontable" and "nontable" in used:
                key = KNOWN_TRAIT_NONTABLE
            elif cause == "miss-private" and "private" in used and "nontable" not in used:
                key = KNOWN_TRAIT_PRIVATE
            elif "nontable" in used:
                key = KNOWN_TRAIT_NONTABLE
            elif "private" in used:
                key = KNOWN_TRAIT_PRIVATE
        if key is None:
            key = f"traits.SymbolTable.lookup_symbol:{cause}:{got_class(got, want, by_op)}"
        M.violation(key, f"traits.SymbolTable.lookup_symbol({origin.describe()}, {show_ref(path)} as {form}) gave "
                         f"{descr_got(got, by_op)}, reference says {cause}"
                         + ("" if want is None else " -> " + want.describe()),
                    root, tseed, {**base, "api": "traits.SymbolTable.lookup_symbol", "got": descr_got(got, by_op)})
    return cause


def random_path(rng, pool):
    return [rng.choice(pool) for _ in range(rng.choice([1, 1, 1, 2, 2, 3, 4]))]


def directed_path(rng, table, pool):
    """Walk down from `table` through named symbols: mostly resolvable paths, some continuing through non-table
    symbols or ending in an absent name."""
    path = []
    cur = table
    while True:
        cands = [c for c in cur.regions[0] if c.symbol]
        if not cands:
            break
        tabs = [x for x in cands if x.table]
        c = rng.choice(tabs) if tabs and rng.random() < 0.5 else rng.choice(cands)
        path.append(c.name)
        if c.table:
            if rng.random() < 0.25:
                break
            cur = c
            continue
        if rng.random() < 0.12:  # continue "through" a non-table symbol with a name that exists next to it
            sib = [s.name for s in cur.regions[0] if s.symbol]
            path.append(rng.choice(sib))
            if rng.random() < 0.3:
                path.append(rng.choice(pool))
        break
    if not path or rng.random() < 0.08:
        path.append(rng.choice(pool))
    return path[:6]


def structural_checks(M, root, tseed, coll, removed, state, phase):
    """Table objects: SymbolTable(op).lookup for every pool name, collection identity/keys."""
    E = M.E
    by_op = state["by_op"]
    names = state["names"]
    for t in root.walk():
        if not t.table:
            continue
        fresh = E.ST(t.op)
        cached = coll.get_symbol_table(t.op)
        if coll.get_symbol_table(t.op) is not cached:
            M.violation("SymbolTableCollection.get_symbol_table:not-cached",
                        "two calls returned different SymbolTable objects", root, tseed, {"table": t.describe()})
        for nm in names:
            w = ref_child(t, nm)
            cw = ref_child(t, nm, removed)
            for api, obj, ww, arg in (("SymbolTable.lookup", fresh, w, nm),
                                      ("SymbolTable.lookup", fresh, w, E.StringAttr(nm)),
                                      ("SymbolTable.lookup[cached]", cached, cw, nm)):
                got = M.call(obj.lookup, arg)
                M.res["evaluations"] += 1
                M.count("compared:" + api)
                ok = (not isinstance(got, _Exc)) and ((got is None) if ww is None else (got is ww.op))
                if not ok:
                    M.violation(f"{api}:{'hit' if ww is not None else 'miss'}:{got_class(got, ww, by_op)}",
                                f"{api}({nm!r}) on {t.describe()} gave {descr_got(got, by_op)}, reference "
                                f"{None if ww is None else ww.describe()}", root, tseed,
                                {"table": t.describe(), "name": nm, "phase": phase})
    keys = list(coll.symbol_tables)
    for k in keys:
        n = by_op.get(id(k))
        if n is None or not n.table:  # live or erased, but always an op with the SymbolTable trait
            M.violation("SymbolTableCollection.symbol_tables:non-table-key",
                        f"collection cached a table for {k.name}", root, tseed, {"phase": phase})
    M.count("collection_tables_cached", len(keys))


def run_lookups(M, root, tseed, rng, coll, removed, state, phase, per_op):
    """Issue the lookup batch; returns the list of (origin, path, form) issued (for the replay in another order)."""
    issued = []
    pool = state["names"]
    origins = [n for n in root.walk()]
    rng.shuffle(origins)
    for o in origins:
        T = ref_nearest_table(o)
        for j in range(per_op):
            if T is not None and (j % 2 == 1 or o.table and rng.random() < 0.5):
                path = directed_path(rng, T, pool)
                M.count("refs_directed")
            else:
                path = random_path(rng, pool)
                M.count("refs_random")
            form = rng.choice(FORMS1 if len(path) == 1 else FORMSN)
            lookup_everywhere(M, root, tseed, o, path, form, rng, coll, removed, state, phase)
            issued.append((o, path, form))
    M.count("origins:" + phase, len(origins))
    return issued


def gen_symbol_subtree(rng, P, name):
    kind = rng.choice(["func", "tsym", "module", "xtable", "xoptsym"])
    vis = rng.choice(VIS)
    bud = [4]
    Pn = Profile(random.Random(rng.random()))
    Pn.pool, Pn.maxdepth, Pn.fan = P.pool, 2, 2
    return _gen_node(rng, Pn, 1, kind, name, vis, bud)


def edit_phase(M, root, tseed, rng, coll, P, state):
    """Edits through the table API, mirrored on the spec.  Returns (coll, removed) to use afterwards."""
    E = M.E
    removed: dict[int, set] = {}
    by_op = state["by_op"]

    def live_tables():
        return [n for n in root.walk() if n.table]

    for _ in range(rng.randint(1, 4)):
        if not live_tables():  # a non-table root whose tables were all erased
            break
        T = rng.choice(live_tables())
        body = T.regions[0]
        gone = removed.get(id(T), set())
        syms = [c for c in body if c.symbol and c.name not in gone]
        kind = rng.choice(["erase", "erase", "remove", "remove-twice", "remove-foreign", "insert-new",
                           "insert-replace", "insert-bad"])
        if kind in ("erase", "remove", "remove-twice") and not syms:
            kind = "insert-new"
        if kind == "insert-replace" and not [c for c in body if c.symbol]:
            kind = "insert-new"
        state["edit_log"].append(kind + " in " + T.describe())
        if kind == "erase":
            victim = rng.choice(syms)
            inside = list(victim.walk())  # collected BEFORE the call
            tbl = coll.get_symbol_table(T.op)
            r = M.call(tbl.erase, victim.op)
            M.count("edit:erase")
            if isinstance(r, _Exc):
                M.violation(f"SymbolTable.erase:raised-{r.name}", f"erase({victim.describe()}) {r!r}", root, tseed,
                            {"edits": list(state["edit_log"])})
                return None
            body.remove(victim)
            victim.parent = None
            state["dead"].update(inside)
            state["graveyard"].append(victim)
            if victim.op.parent is not None:
                M.violation("SymbolTable.erase:op-still-attached", f"erase({victim.describe()}) left the op in its "
                            "block", root, tseed, {"edits": list(state["edit_log"])})
        elif kind in ("remove", "remove-twice"):
            victim = rng.choice(syms)
            tbl = coll.get_symbol_table(T.op)
            r = M.call(tbl.remove, victim.op)
            M.count("edit:remove")
            if isinstance(r, _Exc):
                M.violation(f"SymbolTable.remove:raised-{r.name}", f"remove({victim.describe()}) {r!r}", root, tseed,
                            {"edits": list(state["edit_log"])})
                return None
            removed.setdefault(id(T), set()).add(victim.name)
            if victim.op.parent_op() is not T.op:
                M.violation("SymbolTable.remove:detached-the-op", "remove() must not touch the IR", root, tseed,
                            {"edits": list(state["edit_log"])})
            if kind == "remove-twice":
                r = M.call(tbl.remove, victim.op)
                M.count("edit:remove-again")
                if not (isinstance(r, _Exc) and r.name == "ValueError"):
                    M.violation("SymbolTable.remove:second-remove-accepted",
                                f"removing {victim.describe()} twice gave {r!r}", root, tseed,
                                {"edits": list(state["edit_log"])})
        elif kind == "remove-foreign":
            # an op that is not a child of T: a documented ValueError, unless a same-named entry exists (observed,
            # out of the property's scope: the name check cannot tell the two ops apart)
            others = [n for n in root.walk() if n.kind in SYMIFACE_KINDS and n.parent is not T and n is not root]
            if not others:
                continue
            f = rng.choice(others)
            tbl = coll.get_symbol_table(T.op)
            present = f.name is not None and ref_child(T, f.name, removed) is not None
            r = M.call(tbl.remove, f.op)
            M.count("edit:remove-foreign")
            if isinstance(r, _Exc):
                if r.name != "ValueError":
                    M.violation(f"SymbolTable.remove:foreign-op-raised-{r.name}", repr(r), root, tseed,
                                {"edits": list(state["edit_log"])})
                    return None
                M.count("obs:remove_foreign_rejected_ValueError")
                if present:
                    M.count("obs:remove_foreign_same_name_rejected")
            else:
                if not present:
                    M.violation("SymbolTable.remove:foreign-op-absent-name-accepted",
                                f"remove({f.describe()}) on {T.describe()} did not raise", root, tseed,
                                {"edits": list(state["edit_log"])})
                    return None
                M.count("obs:remove_foreign_same_name_accepted")
                removed.setdefault(id(T), set()).add(f.name)
        elif kind in ("insert-new", "insert-replace"):
            taken_attr = {c.name for c in body if c.name is not None and not c.symbol}  # decoys: keep verifiable
            if kind == "insert-replace":
                name = rng.choice([c.name for c in body if c.symbol])
            else:
                taken = taken_attr | {c.name for c in body if c.symbol}
                free = [x for x in P.pool + ["n0", "n1"] if x not in taken]
                if not free:
                    free = [next(f"n{j}" for j in range(2, len(body) + 4) if f"n{j}" not in taken)]
                name = rng.choice(free)
            new = gen_symbol_subtree(rng, P, name)
            build(E, new)
            cross_check(new)
            for x in new.walk():
                by_op[id(x.op)] = x
            state["names"] = sorted(set(state["names"]) | {x.name for x in new.walk() if x.name is not None})
            old = ref_child(T, name)
            r = M.call(E.TraitST.insert_or_update, T.op, new.op)
            M.count("edit:" + kind)
            if isinstance(r, _Exc):
                M.violation(f"traits.SymbolTable.insert_or_update:raised-{r.name}", repr(r), root, tseed,
                            {"edits": list(state["edit_log"])})
                return None
            if old is None:
                body.append(new)
                okret = r is None
            else:
                body[body.index(old)] = new
                old.parent = None
                state["dead"].update(old.walk())
                state["graveyard"].append(old)
                okret = r is old.op and old.op.parent is None
            new.parent = T
            M.res["evaluations"] += 1
            M.count("compared:traits.SymbolTable.insert_or_update")
            real = list(T.op.regions[0].blocks[0].ops)
            if not okret or len(real) != len(body) or any(a is not c.op for a, c in zip(real, body)):
                M.violation("traits.SymbolTable.insert_or_update:" + ("wrong-return" if not okret else "wrong-position"),
                            f"insert_or_update({T.describe()}, {new.describe()}) returned {descr_got(r, by_op)}; "
                            f"body now {[o.name for o in real]}", root, tseed, {"edits": list(state["edit_log"])})
                return None
            # the edit bypassed every SymbolTable object: start a new collection (there is no invalidation)
            coll = E.STC()
            removed = {}
            M.count("collections_restarted_after_direct_edit")
        else:  # insert-bad: not a symbol / unnamed symbol / not a table -> documented ValueError
            which = rng.choice(["nonsymbol", "unnamed", "nontable"])
            if which == "nonsymbol":
                args = (T.op, E.TestOp.create())
            elif which == "unnamed":
                args = (T.op, E.ModuleOp([]))
            else:
                args = (E.TestOp.create(regions=[E.Region(E.Block())]), E.func.FuncOp.external("zz", [], []))
            r = M.call(E.TraitST.insert_or_update, *args)
            M.count("edit:insert-bad")
            if not (isinstance(r, _Exc) and r.name == "ValueError"):
                M.violation("traits.SymbolTable.insert_or_update:bad-argument-accepted",
                            f"insert_or_update with {which} argument gave {r!r}", root, tseed, {"which": which})
                return None
    return coll, removed


def unimplemented_probe(M):
    """insert / rename / rename_to_unique / set_symbol_name ... are stubs on the pinned tree; notice if that changes."""
    E = M.E
    f = E.func.FuncOp.external("p", [], [])
    m = E.ModuleOp([f])
    t = E.ST(m)
    g = E.func.FuncOp.external("q", [], [])
    probes = {
        "insert": lambda: t.insert(g, E.InsertPoint.at_end(m.body.block)),
        "rename": lambda: t.rename(f, "r"),
        "rename_to_unique": lambda: t.rename_to_unique(f, []),
        "get_symbol_name": lambda: E.ST.get_symbol_name(f),
        "set_symbol_name": lambda: E.ST.set_symbol_name(f, "r"),
        "set_symbol_visibility": lambda: E.ST.set_symbol_visibility(f, E.stmod.Visibility.PRIVATE),
        "get_symbol_uses": lambda: E.ST.get_symbol_uses(m),
        "replace_all_symbol_uses": lambda: E.ST.replace_all_symbol_uses(f, E.StringAttr("r"), m),
    }
    for k, fn in probes.items():
        r = M.call(fn)
        if isinstance(r, _Exc) and r.name == "NotImplementedError":
            M.count("api_unimplemented:" + k)
        else:
            M.count("api_now_implemented:" + k)
    for v, s in (("public", None), ("public", "public"), ("private", "private"), ("nested", "nested")):
        h = E.func.FuncOp("v", ((), ()), E.Region(E.Block([E.func.ReturnOp()])), visibility=s)
        got = E.ST.get_symbol_visibility(h)
        M.res["evaluations"] += 1
        M.count("compared:SymbolTable.get_symbol_visibility")
        if str(got.value) != v:
            M.violation("SymbolTable.get_symbol_visibility:wrong", f"visibility {s!r} read as {got!r}", None, 0, {})


def one_tree(M, tseed, with_edits=True):
    E = M.E
    rng = random.Random(tseed)
    root, P = gen_tree(rng)
    build(E, root)
    cross_check(root)
    M.count("trees_generated")
    try:
        root.op.verify()
    except Exception as e:  # noqa: BLE001 - generator misses are counted, thresholded in finish()
        M.count("gen_invalid")
        M.sets.setdefault("gen_invalid_reasons", set()).add(str(e).splitlines()[0][:90])
        return
    nodes = list(root.walk())
    by_op = {id(n.op): n for n in nodes}
    names = sorted({n.name for n in nodes if n.name is not None} | set(P.pool))
    state = {"by_op": by_op, "names": names, "causes": set(), "dead": set(), "graveyard": [], "edit_log": [],
             "sample_lookups": []}
    tables = [n for n in nodes if n.table]
    depth = 0
    for t in tables:
        d, x = 0, t
        while x is not None:
            d += x.table
            x = x.parent
        depth = max(depth, d)
    M.count("trees_verified")
    M.count("ops_walked", len(nodes))
    M.count("tables", len(tables))
    M.count(f"table_depth:{min(depth, 6)}")
    for n in nodes:
        M.sets.setdefault("op_kinds", set()).add(n.op.name)
        if n.table:
            M.sets.setdefault("table_kinds", set()).add(n.op.name + ("" if n.name is not None else " (unnamed)"))
        if n.symbol:
            M.count("symbols:" + (n.vis or "no-visibility"))
    M.sets.setdefault("name_pools", set()).add(repr(P.pool))

    sample_text = str(root.op) if len(nodes) <= 16 and len(M.res["samples"]) < 2 else None
    coll = E.STC()
    issued = run_lookups(M, root, tseed, rng, coll, None, state, "fresh", per_op=3 if len(nodes) < 30 else 2)
    structural_checks(M, root, tseed, coll, None, state, "fresh")
    # the same references through the SAME (now warm) collection in another order, and through a second one
    # filled in reverse order: answers may not depend on what was cached first
    coll2 = E.STC()
    order = list(reversed(issued))
    for (o, path, form) in order[: max(10, len(order) // 2)]:
        lookup_everywhere(M, root, tseed, o, path, form, rng, coll2, None, state, "second-collection-reversed")
    rng.shuffle(order)
    for (o, path, form) in order[: max(10, len(order) // 3)]:
        lookup_everywhere(M, root, tseed, o, path, form, rng, coll, None, state, "warm-collection-shuffled")

    edited = False
    if with_edits and tables and rng.random() < 0.5:
        out = edit_phase(M, root, tseed, rng, coll, P, state)
        if out is not None:
            coll, removed = out
            try:
                root.op.verify()
                okv = True
            except Exception:  # noqa: BLE001 - e.g. the initial state of an fsm.machine was erased
                okv = False
                M.count("post_edit_unverifiable_skipped")
            if okv:
                edited = True
                M.count("trees_edited")
                cross_check(root)
                run_lookups(M, root, tseed, rng, coll, removed, state, "after-edits", per_op=2)
                structural_checks(M, root, tseed, coll, removed, state, "after-edits")
                fresh = E.STC()
                for o in list(root.walk())[:12]:
                    Tn = ref_nearest_table(o)
                    if Tn is None:
                        continue
                    path = directed_path(rng, Tn, state["names"])
                    lookup_everywhere(M, root, tseed, o, path, rng.choice(FORMS1 if len(path) == 1 else FORMSN),
                                      rng, fresh, None, state, "after-edits-new-collection")

    name_count = {}
    for n in nodes:
        if n.name is not None:
            name_count[n.name] = name_count.get(n.name, 0) + 1
    nontrivial = (depth >= 2 and any(v > 1 for v in name_count.values()) and "hit-nested" in state["causes"]
                  and bool(state["causes"] & {"miss-nested", "miss-private", "miss-nontable"}))
    if nontrivial:
        M.res["nontrivial"].append(shash((root.canon() if not edited else (root.canon(), tuple(state["edit_log"])))))
        M.count("nontrivial_trees")
    if sample_text is not None and nontrivial and len(M.res["samples"]) < 2:
        M.res["samples"].append({"tree_seed": tseed, "module": sample_text, "lookups_in_batch": len(issued),
                                 "some_lookups": state["sample_lookups"][:6], "edits_afterwards": state["edit_log"]})


# ------------------------------------------------------------------------------------------ plan / work / finish
def plan(tier, seed):
    shards = 16 if tier == "quick" else 64  # worker start-up (imports) costs ~1.5 CPU-s: few, fat shards in quick
    per = 128 if tier == "quick" else 2400
    if os.environ.get("XV_PYPATH") and os.environ.get("XV_C29_PER"):  # mutant self-tests on a loaded machine only
        per = int(os.environ["XV_C29_PER"])
    return [{"kind": "trees", "base": (seed * 4096 + s) * 1_000_000, "count": per} for s in range(shards)]


def work(job):
    E = _env()
    res = {"evaluations": 0, "nontrivial": [], "samples": [], "counters": {}, "sets": {}, "violations": [], "extra": {}}
    M = Monitor(E, res, job)
    unimplemented_probe(M)
    for i in range(job["count"]):
        one_tree(M, job["base"] + i)
    for k, v in E.reach.items():
        res["counters"]["reach:" + k] = v
    res["sets"] = {k: sorted(v) for k, v in res["sets"].items()}
    return res


def finish(agg, tier):
    c = agg.counters
    inc = []
    scale = 1 if tier == "quick" else 20

    def need(key, n):
        if c.get(key, 0) < n:
            inc.append(f"{key} = {c.get(key, 0)} < {n}")

    need("trees_verified", 1000 * scale)
    if c.get("gen_invalid", 0) * 50 > c.get("trees_generated", 1):
        inc.append(f"generator produced {c.get('gen_invalid', 0)} unverifiable trees of {c.get('trees_generated', 0)}")
    for api in ("SymbolTable.lookup_nearest_symbol_from", "SymbolTableCollection.lookup_nearest_symbol_from",
                "traits.SymbolTable.lookup_symbol"):
        need("compared:" + api, 20000 * scale)
    for api in ("SymbolTable.lookup_symbol_in", "SymbolTableCollection.lookup_symbol_in",
                "SymbolTable.lookup_symbol_in[all]", "SymbolTableCollection.lookup_symbol_in[all]",
                "SymbolTable.lookup", "SymbolTable.lookup[cached]"):
        need("compared:" + api, 3000 * scale)
    need("compared:traits.SymbolTable.insert_or_update", 100 * scale)
    for cause in CAUSES:
        need("cause:" + cause, 300 * scale)
    for f in set(FORMS1 + FORMSN):
        need("form:" + f, 1000 * scale)
    for e in ("erase", "remove", "remove-again", "remove-foreign", "insert-new", "insert-replace", "insert-bad"):
        need("edit:" + e, 60 * scale)
    need("refs:after-edits", 2000 * scale)
    need("refs:second-collection-reversed", 3000 * scale)
    need("refs:warm-collection-shuffled", 3000 * scale)
    need("table_depth:3", 100 * scale)
    need("nontrivial_trees", 200 * scale)
    for k in ("symbol_table._lookup_symbol_ref_in", "symbol_table._lookup_symbol_in_direct_children",
              "SymbolTable.lookup_symbol_in", "SymbolTable.lookup_nearest_symbol_from", "SymbolTable.__init__",
              "SymbolTable.lookup", "SymbolTable.remove", "SymbolTable.erase",
              "SymbolTableCollection.lookup_symbol_in", "SymbolTableCollection.get_symbol_table",
              "traits.SymbolTable.lookup_symbol", "traits.SymbolTable.insert_or_update"):
        need("reach:" + k, 100)
    if len(agg.sets.get("table_kinds", ())) < 8:
        inc.append(f"only {len(agg.sets.get('table_kinds', ()))} table kinds generated")
    now = sorted(k for k in c if k.startswith("api_now_implemented:"))
    if now:
        inc.append("SymbolTable API stubs are implemented now and have no model in this check: " + ", ".join(now))
    return {"inconclusive": inc,
            "coverage": {"anchors": {k[6:]: v for k, v in sorted(c.items()) if k.startswith("reach:")},
                         "excluded": {"generated_trees_not_verifying": c.get("gen_invalid", 0),
                                      "edited_trees_not_verifying_skipped": c.get("post_edit_unverifiable_skipped", 0)}}}
