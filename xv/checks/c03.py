"""C03 - Structural equivalence holds exactly for isomorphic IR.

Every pair (a, b) is decided twice: by the real `a.is_structurally_equivalent(b)` (and the reverse call) and by
the independent canonical form `xv.canon.canon_ir` (positional numbering of values/blocks, outside references
as identity tokens, names and locations ignored). Pairs:
  * generated IR (xv.genir: module / op / region / block roots, forward value and block references, def-use
    cycles, enclosing and outside values): (x, x), (x, clone x), (x, independently re-built x), nested ATTACHED
    nodes against themselves and against their counterpart in the re-built tree, (x, re-built single-point
    mutant of x) for 25 mutation kinds, neutral mutants (name hints, dict insertion order), IR-level edits of a
    clone (operand rewiring, in-place retyping, attribute edits, op/block reordering), cross-kind pairs;
  * corpus modules: (m, m), (m, clone m), (m, re-parsed m), neighbours, and text-level single-token mutants;
  * the users of the relation: CSE's OperationInfo.__eq__/__hash__ and KnownOps lookups on twin ops,
    HashableModule.__eq__/__hash__, and ModulePass.schedule_space (default implementation; must return the
    pass iff applying it changed the canonical form of the clone it ran on and did not raise).
A second, executable model of the relation with the three KNOWN defects of the unchanged tree as toggles
(result types ignored / forward references fall back to identity / parent check at an attached root) is used
only to classify a disagreement under a narrow known-finding key; with all toggles off it must coincide with
the canonical-form oracle (asserted on every pair: a self-check of the two oracles)."""
from __future__ import annotations

import random
import re

from xv.harness import shash

ID = "C03"
LEVEL = "exploration"
RULE = ("pair = (IR a, IR b, how b was derived from a); mutant pairs are non-trivial only if the canonical forms differ, "
        "equal pairs (identity / clone / re-build / re-parse / neutral mutant) only if a has >= 10 ops or a forward or "
        "outside reference; OperationInfo and schedule_space cases are non-trivial if the op has a region or operands / "
        "the pass changed its clone; distinct by hash of (canonical form of a with identity tokens blanked, derivation)")
LEVEL_TEXT = ("Each generated, corpus and mutated pair is decided by the real is_structurally_equivalent (both directions) and "
              "by an independent canonical-form comparison; CSE's OperationInfo, HashableModule and schedule_space are "
              "checked against the same oracle; held = no pair disagreed on the pairs explored.")
LEVEL_NOTE = ("trusts xv.canon.canon_ir as the definition of isomorphism (positional bijection, outside references by "
              "identity), xv.genir (references respect scoping; no IR references values internal to the other side of a "
              "pair) and CPython; attribute equality is compared structurally (float corner cases belong to C08)")
TECHNIQUE = "reference-model differential monitor: real relation vs canonical-form oracle on generated, corpus and single-point mutated pairs"
ENGINES = ["harness", "canon", "corpus"]
ASSUMPTIONS = ["canon_ir equality is exactly the relation the property defines",
               "no pair contains IR that references a value or block defined inside the other side (ill-scoped IR)",
               "attribute pools avoid NaN / signed-zero payloads (Attribute.__eq__ corner cases are property C08)"]
JOB_TIMEOUT = {"quick": 600, "thorough": 3600}

K_TYPES = "structural-equivalence:result-types-ignored"
K_FWD = "structural-equivalence:forward-reference-falls-back-to-identity"
K_PARENT = "structural-equivalence:attached-root-op-compared-by-parent-block"
K_OI_ZIP = "cse:OperationInfo.__eq__:ValueError-on-different-region-count"
K_ATTR_NOFIELDS = "attribute-eq:parametrized-attribute-without-dataclass-fields-ignores-parameters"
K_ATTR_UNREG = "attribute-eq:unregistered-attribute-class-created-per-context"


# ------------------------------------------------------------------------------------------------ model of the relation
def model_equiv(a, b, *, types=True, prereg=True, parent_bug=False):
    """Executable model of structural equivalence. With the default toggles it is the relation of the property
    (and must agree with canonical-form equality); each toggle re-introduces one KNOWN defect of the unchanged tree:
      types=False      result types are not compared
      prereg=False     values are registered in the correspondence only when their definition is reached, so a forward
                       reference is compared by identity
      parent_bug=True  an op whose parent block is not in the correspondence is rejected when both ops are attached"""
    from xdsl.ir import Block, Operation, Region
    from xv.canon import canon_attr
    ctx: dict = {}

    def get(x):
        return ctx.get(id(x), x)

    def cattrs(d):
        return sorted((k, canon_attr(v)) for k, v in d.items())

    def prereg_block(x, y):
        xo, yo = _bops(x), _bops(y)
        if len(x._args) != len(y._args) or len(xo) != len(yo):
            return False
        for p, q in zip(x._args, y._args):
            ctx[id(p)] = q
        for o, p in zip(xo, yo):
            if len(o.results) != len(p.results):
                return False
            for r, s in zip(o.results, p.results):
                ctx[id(r)] = s
        return True

    def op_eq(x, y):
        if not isinstance(y, Operation) or x.name != y.name:
            return False
        if len(x._operands) != len(y._operands) or len(x.results) != len(y.results) or len(x.regions) != len(y.regions) \
                or len(x._successors) != len(y._successors) or cattrs(x.attributes) != cattrs(y.attributes) \
                or cattrs(x.properties) != cattrs(y.properties):
            return False
        if types and [canon_attr(r.type) for r in x.results] != [canon_attr(r.type) for r in y.results]:
            return False
        if x.parent is not None and y.parent is not None:
            if parent_bug:
                if ctx.get(id(x.parent)) is not y.parent:
                    return False
            elif id(x.parent) in ctx and ctx[id(x.parent)] is not y.parent:
                return False
        if prereg:  # an op may use its own results (graph regions), also in its own operand list
            for r, s in zip(x.results, y.results):
                ctx[id(r)] = s
        if not all(get(o) is p for o, p in zip(x._operands, y._operands)):
            return False
        if not all(get(o) is p for o, p in zip(x._successors, y._successors)):
            return False
        if not all(region_eq(r, s) for r, s in zip(x.regions, y.regions)):
            return False
        for r, s in zip(x.results, y.results):
            ctx[id(r)] = s
        return True

    def block_eq(x, y):
        if not isinstance(y, Block):
            return False
        xo, yo = _bops(x), _bops(y)
        if len(x._args) != len(y._args) or len(xo) != len(yo):
            return False
        if prereg and not prereg_block(x, y):
            return False
        for p, q in zip(x._args, y._args):
            if canon_attr(p.type) != canon_attr(q.type):
                return False
            ctx[id(p)] = q
        ctx[id(x)] = y
        return all(op_eq(o, p) for o, p in zip(xo, yo))

    def region_eq(x, y):
        if not isinstance(y, Region):
            return False
        xb, yb = _rblocks(x), _rblocks(y)
        if len(xb) != len(yb):
            return False
        for p, q in zip(xb, yb):
            ctx[id(p)] = q
        if prereg:
            for p, q in zip(xb, yb):
                if not prereg_block(p, q):
                    return False
        return all(block_eq(p, q) for p, q in zip(xb, yb))

    if isinstance(a, Operation):
        return op_eq(a, b)
    if isinstance(a, Block):
        return block_eq(a, b)
    return region_eq(a, b)


def attr_eq_culprits(a, b):
    """Attribute pairs met at corresponding positions of two same-shaped trees on which Attribute.__eq__ and the
    canonical form disagree (innermost such pairs): [(x, y, canon_equal, real_equal)]."""
    from xdsl.ir import Attribute, Data, ParametrizedAttribute
    from xv.canon import canon_attr
    from xv.genir import collect
    out = []

    def children(x):
        if isinstance(x, ParametrizedAttribute):
            return [p for p in x.parameters if isinstance(p, Attribute)]
        if isinstance(x, Data):
            d = x.data
            if isinstance(d, (tuple, list)):
                return [p for p in d if isinstance(p, Attribute)]
            if isinstance(d, dict):
                return [d[k] for k in sorted(d) if isinstance(d[k], Attribute)]
        return []

    def inner(x, y):
        ce, re_ = canon_attr(x) == canon_attr(y), bool(x == y)
        if ce == re_:
            return
        cx, cy = children(x), children(y)
        if len(cx) == len(cy):
            n = len(out)
            for p, q in zip(cx, cy):
                inner(p, q)
            if len(out) > n:
                return
        out.append((x, y, ce, re_))

    oa, ba, _, _ = collect(a)
    ob, bb, _, _ = collect(b)
    for x, y in zip(oa, ob):
        for r, s in zip(x.results, y.results):
            inner(r.type, s.type)
        for d, e in ((x.attributes, y.attributes), (x.properties, y.properties)):
            for k in d:
                if k in e:
                    inner(d[k], e[k])
    for x, y in zip(ba, bb):
        for p, q in zip(x._args, y._args):
            inner(p.type, q.type)
    return out


def attr_culprit_class(x, y, canon_equal, real_equal):
    """Names the KNOWN Attribute.__eq__ mechanism (property C08) behind one culprit pair, or None."""
    import dataclasses
    from xdsl.dialects.builtin import UnregisteredAttr
    from xdsl.ir import ParametrizedAttribute
    if real_equal and not canon_equal and isinstance(x, ParametrizedAttribute) and type(x) is type(y) \
            and len(x.parameters) > 0 and not dataclasses.fields(type(x)):
        # the class declares parameters but is not a dataclass of its own (classes created from .irdl files, DLTI entry
        # maps): the inherited dataclass __eq__ has no field to compare
        return K_ATTR_NOFIELDS
    if canon_equal and not real_equal and isinstance(x, UnregisteredAttr) and isinstance(y, UnregisteredAttr) \
            and type(x) is not type(y):
        return K_ATTR_UNREG
    return None


def _bops(b):
    out = []
    o = b._first_op
    while o is not None:
        out.append(o)
        o = o._next_op
    return out


def _rblocks(r):
    out = []
    b = r._first_block
    while b is not None:
        out.append(b)
        b = b._next_block
    return out


def _model_real_attr_eq(a, b):
    """the relation of the property, except that attributes and types are compared with the real Attribute.__eq__"""
    import xv.canon as cn
    orig = cn.canon_attr

    class Box:
        __slots__ = ("a",)

        def __init__(self, a):
            self.a = a

        def __eq__(self, o):
            return self.a == o.a

        def __lt__(self, o):
            return False

        def __hash__(self):
            return 0
    cn.canon_attr = Box
    try:
        return model_equiv(a, b)
    finally:
        cn.canon_attr = orig


class Violation(Exception):
    def __init__(self, key, summary):
        super().__init__(summary)
        self.key, self.summary = key, summary


def canon(x):
    from xv.canon import canon_ir
    return canon_ir(x, normalise=False)


def kind_of(x):
    from xdsl.ir import Block, Operation
    return "op" if isinstance(x, Operation) else "block" if isinstance(x, Block) else "region"


def blank(c):
    """canonical form with identity tokens blanked (stable across processes)."""
    if isinstance(c, tuple):
        if len(c) == 2 and c[0] in ("ext", "extb") and isinstance(c[1], int):
            return (c[0],)
        return tuple(blank(x) for x in c)
    return c


def ill_scoped_pair(a, b):
    from xv.genir import collect
    oa, ba, _, va = collect(a)
    ob, bb, _, vb = collect(b)
    ia = {id(x) for x in va} | {id(x) for x in ba}
    ib = {id(x) for x in vb} | {id(x) for x in bb}
    if ia & ib:
        return True  # overlapping trees (one node nested in the other)
    return any(id(x) in ib for o in oa for x in tuple(o._operands) + tuple(o._successors)) or \
        any(id(x) in ia for o in ob for x in tuple(o._operands) + tuple(o._successors))


def visible_values(op):
    """Values an operand of `op` may reference without violating scoping (raw-field walk up the parent chain)."""
    out = []
    cur = op
    while cur is not None and cur.parent is not None:
        blk = cur.parent
        reg = blk.parent
        for b in (_rblocks(reg) if reg is not None else [blk]):
            out.extend(b._args)
            for o in _bops(b):
                out.extend(o.results)
        cur = reg.parent if reg is not None else None
    return out


def decide_pair(a, b, how, C, strict_model=True):
    """Compare the real relation with the oracle on (a, b) and (b, a). Raises Violation. Returns oracle verdict."""
    def bump(k, n=1):
        C[k] = C.get(k, 0) + n

    same_kind = kind_of(a) == kind_of(b)
    if a is not b and same_kind and ill_scoped_pair(a, b):
        # one side uses a value/block defined INSIDE the other side: outside the property's domain (see ASSUMPTIONS)
        bump("skipped:pair-with-reference-into-other-side")
        return None
    oracle = same_kind and canon(a) == canon(b)
    bump("pairs_oracle_equal" if oracle else "pairs_oracle_different")
    if same_kind and strict_model:
        m = model_equiv(a, b)
        if m != oracle or model_equiv(b, a) != oracle:
            raise RuntimeError(f"harness self-check: executable model ({m}) and canonical-form oracle ({oracle}) disagree "
                               f"on a pair derived by {how}")
        bump("oracle_selfchecks")
    for x, y, d in ((a, b, "a~b"), (b, a, "b~a")):
        try:
            real = x.is_structurally_equivalent(y)
        except Exception as e:  # noqa: BLE001
            raise Violation(f"crash:{type(e).__name__}:is_structurally_equivalent", f"{how} ({d}): raised {type(e).__name__}: {e}")
        bump("real_calls")
        if real is not True and real is not False:
            raise Violation("structural-equivalence:non-bool-result", f"{how}: returned {real!r}")
        if real == oracle:
            continue
        key = "structural-equivalence:" + ("reports-different-for-isomorphic" if oracle else "reports-equivalent-for-non-isomorphic")
        if same_kind:
            # does a single KNOWN defect explain the observed answer?
            explained = [k for k, kw in ((K_TYPES, dict(types=False)), (K_FWD, dict(prereg=False)),
                                         (K_PARENT, dict(parent_bug=True)))
                         if model_equiv(x, y, **kw) == real]
            if len(explained) == 1:
                key = explained[0]
            elif not explained and _model_real_attr_eq(x, y) == real:
                # the relation itself is right; Attribute.__eq__ (property C08) and the canonical form disagree
                cul = attr_eq_culprits(x, y)
                kinds = {attr_culprit_class(*c) for c in cul}
                if cul and len(kinds) == 1 and None not in kinds:
                    key = kinds.pop()
                elif cul:
                    bad = next(c for c in cul if attr_culprit_class(*c) is None)
                    key = "structural-equivalence:Attribute.__eq__-disagrees-with-canonical-form:" + type(bad[0]).__name__
            elif len(explained) > 1:
                # several single defects give the observed answer; prefer the one whose precondition holds
                from xdsl.ir import Operation
                if K_PARENT in explained and isinstance(x, Operation) and x.parent is not None and y.parent is not None:
                    key = K_PARENT
                elif K_FWD in explained and oracle:
                    key = K_FWD
                else:
                    key = explained[0]
        raise Violation(key, f"{how} ({d}): is_structurally_equivalent={real} but canonical forms are "
                        f"{'equal' if oracle else 'different'}")
    bump("pairs_agreeing")
    return oracle


# ------------------------------------------------------------------------------------------------ generated pairs
def ir_text(x):
    import io
    from xdsl.ir import Block, Operation
    from xdsl.printer import Printer
    s = io.StringIO()
    p = Printer(stream=s, print_generic_format=True)
    try:
        if isinstance(x, Operation):
            p.print_op(x)
        elif isinstance(x, Block):
            p.print_block(x)
        else:
            p.print_region(x)
    except Exception as e:  # noqa: BLE001
        return f"<unprintable: {e}>"
    return s.getvalue()[:3000]


def gen_case(rng, res, C, sets, viol, nontrivial):
    """One generated spec and all the pairs derived from it."""
    from xdsl.dialects.builtin import StringAttr, i32, i64
    from xdsl.ir import Block, Operation, Region
    from xdsl.rewriter import Rewriter
    from xv import genir

    def bump(k, n=1):
        C[k] = C.get(k, 0) + n

    root = rng.choice(("module", "module", "op", "op", "region", "block"))
    hostile = rng.random() < 0.55
    kw = dict(root=root, n_outside=0 if root == "module" and rng.random() < 0.6 else rng.choice((1, 2)),
              max_ops=rng.choice((5, 12, 20, 30, 40)), max_depth=rng.choice((1, 2, 3)))
    cfg = genir.Cfg.hostile(**kw) if hostile else (genir.Cfg(**kw) if rng.random() < 0.5 else genir.Cfg.plain(**kw))
    spec = genir.gen_spec(rng, cfg)
    f = genir.features(spec)
    x = genir.build(spec)
    keep = [x]
    rich = f["ops"] >= 10 or f["fwd_value_refs"] or f["outside_refs"]
    base = blank(canon(x.root))
    for k in ("fwd_value_refs", "fwd_block_refs", "value_cycles", "outside_refs", "enclosing_refs", "own_result_in_region"):
        if f[k]:
            bump("specs_with_" + k)
    bump("specs")
    bump("spec_ops", f["ops"])

    def pair(a, b, how, equal_expected=None, mut_kind=None, note=""):
        res["evaluations"] += 1
        bump("pairs:" + how.split(":")[0])
        try:
            o = decide_pair(a, b, how + (" " + note if note else ""), C)
        except Violation as v:
            viol(v, {"derivation": how, "note": note, "spec": spec, "a": genir.spec_text(spec),
                     "a_ir": ir_text(a), "b_ir": ir_text(b)})
            return None
        if equal_expected is not None and o != equal_expected:
            raise RuntimeError(f"harness: pair derived by {how} expected oracle={equal_expected}, canonical forms say {o}")
        if o is None:
            return None
        if mut_kind:
            bump(f"mut:{mut_kind}:{'isomorphic' if o else 'different'}")
            if not o:
                sets.setdefault("mutation_kinds_detected", set()).add(mut_kind)
                nontrivial(shash((base, how, note)))
        elif o and rich:
            nontrivial(shash((base, how)))
        return o

    # reflexivity
    pair(x.root, x.root, "identity", True)
    # clone
    if isinstance(x.root, (Operation, Region)):
        c = x.root.clone()
        keep.append(c)
        pair(x.root, c, "clone", True)
    # independent re-build (shares the outside values)
    y = genir.build(spec, outside=x.outside)
    keep.append(y)
    pair(x.root, y.root, "rebuild", True)
    # nested nodes: attached ops / regions / blocks against themselves and against the counterpart of the re-build
    ops, blocks, regions, _ = genir.collect(x.root)
    ops2, blocks2, regions2, _ = genir.collect(y.root)
    for _ in range(3):
        which = rng.choice(("op", "op", "region", "block"))
        seq, seq2 = {"op": (ops, ops2), "region": (regions, regions2), "block": (blocks, blocks2)}[which]
        if not seq:
            continue
        i = rng.randrange(len(seq))
        n, n2 = seq[i], seq2[i]
        if n is x.root:
            continue
        bump("nested_attached_" + which)
        pair(n, n, f"nested-identity:{which}")
        pair(n, n2, f"nested-rebuild:{which}")
        if which in ("op", "region"):
            cn = n.clone()
            keep.append(cn)
            pair(n, cn, f"nested-clone:{which}", True)
        j = rng.randrange(len(seq))
        if j != i:
            pair(n, seq[j], f"nested-sibling:{which}")
    # cross-kind
    if regions and ops:
        pair(rng.choice(ops), rng.choice(regions), "cross-kind", False)
    if blocks and regions:
        pair(rng.choice(blocks), rng.choice(regions), "cross-kind", False)
    # spec-level single-point mutants (independently built)
    kinds = list(genir.MUTATION_KINDS)
    rng.shuffle(kinds)
    for mk in kinds[:9]:
        m = genir.mutate_spec(rng, spec, mk)
        if m is None:
            bump("mut_not_applicable:" + mk)
            continue
        z = genir.build(m[0], outside=x.outside)
        keep.append(z)
        pair(x.root, z.root, "spec-mutant:" + mk, None, mk, m[2])
    for mk in genir.NEUTRAL_KINDS:
        m = genir.mutate_spec(rng, spec, mk)
        if m is None:
            continue
        z = genir.build(m[0], outside=x.outside)
        keep.append(z)
        pair(x.root, z.root, "neutral-mutant:" + mk, True)
    # float corner cases: two independent builds that differ only in the bits of one float attribute (NaN payload /
    # quiet bit / sign, signed zero, infinities; bare or nested in array / dictionary / dense attributes), as attribute
    # or property of a random op. The canonical form compares bit patterns, so it decides.
    import copy as _copy
    spec_ops = [o for o in genir.walk_ops(spec) if o["name"] != "builtin.module"]
    for _ in range(3):
        if not spec_ops:
            break
        fam, ka, kb = rng.choice(genir.FLOAT_EDGE_FAMILIES)
        oid = rng.choice(spec_ops)["id"]
        field = rng.choice(("attrs", "props"))
        builds = []
        for key in (ka, kb):
            s2 = _copy.deepcopy(spec)
            o2 = next(o for o in genir.walk_ops(s2) if o["id"] == oid)
            name = "fbits" if field == "attrs" else ("prop3" if o2["name"].startswith("test.") else "p1")
            o2[field] = [e for e in o2[field] if e[0] != name] + [[name, key]]
            builds.append(genir.build(s2, outside=x.outside))
        keep.extend(builds)
        pair(builds[0].root, builds[1].root, "float-bits:" + fam.split(":")[0], None, "float_bits:" + fam, f"{field} {ka} vs {kb}")
    # unregistered attributes / types with the SAME name and different bodies (#foo.bar<1> vs #foo.bar<2>, !foo.vec<4> vs
    # !foo.vec<8>, opaque spelling, nested in array / dictionary / tensor / function types) as attribute, property,
    # result type (hence operand type of its users) or block-argument type of one node
    spec_blocks = [b for b in genir.walk_blocks(spec) if b["args"]]
    for _ in range(3):
        place = rng.choice(("attrs", "props", "res", "res", "args"))
        if place in ("attrs", "props"):
            fam, ka, kb = rng.choice(genir.UNREG_ATTR_FAMILIES)
        else:
            fam, ka, kb = rng.choice(genir.UNREG_TYPE_FAMILIES)
        cands = spec_ops if place in ("attrs", "props") else [o for o in spec_ops if o["res"]] if place == "res" else spec_blocks
        if not cands:
            continue
        nid = rng.choice(cands)["id"]
        slot = rng.randrange(8)
        builds = []
        for key in (ka, kb):
            s2 = _copy.deepcopy(spec)
            if place == "args":
                n2 = next(b for b in genir.walk_blocks(s2) if b["id"] == nid)
                n2["args"][slot % len(n2["args"])] = key
            else:
                n2 = next(o for o in genir.walk_ops(s2) if o["id"] == nid)
                if place == "res":
                    n2["res"][slot % len(n2["res"])] = key
                else:
                    name = "ubody" if place == "attrs" else ("prop2" if n2["name"].startswith("test.") else "p0")
                    n2[place] = [e for e in n2[place] if e[0] != name] + [[name, key]]
            builds.append(genir.build(s2, outside=x.outside))
        keep.extend(builds)
        pair(builds[0].root, builds[1].root, "unreg-body:" + place, None, f"unreg_body:{place}:{fam}", f"{place} {ka} vs {kb}")
    # IR-level edits of a clone / re-build
    for _ in range(3):
        z = genir.build(spec, outside=x.outside)
        keep.append(z)
        zo, zb, zr, zv = genir.collect(z.root)
        ek = rng.choice(("retype", "operand", "attr", "prop", "swap_ops", "move_block", "erase_op", "succ"))
        note = ""
        if ek == "retype" and zv:
            v = rng.choice(zv)
            nt = i64 if v.type == i32 else i32
            Rewriter.replace_value_with_new_type(v, nt)
            note = "in-place retype of one value"
        elif ek == "operand":
            cands = [o for o in zo if o._operands]
            if not cands:
                continue
            o = rng.choice(cands)
            sid = next(k for k, v in z.ops.items() if v is o)
            refs = [r for r in genir.visible_refs(spec, sid)]
            if not refs:
                continue
            o.operands[rng.randrange(len(o._operands))] = z.value(rng.choice(refs))
            note = "operand rewired through OpOperands.__setitem__"
        elif ek == "attr" and zo:
            o = rng.choice(zo)
            o.attributes["edit.k"] = StringAttr("e")
            note = "attribute added"
        elif ek == "prop" and zo:
            o = rng.choice(zo)
            o.properties["prop1" if o.name.startswith("test.") else "p0"] = StringAttr("e")
            note = "property set"
        elif ek == "swap_ops":
            cands = [b for b in zb if len(_bops(b)) >= 2]
            if not cands:
                continue
            b = rng.choice(cands)
            bo = _bops(b)
            i = rng.randrange(len(bo) - 1)
            o = bo[i]
            o.detach()
            b.insert_op_after(o, bo[i + 1])
            note = "adjacent ops swapped"
        elif ek == "move_block":
            cands = [r for r in zr if len(_rblocks(r)) >= 2]
            if not cands:
                continue
            r = rng.choice(cands)
            rb = _rblocks(r)
            b = rng.choice(rb)
            r.detach_block(b)
            r.insert_block(b, rng.randrange(len(rb)))
            note = "block moved"
        elif ek == "erase_op":
            cands = [o for o in zo if o.parent is not None and not o.regions and all(r.first_use is None for r in o.results)]
            if not cands:
                continue
            o = rng.choice(cands)
            keep.append(o)
            o.parent.erase_op(o)
            note = "unused op erased"
        elif ek == "succ":
            cands = [o for o in zo if o._successors and o.parent is not None and o.parent.parent is not None]
            if not cands:
                continue
            o = rng.choice(cands)
            o.successors[rng.randrange(len(o._successors))] = rng.choice(_rblocks(o.parent.parent))
            note = "successor rewired"
        else:
            continue
        pair(x.root, z.root, "ir-edit:" + ek, None, "ir-edit:" + ek, note)
    if len(res["samples"]) < 1:
        res["samples"].append({"root": root, "ir": genir.spec_text(spec)[:1200],
                               "pairs": "identity, clone, rebuild, nested, spec-mutants, neutral mutants, ir edits"})
    return keep


# ------------------------------------------------------------------------------------------------ OperationInfo (CSE)
def oi_key(op):
    """Oracle for CSE's OperationInfo: name, attributes, properties, operands BY IDENTITY, result types, and regions by
    canonical form (references leaving a region - including to the op's own results - by identity)."""
    from xdsl.dialects.builtin import UnregisteredOp
    from xv.canon import canon_attr, canon_ir
    name = op.op_name.data if isinstance(op, UnregisteredOp) else op.name
    return (name, tuple(sorted((k, canon_attr(v)) for k, v in op.attributes.items())),
            tuple(sorted((k, canon_attr(v)) for k, v in op.properties.items())),
            tuple(id(o) for o in op._operands), tuple(canon_attr(r.type) for r in op.results),
            tuple(canon_ir(r, normalise=False) for r in op.regions))


def oi_model(a, b, **kw):
    from xdsl.dialects.builtin import UnregisteredOp
    from xv.canon import canon_attr
    ka, kb = oi_key(a), oi_key(b)
    if ka[:5] != kb[:5] or len(a.regions) != len(b.regions):
        return False
    return all(model_equiv(r, s, **kw) for r, s in zip(a.regions, b.regions))


def oi_case(rng, res, C, sets, viol, nontrivial):
    """Twin ops inside one block: an op and clones / edited clones of it that share its operands."""
    from xdsl.dialects.builtin import StringAttr, i32, i64
    from xdsl.rewriter import Rewriter
    from xdsl.transforms.common_subexpression_elimination import KnownOps, OperationInfo
    from xv import genir

    def bump(k, n=1):
        C[k] = C.get(k, 0) + n

    cfg = genir.Cfg.hostile(root="module", max_ops=rng.choice((10, 20, 30)), max_depth=rng.choice((1, 2, 3)), p_region=0.5,
                            p_successor=0.3) if rng.random() < 0.5 else \
        genir.Cfg(root="module", max_ops=rng.choice((10, 20, 30)), p_region=0.5)
    spec = genir.gen_spec(rng, cfg)
    x = genir.build(spec)
    ops, blocks, regions, values = genir.collect(x.root)
    cands = [o for o in ops if o.parent is not None and not o._successors]
    if not cands:
        return
    for _ in range(6):
        a = rng.choice(cands)
        if not genir.is_inside(a, x.root):
            continue
        b = a.clone()
        a.parent.insert_op_after(b, a)
        how = "twin"
        ek = rng.choice(("none", "none", "retype_nested", "retype_result", "attr", "operand", "add_region", "nested_attr",
                         "nested_operand", "prop", "float_bits", "float_bits", "unreg_body", "unreg_body"))
        bo, bb, br, bv = genir.collect(b)
        if ek == "retype_nested":
            nested = [v for v in bv if v not in b.results]
            if nested:
                v = rng.choice(nested)
                Rewriter.replace_value_with_new_type(v, i64 if v.type == i32 else i32)
                how = "twin+nested-retype"
        elif ek == "retype_result" and b.results:
            v = rng.choice(b.results)
            Rewriter.replace_value_with_new_type(v, i64 if v.type == i32 else i32)
            how = "twin+result-retype"
        elif ek == "float_bits":
            fam, ka, kb = rng.choice(genir.FLOAT_EDGE_FAMILIES)
            tgt_a, tgt_b = (a, b) if rng.random() < 0.6 or len(bo) < 2 else (genir.collect(a)[0][-1], bo[-1])
            tgt_a.attributes["fbits"] = genir.ATTRS[ka]
            tgt_b.attributes["fbits"] = genir.ATTRS[kb]
            how = "twin+float-bits:" + fam.split(":")[0]
        elif ek == "unreg_body":
            if rng.random() < 0.5 or not a.results:
                fam, ka, kb = rng.choice(genir.UNREG_ATTR_FAMILIES)
                tgt_a, tgt_b = (a, b) if rng.random() < 0.6 or len(bo) < 2 else (genir.collect(a)[0][-1], bo[-1])
                tgt_a.attributes["ubody"] = genir.ATTRS[ka]
                tgt_b.attributes["ubody"] = genir.ATTRS[kb]
                how = "twin+unreg-attr-body"
            else:
                fam, ka, kb = rng.choice(genir.UNREG_TYPE_FAMILIES)
                i = rng.randrange(len(a.results))
                if a.results[i].first_use is None or True:
                    Rewriter.replace_value_with_new_type(a.results[i], genir.TYPES[ka])
                    Rewriter.replace_value_with_new_type(b.results[i], genir.TYPES[kb])
                how = "twin+unreg-type-body"
        elif ek == "attr":
            b.attributes["edit.k"] = StringAttr("e")
            how = "twin+attr"
        elif ek == "prop":
            b.properties["prop2" if b.name.startswith("test.") else "p1"] = StringAttr("e")
            how = "twin+prop"
        elif ek == "operand" and b._operands and values:
            b.operands[rng.randrange(len(b._operands))] = rng.choice(values)
            how = "twin+operand"
        elif ek == "add_region":
            from xdsl.ir import Region
            b.add_region(Region())
            how = "twin+extra-region"
        elif ek == "nested_attr" and len(bo) > 1:
            rng.choice(bo[1:]).attributes["edit.k"] = StringAttr("e")
            how = "twin+nested-attr"
        elif ek == "nested_operand":
            c2 = [o for o in bo[1:] if o._operands]
            if c2:
                o = rng.choice(c2)
                vis = visible_values(o)
                if vis:
                    o.operands[rng.randrange(len(o._operands))] = rng.choice(vis)
                    how = "twin+nested-operand"
        res["evaluations"] += 1
        bump("operationinfo_pairs")
        bump("oi:" + how)
        oracle = oi_key(a) == oi_key(b)
        ia, ib = OperationInfo(a), OperationInfo(b)
        wit = {"derivation": how, "a_ir": ir_text(a), "b_ir": ir_text(b), "block_ir": ir_text(a.parent)}
        try:
            r1, r2 = ia == ib, ib == ia
            h1, h2 = hash(ia), hash(ib)
            known = KnownOps()
            known[a] = a
            found = known.get(b)
        except Exception as e:  # noqa: BLE001
            key = f"crash:{type(e).__name__}:OperationInfo"
            if isinstance(e, ValueError) and len(a.regions) != len(b.regions) and "zip()" in str(e):
                key = K_OI_ZIP
            viol(Violation(key, f"OperationInfo comparison of {how} raised {type(e).__name__}: {e}"), wit)
            b.detach()
            continue
        ok = True
        if r1 != r2:
            viol(Violation("cse:OperationInfo.__eq__:asymmetric", f"{how}: a==b is {r1}, b==a is {r2}"), wit)
            ok = False
        elif r1 != oracle:
            key = "cse:OperationInfo.__eq__:" + ("misses-equal-ops" if oracle else "equates-different-ops")
            expl = [k for k, kw in ((K_TYPES, dict(types=False)), (K_FWD, dict(prereg=False))) if oi_model(a, b, **kw) == r1]
            if len(expl) >= 1:
                key = expl[0]
            viol(Violation(key, f"{how}: OperationInfo equality is {r1}, oracle (name, attrs, props, operand identity, result "
                           f"types, region canonical forms) says {oracle}"), wit)
            ok = False
        elif r1 and h1 != h2:
            viol(Violation("cse:OperationInfo.__hash__:equal-objects-different-hash", f"{how}: equal but hashes differ"), wit)
            ok = False
        elif (found is a) != oracle:
            viol(Violation("cse:KnownOps.get:inconsistent-with-eq", f"{how}: KnownOps lookup {'hit' if found is a else 'missed'}"), wit)
            ok = False
        if ok:
            bump("operationinfo_agreeing")
            bump("operationinfo_equal" if oracle else "operationinfo_different")
            if a.regions or a._operands:
                nontrivial(shash((blank(oi_key_blank(a)), how)))
        b.detach()
    return x


def oi_key_blank(op):
    k = oi_key(op)
    return k[:3] + (len(k[3]),) + k[4:]


# ------------------------------------------------------------------------------------------------ corpus pairs
_TOK = re.compile(r"\bi32\b|\bi64\b|\bf32\b|\bf64\b|\bindex\b|\bi1\b|%[A-Za-z_0-9.$-]+|\^[A-Za-z_0-9.$-]+|\b\d+\b")
_ALT = {"i32": "i64", "i64": "i32", "f32": "f64", "f64": "f32", "index": "i64", "i1": "i8"}


def text_mutant(rng, text):
    ms = list(_TOK.finditer(text))
    ms = [m for m in ms if "//" not in text[text.rfind("\n", 0, m.start()) + 1:m.start()]]
    if not ms:
        return None
    m = rng.choice(ms)
    t = m.group(0)
    if t in _ALT:
        new = _ALT[t]
    elif t[0] in "%^":
        others = sorted({x.group(0) for x in ms if x.group(0)[0] == t[0] and x.group(0) != t})
        if not others:
            return None
        new = rng.choice(others)
    else:
        new = str(int(t) + 1)
    return text[:m.start()] + new + text[m.end():], f"token {t!r} -> {new!r} at offset {m.start()}"


def corpus_job(job, res, C, sets, viol, nontrivial):
    from xdsl.parser import Parser
    from xdsl.utils.hashable_module import HashableModule
    from xv import corpus

    def bump(k, n=1):
        C[k] = C.get(k, 0) + n

    rng = random.Random(job["seed"])
    chunks = corpus.shard(corpus.chunks(), job["shard"], job["nshards"])
    rng.shuffle(chunks)
    prev = None
    done = 0
    for rel, idx, text in chunks:
        if done >= job["n"]:
            break
        if len(text) > 15000:
            continue
        try:
            m = Parser(corpus.new_ctx(), text, rel).parse_module()
            m2 = Parser(corpus.new_ctx(), text, rel).parse_module()
        except BaseException as e:  # noqa: BLE001
            if isinstance(e, (KeyboardInterrupt, SystemExit)):
                raise
            bump("corpus_unparseable")
            continue
        done += 1
        bump("corpus_modules")
        base = blank(canon(m))
        nops = sum(1 for _ in m.walk())
        wit0 = {"file": rel, "chunk": idx}

        def pair(a, b, how, expect=None, note="", text_b=None):
            res["evaluations"] += 1
            bump("pairs:" + how)
            try:
                o = decide_pair(a, b, f"corpus {rel}#{idx} {how} {note}", C)
            except Violation as v:
                w = dict(wit0, derivation=how, note=note, a_text=text[:3000])
                if text_b:
                    w["b_text"] = text_b[:3000]
                viol(v, w)
                return None
            if o is None:
                return None
            if expect is not None and o != expect:
                raise RuntimeError(f"harness: corpus pair {how} of {rel}#{idx}: oracle {o}, expected {expect}")
            if (o and nops >= 10) or (not o):
                nontrivial(shash((base, how, note)))
            return o

        def hashable(a, b, how):
            """HashableModule is a thin wrapper: == must be the structural relation (which the pairs above compare with
            the oracle) and equal wrappers must hash equally."""
            ha, hb = HashableModule(a), HashableModule(b)
            eq, real = ha == hb, a.is_structurally_equivalent(b)
            bump("hashable_module_checks")
            if eq != real or (hb == ha) != real:
                viol(Violation("HashableModule.__eq__:differs-from-structural-equivalence",
                               f"{rel}#{idx} {how}: HashableModule == is {eq}, is_structurally_equivalent is {real}"),
                     dict(wit0, a_text=text[:3000]))
            elif eq and hash(ha) != hash(hb):
                viol(Violation("HashableModule.__hash__:equal-wrappers-different-hash", f"{rel}#{idx} {how}"),
                     dict(wit0, a_text=text[:3000]))
            elif len({ha, hb}) != (1 if eq else 2):
                viol(Violation("HashableModule:set-membership-inconsistent", f"{rel}#{idx} {how}"), dict(wit0, a_text=text[:3000]))

        pair(m, m, "corpus-identity", True)
        pair(m, m.clone(), "corpus-clone", True)
        # no expectation here: dialect resource handles are renamed on a second parse (process-global resource
        # state, a C04/C06 matter), so two parses of one text are not always canonically equal
        o = pair(m, m2, "corpus-reparse")
        if o is False:
            bump("reparse_not_canonically_equal")
        hashable(m, m2, "reparse")
        if prev is not None:
            pair(m, prev, "corpus-neighbour")
            hashable(m, prev, "neighbour")
        prev = m2
        # nested: first-level ops attached in the module
        tops = list(m.body.block.ops) if m.body.blocks else []
        tops2 = list(m2.body.block.ops) if m2.body.blocks else []
        if tops and len(tops) == len(tops2):
            i = rng.randrange(len(tops))
            pair(tops[i], tops[i], "corpus-nested-identity")
            pair(tops[i], tops2[i], "corpus-nested-reparse")
            if tops[i].regions:
                pair(tops[i].regions[0], tops2[i].regions[0], "corpus-nested-region-reparse")
        for _ in range(job.get("text_mutants", 4)):
            tm = text_mutant(rng, text)
            if tm is None:
                continue
            try:
                mm = Parser(corpus.new_ctx(), tm[0], rel).parse_module()
            except BaseException as e:  # noqa: BLE001
                if isinstance(e, (KeyboardInterrupt, SystemExit)):
                    raise
                bump("text_mutants_unparseable")
                continue
            o = pair(m, mm, "corpus-text-mutant", None, tm[1], tm[0])
            hashable(m, mm, "text-mutant " + tm[1])
            if o is not None:
                bump("text_mutants_isomorphic" if o else "text_mutants_different")
        if not res["samples"]:
            res["samples"].append({"file": rel, "chunk": idx, "pairs": "identity, clone, reparse, neighbour, nested, text mutants"})


# ------------------------------------------------------------------------------------------------ schedule_space
class CaseTimeout(BaseException):
    pass


def _alarm_handler(signum, frame):
    raise CaseTimeout()


def sched_job(job, res, C, sets, viol, nontrivial):
    import signal
    from xdsl.passes import ModulePass
    from xdsl.transforms import get_all_passes
    from xv import corpus, genir
    from xv.canon import canon_ir

    def bump(k, n=1):
        C[k] = C.get(k, 0) + n

    rng = random.Random(job["seed"])
    classes = []
    for name, f in sorted(get_all_passes().items()):
        try:
            cls = f()
        except Exception:  # noqa: BLE001
            continue
        if cls.schedule_space.__func__ is not ModulePass.schedule_space.__func__:
            bump("passes_with_own_schedule_space")
            continue
        classes.append((name, cls))
    C["passes_with_default_schedule_space"] = len(classes)
    common = [c for c in classes if c[0] in ("canonicalize", "cse", "dce", "constant-fold-interp", "licm",
                                             "scf-for-loop-range-folding", "convert-scf-to-cf", "lower-affine")]
    chunks = corpus.shard(corpus.chunks(), job["shard"], job["nshards"])
    rng.shuffle(chunks)
    mods = []
    for rel, idx, text in chunks:
        if len(mods) >= job["n"]:
            break
        if len(text) > 12000:
            continue
        mods.append(("corpus", rel, idx, text))
    for _ in range(max(3, job["n"] // 6)):
        spec = genir.gen_spec(rng, genir.Cfg(max_ops=rng.choice((8, 20, 30)), p_unregistered=0.1,
                                             w_fwd_same_block=rng.choice((0.0, 1.5))))
        mods.append(("gen", "", 0, spec))
    for kind, rel, idx, payload in mods:
        if kind == "corpus":
            got = corpus.parse_verified(payload)
            if got is None:
                bump("corpus_chunks_not_verifying")
                continue
            ctx, module = got
            wtext = payload[:3000]
        else:
            ctx = corpus.new_ctx()
            module = genir.build(payload).root
            wtext = genir.spec_text(payload)
        before = canon_ir(module, normalise=False)
        picks = rng.sample(classes, min(job.get("passes_per_module", 5), len(classes))) + ([rng.choice(common)] if common else [])
        if kind == "corpus":
            cmap = dict(classes)
            try:
                full = open(corpus.REPO + "/" + rel, encoding="utf-8").read()
            except OSError:
                full = ""
            for rl in corpus.run_lines(full):
                for nm in re.findall(r"[A-Za-z][A-Za-z0-9_-]+", " ".join(re.findall(r"(?:-p|--passes)[= ]\s*'?\"?([^ |]+)", rl))):
                    if nm in cmap and (nm, cmap[nm]) not in picks:
                        picks.append((nm, cmap[nm]))
                        bump("schedule_space_passes_from_run_lines")
        for pname, cls in picks:
            captured = {}
            orig = cls.apply

            def apply_spy(self, c, m, _orig=orig, _cap=captured):
                _cap["clone"] = m
                try:
                    _orig(self, c, m)
                except BaseException as e:  # noqa: BLE001
                    _cap["raised"] = type(e).__name__
                    raise
                _cap["done"] = True
            cls.apply = apply_spy
            signal.signal(signal.SIGALRM, _alarm_handler)
            signal.alarm(30)
            try:
                got_space = cls.schedule_space(ctx, module)
            except CaseTimeout:
                # a pass that does not terminate on this input: not this property; the shard must survive
                bump("schedule_space_timed_out")
                bump("schedule_space_timed_out:" + pname)
                continue
            except Exception as e:  # noqa: BLE001
                viol(Violation(f"crash:{type(e).__name__}:schedule_space", f"{pname}: schedule_space raised {type(e).__name__}: {e}"),
                     {"pass": pname, "module": wtext})
                continue
            finally:
                signal.alarm(0)
                cls.apply = orig
            res["evaluations"] += 1
            bump("schedule_space_calls")
            wit = {"pass": pname, "file": rel, "chunk": idx, "module": wtext}
            if canon_ir(module, normalise=False) != before:
                viol(Violation("schedule_space:original-module-changed", f"{pname}: schedule_space changed the module it was given"), wit)
                break
            if "clone" not in captured:
                # construction failed (pass needs arguments) -> must be ()
                bump("schedule_space_not_constructible")
                if got_space != ():
                    viol(Violation("schedule_space:returned-pass-without-applying", f"{pname}: returned {got_space!r}"), wit)
                continue
            if not captured.get("done"):
                bump("schedule_space_apply_raised")
                if got_space != ():
                    viol(Violation("schedule_space:returned-pass-although-apply-raised", f"{pname}: {captured.get('raised')}"), wit)
                continue
            clone = captured["clone"]
            changed = canon_ir(clone, normalise=False) != before
            bump("schedule_space_clone_changed" if changed else "schedule_space_clone_unchanged")
            ok_shape = isinstance(got_space, tuple) and (got_space == () or (len(got_space) == 1 and isinstance(got_space[0], cls)))
            if not ok_shape:
                viol(Violation("schedule_space:malformed-result", f"{pname}: returned {got_space!r}"), wit)
                continue
            if (len(got_space) == 1) != changed:
                real_equiv = len(got_space) == 0
                key = "schedule_space:" + ("omits-pass-that-changes-module" if changed else "returns-pass-that-changes-nothing")
                expl = [k for k, kw in ((K_TYPES, dict(types=False)), (K_FWD, dict(prereg=False)))
                        if model_equiv(module, clone, **kw) == real_equiv]
                if expl:
                    key = expl[0]
                wit["after"] = ir_text(clone)
                viol(Violation(key, f"{pname}: schedule_space returned {len(got_space)} pass(es) but the clone "
                               f"{'changed' if changed else 'did not change'}"), wit)
                continue
            bump("schedule_space_agreeing")
            sets.setdefault("schedule_space_passes", set()).add(pname)
            if changed:
                sets.setdefault("schedule_space_passes_changing", set()).add(pname)
                nontrivial(shash((wtext, pname)))
            if not res["samples"]:
                res["samples"].append({"pass": pname, "module": wtext[:600], "returned": len(got_space)})


# ------------------------------------------------------------------------------------------------ plan / work
def plan(tier, seed):
    jobs = []
    if tier == "quick":
        ng, per, noi, oper, nc, cper, ns, sper = 16, 36, 6, 120, 8, 40, 8, 30
    else:
        ng, per, noi, oper, nc, cper, ns, sper = 48, 300, 16, 1500, 16, 100, 16, 80
    for i in range(ng):
        jobs.append({"kind": "gen", "seed": seed * 100003 + i, "n": per})
    for i in range(noi):
        jobs.append({"kind": "oi", "seed": seed * 100003 + 5000 + i, "n": oper})
    for i in range(nc):
        jobs.append({"kind": "corpus", "seed": seed * 100003 + 6000 + i, "n": cper, "shard": i, "nshards": nc,
                     "text_mutants": 6 if tier == "quick" else 12})
    for i in range(ns):
        jobs.append({"kind": "sched", "seed": seed * 100003 + 7000 + i, "n": sper, "shard": i, "nshards": ns,
                     "passes_per_module": 5 if tier == "quick" else 10})
    return jobs


def work(job):
    res = {"evaluations": 0, "nontrivial": [], "samples": [], "counters": {}, "sets": {}, "violations": [], "extra": {}}
    C = res["counters"]
    sets: dict = {}
    per_key: dict = {}
    nt: set = set()

    def viol(v, witness):
        n = per_key.get(v.key, 0)
        per_key[v.key] = n + 1
        C["violating_pairs"] = C.get("violating_pairs", 0) + 1
        C["violation:" + v.key] = C.get("violation:" + v.key, 0) + 1
        if n < 3:
            res["violations"].append({"key": v.key, "summary": v.summary, "witness": witness})

    def nontrivial(h):
        nt.add(h)

    rng = random.Random(job["seed"])
    kind = job["kind"]
    if kind == "gen":
        for _ in range(job["n"]):
            gen_case(rng, res, C, sets, viol, nontrivial)
    elif kind == "oi":
        for _ in range(job["n"]):
            oi_case(rng, res, C, sets, viol, nontrivial)
    elif kind == "corpus":
        corpus_job(job, res, C, sets, viol, nontrivial)
    elif kind == "sched":
        sched_job(job, res, C, sets, viol, nontrivial)
    else:
        raise ValueError(kind)
    res["nontrivial"] = sorted(nt)
    res["sets"] = {k: sorted(v) for k, v in sets.items()}
    return res


def finish(agg, tier):
    from xv import genir
    c = agg.counters
    inc = []
    need = {"pairs_oracle_equal": 2000, "pairs_oracle_different": 2000, "oracle_selfchecks": 4000, "pairs:identity": 500,
            "pairs:clone": 300, "pairs:rebuild": 500, "pairs:nested-identity": 500, "pairs:corpus-reparse": 150,
            "pairs:corpus-text-mutant": 200, "operationinfo_pairs": 1500, "schedule_space_calls": 400,
            "specs_with_fwd_value_refs": 200, "specs_with_outside_refs": 200}
    for k, n in need.items():
        if c.get(k, 0) < n:
            inc.append(f"{k} = {c.get(k, 0)} < {n}")
    for mk in genir.MUTATION_KINDS:
        if c.get(f"mut:{mk}:different", 0) < 15:
            inc.append(f"mutation kind {mk}: only {c.get(f'mut:{mk}:different', 0)} non-isomorphic pairs")
    for place in ("attrs", "props", "res", "args"):
        n = sum(v for k, v in c.items() if k.startswith(f"mut:unreg_body:{place}:") and k.endswith(":different"))
        if n < 40:
            inc.append(f"only {n} pairs differing in the body of an unregistered attribute/type ({place})")
    fb = sum(v for k, v in c.items() if k.startswith("mut:float_bits:") and k.endswith(":different"))
    if fb < 300:
        inc.append(f"only {fb} pairs differing in float corner-case bits")
    if sum(v for k, v in c.items() if k.startswith("mut:float_bits:") and ":nan_q/nan_p1:" in k) < 20:
        inc.append("too few NaN-payload pairs")
    for mk in ("retype", "operand", "attr", "swap_ops"):
        if c.get(f"mut:ir-edit:{mk}:different", 0) < 15:
            inc.append(f"ir edit {mk}: only {c.get(f'mut:ir-edit:{mk}:different', 0)} non-isomorphic pairs")
    return {"inconclusive": inc, "coverage": {}}
