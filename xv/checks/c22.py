"""C22 - RISC-V backend output computes the source results and keeps callee state; RISC-V
canonicalization alone never changes results.

Reference-model differential monitor. Part 1: generated func/arith/scf programs are lowered with the
documented pipeline, the emitted ASSEMBLY TEXT is executed by xv.rvsim (independent RV32IMFD model, which
also rejects ill-formed assembly) and compared with xv.refsem on the source; callee-saved registers, sp and
ra are checked at `ret`. Part 2: generated riscv-dialect snippets are assembled twice, with and without
`canonicalize`, and both executions (registers, float registers, memory) must agree."""
from __future__ import annotations

import collections
import io
import math
import random
import re
import struct
import warnings

from xv.harness import shash

ID = "C22"
LEVEL = "exploration"
RULE = ("part 1: random func/arith/scf.for programs over i32/index/f32/f64 restricted to what the lowering supports "
        "(13 integer ops, f32/f64 add/sub/mul/div/min/max/neg, sitofp, fptosi, index_cast, constants at the 12-bit "
        "immediate boundaries, nested scf.for with iter_args), 6 boundary-biased input vectors each; part 2: random "
        "riscv-dialect snippets (integer rrr/rri/shift ops, li at immediate boundaries, x-op-x shapes, loads/stores "
        "through addi-derived pointers with offsets at the 12-bit boundary, f/d arithmetic) executed with and without "
        "canonicalize. A case is non-trivial when the pipeline succeeded and >= 1 input was compared (part 1) / when "
        "canonicalize changed the emitted assembly (part 2); distinct by program text")
LEVEL_TEXT = ("Every emitted assembly text is executed instruction by instruction on an independent RISC-V model and "
              "compared with independent reference semantics of the source (results, callee-saved state), and "
              "canonicalized vs non-canonicalized snippets are compared state for state; held = no disagreement on "
              "the programs and inputs explored.")
LEVEL_NOTE = ("trusts xv.rvsim (RV32IMFD semantics written from the ISA manual) and xv.refsem; i64/i8/i16, i1 results, "
              "select, scf.if/while and calls are rejected by the lowering itself (reported failure, counted)")
TECHNIQUE = "reference-model differential monitor: emitted assembly executed on an independent ISA model vs reference semantics of the source"
ENGINES = ["harness", "refsem", "rvsim"]
ASSUMPTIONS = ["RV32 target (xDSL's lowering emits rv32.li and 32-bit index)", "xv.rvsim and xv.refsem are correct"]
JOB_TIMEOUT = {"quick": 900, "thorough": 7200}

PIPE = ["convert-func-to-riscv-func", "convert-scf-to-riscv-scf", "convert-arith-to-riscv", "reconcile-unrealized-casts",
        "canonicalize", "riscv-allocate-registers", "riscv-lower-parallel-mov", "canonicalize",
        "riscv-prologue-epilogue-insertion", "convert-riscv-scf-to-riscv-cf", "canonicalize"]
IOPS = ["addi", "subi", "muli", "andi", "ori", "xori", "shli", "shrui", "shrsi", "divsi", "divui", "remsi", "remui"]
FOPS = ["addf", "subf", "mulf", "divf", "minimumf", "maximumf"]
ICONST = [0, 1, -1, 2, 5, 31, 32, 2047, 2048, -2048, -2049, 4095, 4096, 65536, 2147483647, -2147483648, 100000]
FCONST = ["0.0", "-0.0", "1.0", "-1.0", "0.5", "2.5", "-2.5", "3.5", "1.0e+10", "1.0e-10", "7.0", "0.1",
          # integer-valued constants around the s32/u32 boundaries (f64 constants that fit s32 are materialised
          # through li + fcvt.d.w, the others through their bit pattern) and other representation boundaries
          "2147483647.0", "2147483648.0", "2147483649.0", "3.0e+9", "4294967295.0", "4294967296.0",
          "-2147483648.0", "-2147483649.0", "-3.0e+9", "16777216.0", "16777217.0", "65536.0", "-65536.0",
          "1.0e+38", "3.0e+38", "1.0e-38", "1.0e-45", "123456789.0", "-1000000.0"]


# ------------------------------------------------------------------ part 1: program generator
class Prog:
    def __init__(self, rng, fptosi_type, negf_type):
        self.rng, self.k, self.lines = rng, 0, []
        self.fptosi_type, self.negf_type = fptosi_type, negf_type
        self.uses = set()
        self.permute = rng.random() < 0.12
        self.casts = set()

    def fresh(self):
        self.k += 1
        return f"%v{self.k}"

    def emit(self, ind, s):
        self.lines.append(ind + s)

    def pick(self, env, t, ind):
        c = [v for v, vt in env if vt == t]
        if c and self.rng.random() < 0.85:
            return self.rng.choice(c)
        v = self.fresh()
        if t in ("i32", "index"):
            val = self.rng.choice(ICONST if t == "i32" else [0, 1, 2, 3, 7, 2047, 2048])
            self.emit(ind, f"{v} = arith.constant {val} : {t}")
        else:
            self.emit(ind, f"{v} = arith.constant {self.rng.choice(FCONST)} : {t}")
        env.append((v, t))
        return v

    def body(self, env, ind, depth, n):
        rng = self.rng
        for _ in range(n):
            r = rng.random()
            v = self.fresh()
            if r < 0.12:
                t = rng.choice(["i32", "i32", "f32", "f64", "index"])
                if t in ("i32", "index"):
                    self.emit(ind, f"{v} = arith.constant {rng.choice(ICONST if t == 'i32' else [0, 1, 4, 2047, 2048, -1])} : {t}")
                else:
                    self.emit(ind, f"{v} = arith.constant {rng.choice(FCONST)} : {t}")
                env.append((v, t))
            elif r < 0.50:
                t = rng.choice(["i32", "i32", "i32", "index"])
                op = rng.choice(IOPS)
                a, b = self.pick(env, t, ind), self.pick(env, t, ind)
                if op in ("divsi", "divui", "remsi", "remui") and rng.random() < 0.85:
                    one, b2 = self.fresh(), self.fresh()
                    self.emit(ind, f"{one} = arith.constant 1 : {t}")
                    self.emit(ind, f"{b2} = arith.ori {b}, {one} : {t}")
                    b = b2
                if op in ("shli", "shrui", "shrsi") and rng.random() < 0.85:
                    m, b2 = self.fresh(), self.fresh()
                    self.emit(ind, f"{m} = arith.constant 31 : {t}")
                    self.emit(ind, f"{b2} = arith.andi {b}, {m} : {t}")
                    b = b2
                self.emit(ind, f"{v} = arith.{op} {a}, {b} : {t}")
                env.append((v, t))
                self.uses.add(op)
            elif r < 0.70:
                t = rng.choice(["f32", "f64"])
                op = rng.choice(FOPS)
                a, b = self.pick(env, t, ind), self.pick(env, t, ind)
                self.emit(ind, f"{v} = arith.{op} {a}, {b} : {t}")
                env.append((v, t))
                self.uses.add(op + ":" + t)
            elif r < 0.75:
                t = self.negf_type
                a = self.pick(env, t, ind)
                self.emit(ind, f"{v} = arith.negf {a} : {t}")
                env.append((v, t))
                self.uses.add("negf:" + t)
            elif r < 0.81:
                t = rng.choice(["f32", "f64"])
                a = self.pick(env, "i32", ind)
                self.emit(ind, f"{v} = arith.sitofp {a} : i32 to {t}")
                env.append((v, t))
                self.uses.add("sitofp:" + t)
            elif r < 0.86:
                t = self.fptosi_type
                a = self.pick(env, t, ind)
                self.emit(ind, f"{v} = arith.fptosi {a} : {t} to i32")
                env.append((v, "i32"))
                self.uses.add("fptosi:" + t)
            elif r < 0.90:
                if rng.random() < 0.5:
                    a = self.pick(env, "i32", ind)
                    self.emit(ind, f"{v} = arith.index_cast {a} : i32 to index")
                    env.append((v, "index"))
                else:
                    a = self.pick(env, "index", ind)
                    self.emit(ind, f"{v} = arith.index_cast {a} : index to i32")
                    env.append((v, "i32"))
                self.casts.add(v)
                self.uses.add("index_cast")
            elif depth < 2:
                lb, ub, st = self.fresh(), self.fresh(), self.fresh()
                self.emit(ind, f"{lb} = arith.constant {rng.choice([0, 0, 1, 2, -1, -3, -5])} : index")
                self.emit(ind, f"{ub} = arith.constant {rng.choice([0, 1, 2, 3, 4, 5])} : index")
                self.emit(ind, f"{st} = arith.constant {rng.choice([1, 1, 2, 3])} : index")
                nit = rng.choice([1, 1, 2])
                its = []
                for _j in range(nit):
                    t = rng.choice(["i32", "i32", "f32", "f64"])
                    its.append((self.fresh(), t, self.pick(env, t, ind)))
                iv = self.fresh()
                res = [self.fresh() for _ in its]
                heads = ", ".join(res)
                ia = ", ".join(f"{a} = {init}" for a, t, init in its)
                tys = ", ".join(t for _, t, _ in its)
                self.emit(ind, f"{heads} = scf.for {iv} = {lb} to {ub} step {st} iter_args({ia}) -> ({tys}) {{")
                e2 = list(env) + [(iv, "index")] + [(a, t) for a, t, _ in its]
                body_start = len(self.lines)
                self.body(e2, ind + "  ", depth + 1, rng.choice([1, 2, 4]))
                ys = []
                outer = {v_ for v_, _ in env}
                for pos, (own, t, _) in enumerate(its):
                    others = {a for a, _, _ in its if a != own}
                    # "shared" yield operands - another carried value (permutation), a value that is also
                    # yielded to another position, or a value defined outside the loop - hit a known allocator
                    # defect; they are only generated in dedicated programs (self.permute), elsewhere every
                    # yield operand is exclusive to its position and defined inside the body
                    if self.permute:
                        e3 = e2
                    else:
                        e3 = [(v_, t_) for v_, t_ in e2
                              if v_ not in others and v_ not in outer and v_ not in ys and v_ not in self.casts]
                    y = self.pick(e3, t, ind + "  ")
                    # (index_cast lowers to nothing, so its result aliases its operand - possibly the
                    # induction variable, another carried value or an outer value)
                    if y in others or y in outer or y in ys or y in self.casts:
                        self.uses.add("scf.for:yield-operand-shared")
                    if y != own:
                        # the value yielded to a position is defined BEFORE the last use of that position's block
                        # argument (both are put into one register although both are live in between): the other
                        # precondition of the same known allocator defect (C19: tied values simultaneously live)
                        body_lines = self.lines[body_start:]
                        tok = re.compile(r"(?<![\w%])" + re.escape(own) + r"(?!\w)")
                        d = next((i for i, ln in enumerate(body_lines) if ln.strip().startswith(y + " =") or
                                  ln.strip().startswith(y + ",") or re.search(r"^\s*(%\w+, )*" + re.escape(y) + r"(, %\w+)* = ", ln)), None)
                        last = max((i for i, ln in enumerate(body_lines) if tok.search(ln)), default=-1)
                        if d is not None and d < last:
                            self.uses.add("scf.for:yield-operand-defined-before-last-use-of-its-block-argument")
                    ys.append(y)
                self.emit(ind + "  ", f"scf.yield {', '.join(ys)} : {tys}")
                self.emit(ind, "}")
                env.extend((rv, t) for rv, (_, t, _) in zip(res, its))
                self.uses.add("scf.for")
            else:
                self.emit(ind, f"{v} = arith.constant 3 : i32")
                env.append((v, "i32"))


def directed_nest(p, env, ind):
    """Directed shape: a 2-deep loop nest whose INNER body reads a value computed in the OUTER body (neither an
    induction variable nor loop carried), both loops run several times, temporaries are defined in the inner body
    after that read, and the result of the nest is returned. Returns the name of the nest's result."""
    rng = p.rng
    ops = ["addi", "subi", "muli", "xori", "ori", "andi"]
    lb, n, m, st = p.fresh(), p.fresh(), p.fresh(), p.fresh()
    p.emit(ind, f"{lb} = arith.constant {rng.choice([0, 0, -2, 1])} : index")
    p.emit(ind, f"{n} = arith.constant {rng.choice([2, 3, 4])} : index")
    p.emit(ind, f"{m} = arith.constant {rng.choice([2, 3, 5])} : index")
    p.emit(ind, f"{st} = arith.constant 1 : index")
    init = p.pick(env, "i32", ind)
    r, i, acc = p.fresh(), p.fresh(), p.fresh()
    p.emit(ind, f"{r} = scf.for {i} = {lb} to {n} step {st} iter_args({acc} = {init}) -> (i32) {{")
    i2 = ind + "  "
    ii, t = p.fresh(), p.fresh()
    p.emit(i2, f"{ii} = arith.index_cast {i} : index to i32")
    p.emit(i2, f"{t} = arith.{rng.choice(ops)} {ii}, {rng.choice([ii, acc, p.pick(env, 'i32', i2)])} : i32")
    outer_vals = [t]
    for _ in range(rng.choice([0, 1, 2])):
        u = p.fresh()
        p.emit(i2, f"{u} = arith.{rng.choice(ops)} {rng.choice(outer_vals + [acc])}, {p.pick(env, 'i32', i2)} : i32")
        outer_vals.append(u)
    r2, j, acc2 = p.fresh(), p.fresh(), p.fresh()
    p.emit(i2, f"{r2} = scf.for {j} = {lb} to {m} step {st} iter_args({acc2} = {acc}) -> (i32) {{")
    i3 = i2 + "  "
    jj, x, y = p.fresh(), p.fresh(), p.fresh()
    p.emit(i3, f"{jj} = arith.index_cast {j} : index to i32")
    p.emit(i3, f"{x} = arith.{rng.choice(ops)} {jj}, {rng.choice(outer_vals)} : i32")
    p.emit(i3, f"{y} = arith.{rng.choice(ops)} {acc2}, {x} : i32")
    last = y
    for _ in range(rng.choice([1, 2, 3])):
        k = p.fresh()
        p.emit(i3, f"{k} = arith.{rng.choice(ops)} {last}, {rng.choice([x, jj, rng.choice(outer_vals), p.pick(env, 'i32', i3)])} : i32")
        last = k
    p.emit(i3, f"scf.yield {last} : i32")
    p.emit(i2, "}")
    p.emit(i2, f"scf.yield {r2} : i32")
    p.emit(ind, "}")
    p.uses.add("directed-nest")
    env.append((r, "i32"))
    return r


def gen_program(rng):
    p = Prog(rng, rng.choice(["f32", "f64"]), rng.choice(["f32", "f64"]))
    nint, nflt = rng.randint(1, 4), rng.randint(0, 3)
    args = [(f"%a{i}", "i32") for i in range(nint)] + [(f"%f{i}", rng.choice(["f32", "f64"])) for i in range(nflt)]
    env = list(args)
    p.body(env, "  ", 0, rng.choice([2, 4, 7, 12]))
    nret = rng.choice([1, 1, 2])
    rets = [rng.choice(env) for _ in range(nret)]
    if rng.random() < 0.3:
        rets[0] = (directed_nest(p, env, "  "), "i32")
    sig = ", ".join(f"{a}: {t}" for a, t in args)
    text = (f"func.func public @main({sig}) -> ({', '.join(t for _, t in rets)}) {{\n" + "\n".join(p.lines) +
            f"\n  func.return {', '.join(v for v, _ in rets)} : {', '.join(t for _, t in rets)}\n}}\n")
    return text, [t for _, t in args], [t for _, t in rets], p


def f32r(x):
    if math.isnan(x) or math.isinf(x):
        return x
    return struct.unpack("<f", struct.pack("<f", x))[0]


def gen_inputs(rng, argtypes):
    row = []
    for t in argtypes:
        if t == "i32":
            row.append(rng.choice([0, 1, 2, 5, 0xFFFFFFFF, 0x80000000, 0x7FFFFFFF, 2047, 2048, rng.getrandbits(32),
                                   rng.getrandbits(5)]))
        else:
            v = rng.choice([0.0, -0.0, 1.0, -1.5, 2.5, 0.5, -0.5, 3.5, 1e9, -1e9, 3e9, math.inf, -math.inf, math.nan,
                            rng.uniform(-100, 100), rng.uniform(-3, 3)])
            row.append(f32r(v) if t == "f32" else v)
    return row


def compile_riscv(text, pipe, passes, corpus, Parser, targets):
    c = corpus.new_ctx()
    m = Parser(c, text).parse_module()
    m.verify()
    for pn in pipe:
        passes[pn]()().apply(c, m)
    s = io.StringIO()
    targets["riscv-asm"]()().emit(c, m, s)
    return s.getvalue()


def observe_rv(res, rettypes, rvsim):
    out, ki, kf = [], 0, 0
    for t in rettypes:
        if t in ("i32", "index"):
            out.append(res.a[ki] & 0xFFFFFFFF)
            ki += 1
        else:
            bits = res.fa[kf]
            kf += 1
            x = rvsim.f32_of(bits) if t == "f32" else rvsim.f64_of(bits)
            if t == "f32" and (bits >> 32) != 0xFFFFFFFF:
                out.append(("f", "not-nan-boxed"))
            else:
                out.append(("f", "nan") if math.isnan(x) else ("f", struct.pack("<d", x).hex()))
    return out


def repair_known(asm, prog):
    """Models of the known wrong behaviour: returns {key: repaired asm} candidates."""
    import re
    cands = {}
    if "fptosi:f32" in prog.uses and "fptosi:f64" not in prog.uses:
        cands["fptosi-dynamic-rounding-mode"] = re.sub(r"(fcvt\.w\.s [^\n,]+, [^\n,]+)\n", r"\1, rtz\n", asm)
    if "fptosi:f64" in prog.uses and "fptosi:f32" not in prog.uses:
        cands["fptosi-f64-lowered-to-fcvt.w.s"] = re.sub(r"fcvt\.w\.s ([^\n,]+, [^\n,]+)\n", r"fcvt.w.d \1, rtz\n", asm)
    if "negf:f64" in prog.uses and "negf:f32" not in prog.uses:
        a2 = asm.replace("fsgnjn.s", "fsgnjn.d")
        cands["negf-f64-lowered-to-fsgnjn.s"] = a2
        if "fptosi:f32" in prog.uses and "fptosi:f64" not in prog.uses:
            cands["negf-f64-lowered-to-fsgnjn.s+fptosi-dynamic-rounding-mode"] = re.sub(
                r"(fcvt\.w\.s [^\n,]+, [^\n,]+)\n", r"\1, rtz\n", a2)
        if "fptosi:f64" in prog.uses:
            cands["negf-f64-lowered-to-fsgnjn.s+fptosi-f64-lowered-to-fcvt.w.s"] = re.sub(
                r"fcvt\.w\.s ([^\n,]+, [^\n,]+)\n", r"fcvt.w.d \1, rtz\n", a2)
    return cands


def run_part1(job, res):
    from xdsl.parser import Parser
    from xdsl.targets import get_all_targets
    from xdsl.transforms import get_all_passes
    from xv import corpus, refsem, rvsim
    refsem.INDEX_W = 32
    passes, targets = get_all_passes(), get_all_targets()
    C = res["counters"]
    for seed in job["seeds"]:
        rng = random.Random(seed)
        text, argtypes, rettypes, prog = gen_program(rng)
        res["evaluations"] += 1
        m0 = Parser(corpus.new_ctx(), text).parse_module()
        m0.verify()
        try:
            asm = compile_riscv(text, PIPE, passes, corpus, Parser, targets)
        except (KeyboardInterrupt, SystemExit, MemoryError):
            raise
        except BaseException as e:  # noqa: BLE001 - reported failure
            C["pipeline_reported_failure"] += 1
            res["sets"].setdefault("pipeline_failures", set()).add(type(e).__name__ + ":" + str(e).strip().splitlines()[-1][:50] if str(e).strip() else type(e).__name__)
            continue
        C["pipelines_succeeded"] += 1
        compared = 0
        for _ in range(6):
            row = gen_inputs(rng, argtypes)
            try:
                want, _log = refsem.run(m0, "main", row)
            except refsem.Undefined:
                C["inputs_excluded_ub"] += 1
                continue
            except refsem.StepLimit:
                C["inputs_excluded_steps"] += 1
                continue
            iargs = [v for v, t in zip(row, argtypes) if t == "i32"]
            fargs = [("s" if t == "f32" else "d", v) for v, t in zip(row, argtypes) if t != "i32"]

            def execute(a, quirks=()):
                try:
                    r = rvsim.run(a, "main", iargs, fargs, xlen=32, quirks=quirks)
                except rvsim.Bad as b:
                    return ("bad-asm", str(b)), None
                return observe_rv(r, rettypes, rvsim), r

            got, r = execute(asm)
            compared += 1
            C["executions_compared"] += 1
            C["instructions_executed"] += r.steps if r else 0
            problem = None
            if r is None:
                problem = ("bad-asm:" + "".join(ch for ch in got[1] if not ch.isdigit())[:50], got[1])
            elif got != want:
                problem = ("wrong-result", f"got {got} want {want}")
            elif not all(r.callee_ok.values()):
                bad = sorted(k for k, v in r.callee_ok.items() if not v)
                problem = ("callee-state:" + ",".join(b.rstrip("0123456789") for b in bad)[:30], f"clobbered {bad}")
            if problem is None:
                continue
            key = problem[0]
            if key == "wrong-result" and "scf.for:yield-operand-shared" in prog.uses:
                # structural precondition of the known riscv_scf.for allocation defect: the yield routes one
                # carried value into another carried position, and the allocator puts block argument, init,
                # yield operand and result of each position into ONE register (two live values share it)
                key = "known-structural:riscv_scf.for-yield-operand-shared"
            elif key == "wrong-result" and "scf.for:yield-operand-defined-before-last-use-of-its-block-argument" in prog.uses:
                # same defect, other precondition: the yielded value is defined before the last use of the block
                # argument whose register it is given
                key = "known-structural:riscv_scf.for-yield-operand-defined-before-last-use-of-its-block-argument"
            elif key == "wrong-result":
                cands = [(kk, rep, ()) for kk, rep in repair_known(asm, prog).items()]
                if any(u.startswith(("minimumf", "maximumf")) for u in prog.uses):
                    q = ("fminmax-propagate-nan",)
                    cands = (cands + [("minimumf-maximumf-lowered-to-nan-ignoring-fmin-fmax", asm, q)] +
                             [(kk + "+minimumf-maximumf-lowered-to-nan-ignoring-fmin-fmax", rep, q) for kk, rep, _ in cands])
                for kk, repaired, quirks in cands:
                    g2, r2 = execute(repaired, quirks)
                    if r2 is not None and g2 == want and all(r2.callee_ok.values()):
                        key = "known-model:" + kk
                        break
            res["violations"].append({"key": key, "summary": f"seed={seed} args={row}: {problem[1]}"[:300],
                                      "witness": {"program": text, "args": [repr(x) for x in row], "asm": asm,
                                                  "replay_job": {"kind": "prog", "seeds": [seed]}}})
            break
        if compared:
            res["nontrivial"].append(shash(text))
            for u in prog.uses:
                C["op:" + u] += 1
        if len(res["samples"]) < 1 and compared:
            res["samples"].append({"program": text, "asm_lines": len(asm.splitlines())})


# ------------------------------------------------------------------ part 2: riscv-dialect snippets
RRR = ["add", "sub", "mul", "mulh", "mulhu", "mulhsu", "and", "or", "xor", "sll", "srl", "sra", "slt", "sltu", "div",
       "divu", "rem", "remu"]
RRI = ["addi", "andi", "ori", "xori", "slti", "sltiu"]
IMM = [0, 1, -1, 5, 2047, -2048, 1024, -1024, 7, 2040]
LI = [0, 1, -1, 2, 3, 2047, 2048, -2048, -2049, 2147483647, -2147483648, 4096, 12]
BASE = 0x20000


def gen_snippet(rng, callee=False):
    L = []
    k = [0]

    def fresh(p="v"):
        k[0] += 1
        return f"%{p}{k[0]}"

    ints = ["%x", "%y"]
    ptrs = ["%p"]
    dbl, sgl = ["%d"], ["%s"]
    L.append("  %x = riscv.mv %a0 : (!riscv.reg<a0>) -> !riscv.reg")
    L.append("  %p = riscv.mv %a1 : (!riscv.reg<a1>) -> !riscv.reg")
    L.append("  %y = riscv.mv %a2 : (!riscv.reg<a2>) -> !riscv.reg")
    L.append("  %d = riscv.fmv.d %fa0 : (!riscv.freg<fa0>) -> !riscv.freg")
    L.append("  %s = riscv.fmv.s %fa1 : (!riscv.freg<fa1>) -> !riscv.freg")
    consts = []
    for _ in range(rng.choice([3, 6, 10, 16])):
        r = rng.random()
        v = fresh()
        if r < 0.16:
            L.append(f"  {v} = rv32.li {rng.choice(LI)} : !riscv.reg")
            ints.append(v)
            consts.append(v)
        elif r < 0.46:
            op = rng.choice(RRR)
            pool = consts if consts and rng.random() < 0.4 else ints
            a = rng.choice(pool)
            b = a if rng.random() < 0.2 else rng.choice(consts if consts and rng.random() < 0.5 else ints)
            L.append(f"  {v} = riscv.{op} {a}, {b} : (!riscv.reg, !riscv.reg) -> !riscv.reg")
            ints.append(v)
        elif r < 0.62:
            op = rng.choice(RRI)
            a = rng.choice(consts if consts and rng.random() < 0.4 else ints)
            L.append(f"  {v} = riscv.{op} {a}, {rng.choice(IMM)} : (!riscv.reg) -> !riscv.reg")
            ints.append(v)
        elif r < 0.70:
            op = rng.choice(["slli", "srli", "srai"])
            a = rng.choice(consts if consts and rng.random() < 0.4 else ints)
            L.append(f"  {v} = rv32.{op} {a}, {rng.choice([0, 1, 5, 31])} : (!riscv.reg) -> !riscv.reg")
            ints.append(v)
        elif r < 0.74:
            L.append(f"  {v} = riscv.mv {rng.choice(ints)} : (!riscv.reg) -> !riscv.reg")
            ints.append(v)
        elif r < 0.80:
            off = rng.choice([0, 4, 8, 2040, 2044, -2048, -8, 16, 2000])
            L.append(f"  {v} = riscv.addi {rng.choice(ptrs)}, {off} : (!riscv.reg) -> !riscv.reg")
            ptrs.append(v)
        elif r < 0.90:
            kind = rng.choice(["lw", "sw", "flw", "fsw", "fld", "fsd"])
            ptr = rng.choice(ptrs)
            off = rng.choice([0, 4, 8, 12, 2040, 2044, -2048, -8, 16, 48])
            if kind in ("fld", "fsd"):
                off &= ~7
            if kind == "lw":
                L.append(f"  {v} = riscv.lw {ptr}, {off} : (!riscv.reg) -> !riscv.reg")
                ints.append(v)
            elif kind == "sw":
                L.append(f"  riscv.sw {ptr}, {rng.choice(ints)}, {off} : (!riscv.reg, !riscv.reg) -> ()")
            elif kind == "flw":
                L.append(f"  {v} = riscv.flw {ptr}, {off} : (!riscv.reg) -> !riscv.freg")
                sgl.append(v)
            elif kind == "fsw":
                L.append(f"  riscv.fsw {ptr}, {rng.choice(sgl)}, {off} : (!riscv.reg, !riscv.freg) -> ()")
            elif kind == "fld":
                L.append(f"  {v} = riscv.fld {ptr}, {off} : (!riscv.reg) -> !riscv.freg")
                dbl.append(v)
            else:
                L.append(f"  riscv.fsd {ptr}, {rng.choice(dbl)}, {off} : (!riscv.reg, !riscv.freg) -> ()")
        else:
            p = rng.choice(["d", "s"])
            pool = dbl if p == "d" else sgl
            op = rng.choice(["fadd", "fsub", "fmul", "fdiv", "fmin", "fmax"])
            a = rng.choice(pool)
            b = a if rng.random() < 0.3 else rng.choice(pool)
            L.append(f"  {v} = riscv.{op}.{p} {a}, {b} : (!riscv.freg, !riscv.freg) -> !riscv.freg")
            pool.append(v)
    if callee:
        # values pre-assigned to callee-saved registers (integer sN and float fsM, often with N == M: the two
        # register files share index numbers), kept alive by a store: riscv-prologue-epilogue-insertion has to
        # save and restore every one of them
        ns = rng.sample(range(12), rng.choice([1, 2, 3]))
        for j, n in enumerate(ns):
            m = n if rng.random() < 0.7 else rng.randrange(12)
            order = [("i", n), ("f", m)]
            if rng.random() < 0.5:
                order.reverse()
            for kind, q in order:
                if rng.random() < 0.15:
                    continue
                v = fresh("cs")
                if kind == "i":
                    L.append(f"  {v} = riscv.mv {rng.choice(ints)} : (!riscv.reg) -> !riscv.reg<s{q}>")
                    L.append(f"  riscv.sw %p, {v}, {16 * j} : (!riscv.reg, !riscv.reg<s{q}>) -> ()")
                else:
                    L.append(f"  {v} = riscv.fmv.d {rng.choice(dbl)} : (!riscv.freg) -> !riscv.freg<fs{q}>")
                    L.append(f"  riscv.fsd %p, {v}, {16 * j + 8} : (!riscv.reg, !riscv.freg<fs{q}>) -> ()")
    L.append(f"  %r = riscv.mv {rng.choice(ints)} : (!riscv.reg) -> !riscv.reg<a0>")
    L.append(f"  %fr = riscv.fmv.d {rng.choice(dbl)} : (!riscv.freg) -> !riscv.freg<fa0>")
    L.append(f"  %fs = riscv.fmv.s {rng.choice(sgl)} : (!riscv.freg) -> !riscv.freg<fa1>")
    L.append("  riscv_func.return %r, %fr, %fs : !riscv.reg<a0>, !riscv.freg<fa0>, !riscv.freg<fa1>")
    return ("riscv_func.func @main(%a0: !riscv.reg<a0>, %a1: !riscv.reg<a1>, %a2: !riscv.reg<a2>, "
            "%fa0: !riscv.freg<fa0>, %fa1: !riscv.freg<fa1>) -> (!riscv.reg<a0>, !riscv.freg<fa0>, !riscv.freg<fa1>) {\n" +
            "\n".join(L) + "\n}\n")


def run_part2(job, res):
    from xdsl.parser import Parser
    from xdsl.targets import get_all_targets
    from xdsl.transforms import get_all_passes
    from xv import corpus, rvsim
    passes, targets = get_all_passes(), get_all_targets()
    C = res["counters"]
    mem0 = {}
    rngm = random.Random(12345)
    for a in range(BASE - 4200, BASE + 4300):
        mem0[a] = rngm.getrandbits(8)
    for seed in job["seeds"]:
        rng = random.Random(seed ^ 0x5EED)
        callee = seed % 3 == 0
        text = gen_snippet(rng, callee)
        res["evaluations"] += 1
        try:
            asm_a = compile_riscv(text, ["riscv-allocate-registers"], passes, corpus, Parser, targets)
        except (KeyboardInterrupt, SystemExit, MemoryError):
            raise
        except BaseException as e:  # noqa: BLE001
            C["snippet_baseline_failed"] += 1
            res["sets"].setdefault("snippet_failures", set()).add(type(e).__name__)
            continue
        try:
            asm_b = compile_riscv(text, ["canonicalize", "riscv-allocate-registers"], passes, corpus, Parser, targets)
        except (KeyboardInterrupt, SystemExit, MemoryError):
            raise
        except BaseException as e:  # noqa: BLE001
            C["snippet_canonicalized_failed"] += 1
            res["sets"].setdefault("snippet_failures", set()).add("canon:" + type(e).__name__)
            continue
        C["snippets_compiled"] += 1
        asm_c = None
        if callee:
            try:
                asm_c = compile_riscv(text, ["riscv-allocate-registers", "riscv-prologue-epilogue-insertion"], passes, corpus, Parser, targets)
                C["callee_saved_snippets_compiled"] += 1
            except (KeyboardInterrupt, SystemExit, MemoryError):
                raise
            except BaseException as e:  # noqa: BLE001
                C["snippet_prologue_failed"] += 1
                res["sets"].setdefault("snippet_failures", set()).add("prologue:" + type(e).__name__)
        norm = lambda s: [ln.strip() for ln in s.splitlines()]  # noqa: E731
        changed = norm(asm_a) != norm(asm_b)
        if changed:
            C["snippets_changed_by_canonicalize"] += 1
            res["nontrivial"].append(shash(text))
        for _ in range(4):
            iargs = [rng.choice([0, 1, 5, 0xFFFFFFFF, 0x80000000, 0x7FFFFFFF, rng.getrandbits(32)]), BASE,
                     rng.choice([0, 1, 3, 31, 32, 0xFFFFFFFF, rng.getrandbits(32)])]
            fargs = [("d", rng.choice([0.0, -0.0, 1.5, -2.25, 1e300, math.inf, math.nan, rng.uniform(-9, 9)])),
                     ("s", f32r(rng.choice([0.0, -0.0, 1.5, -2.25, 1e30, math.inf, math.nan, rng.uniform(-9, 9)])))]
            outs = []
            for asm in (asm_a, asm_b):
                try:
                    r = rvsim.run(asm, "main", iargs, fargs, xlen=32, mem=mem0)
                    data = {k: v for k, v in r.mem.items() if BASE - 5000 <= k <= BASE + 5000}
                    outs.append(("ok", r.a[0], r.fa[0], r.fa[1], tuple(sorted(data.items())),
                                 all(r.callee_ok.values())))
                except rvsim.Bad as b:
                    outs.append(("bad", "".join(ch for ch in str(b) if not ch.isdigit())[:60]))
            C["snippet_executions_compared"] += 1
            if asm_c is not None and outs[0][0] == "ok":
                # ABI oracle on the snippet with prologue/epilogue: same results and memory as without, and every
                # callee-saved register and sp restored
                try:
                    r = rvsim.run(asm_c, "main", iargs, fargs, xlen=32, mem=mem0)
                    data = {k: v for k, v in r.mem.items() if BASE - 5000 <= k <= BASE + 5000}
                    oc = ("ok", r.a[0], r.fa[0], r.fa[1], tuple(sorted(data.items())))
                    badregs = sorted(k for k, v in r.callee_ok.items() if not v)
                except rvsim.Bad as b:
                    oc, badregs = ("bad", "".join(ch for ch in str(b) if not ch.isdigit())[:60]), []
                C["callee_saved_executions_checked"] += 1
                keyc = None
                if oc[0] == "bad":
                    keyc, why = "prologue-epilogue:bad-asm:" + oc[1], oc[1]
                elif badregs:
                    keyc, why = "prologue-epilogue:callee-state:" + ",".join(sorted({b.rstrip("0123456789") for b in badregs})), f"not restored: {badregs}"
                elif oc != outs[0][:5]:
                    keyc, why = "prologue-epilogue:changes-results", "results or memory differ from the snippet without prologue/epilogue"
                if keyc:
                    res["violations"].append({"key": keyc, "summary": f"snippet seed={seed} args={iargs}: {why}",
                                              "witness": {"snippet": text, "asm_plain": asm_a, "asm_with_prologue": asm_c,
                                                          "iargs": iargs, "fargs": [repr(x) for x in fargs],
                                                          "replay_job": {"kind": "snip", "seeds": [seed]}}})
                    break
            if outs[0][0] == "bad":
                C["snippet_baseline_bad_asm"] += 1   # the un-canonicalized snippet itself is ill-formed: not comparable
                res["sets"].setdefault("snippet_baseline_bad", set()).add(outs[0][1])
                break
            if outs[0] != outs[1]:
                if outs[1][0] == "bad":
                    key, why = "canonicalize:bad-asm:" + outs[1][1], outs[1][1]
                else:
                    names = ["", "a0", "fa0", "fa1", "memory", "callee-saved"]
                    diff = [names[i] for i in range(1, 6) if outs[0][i] != outs[1][i]]
                    key, why = "canonicalize:changes-" + "+".join(diff), f"differs in {diff}"
                res["violations"].append({"key": key, "summary": f"snippet seed={seed} args={iargs}: {why}",
                                          "witness": {"snippet": text, "asm_plain": asm_a, "asm_canonicalized": asm_b,
                                                      "iargs": iargs, "fargs": [repr(x) for x in fargs],
                                                      "replay_job": {"kind": "snip", "seeds": [seed]}}})
                break
        if len(res["samples"]) < 1 and changed:
            res["samples"].append({"snippet": text, "asm_canonicalized": asm_b})


def plan(tier, seed):
    n1, n2, per = (640, 1920, 40) if tier == "quick" else (40000, 200000, 1000)
    base = seed * 10_000_019
    jobs = [{"kind": "prog", "seeds": list(range(base + k, base + k + per))} for k in range(0, n1, per)]
    per2 = per * 3
    jobs += [{"kind": "snip", "seeds": list(range(base + k, base + k + per2))} for k in range(0, n2, per2)]
    return jobs


def work(job):
    warnings.simplefilter("ignore")
    res = {"evaluations": 0, "nontrivial": [], "samples": [], "counters": collections.Counter(), "sets": {},
           "violations": []}
    if job["kind"] == "prog":
        run_part1(job, res)
    else:
        run_part2(job, res)
    res["sets"] = {k: sorted(v) for k, v in res["sets"].items()}
    res["counters"] = dict(res["counters"])
    return res


def finish(agg, tier):
    inc = []
    c = agg.counters
    if c.get("pipelines_succeeded", 0) < (150 if tier == "quick" else 5000):
        inc.append(f"only {c.get('pipelines_succeeded', 0)} programs made it through the RISC-V pipeline")
    if c.get("executions_compared", 0) < (600 if tier == "quick" else 20000):
        inc.append(f"only {c.get('executions_compared', 0)} executions compared with the reference")
    if c.get("snippets_changed_by_canonicalize", 0) < (300 if tier == "quick" else 20000):
        inc.append(f"only {c.get('snippets_changed_by_canonicalize', 0)} snippets were changed by canonicalize")
    return {"inconclusive": inc, "coverage": {}}
