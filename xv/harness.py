"""Shared runner: shards work over killable subprocesses, aggregates monitor output, applies the
known-findings list, writes evidence, prints the verdict (three-valued, see DESIGN.md 1.2)."""
from __future__ import annotations

import concurrent.futures
import hashlib
import importlib
import json
import os
import re
import shutil
import subprocess
import sys
import tempfile
import time

ROOT = os.path.dirname(os.path.dirname(os.path.abspath(__file__)))
REPO = os.environ.get("XV_REPO", "/repo")
PY = "/venv/bin/python" if os.path.exists("/venv/bin/python") else sys.executable
GUARD = "XDSL_VERIF"
NCPU = int(os.environ.get("XV_JOBS", os.cpu_count() or 4))

EXIT_HELD, EXIT_VIOLATION, EXIT_INCONCLUSIVE = 0, 1, 2


def shash(obj) -> str:
    """Stable short hash of a python structure (repr-based; inputs are plain tuples/strs/ints)."""
    return hashlib.sha1(repr(obj).encode("utf-8", "backslashreplace")).hexdigest()[:16]


def worker_env(extra: dict | None = None) -> dict:
    env = dict(os.environ)
    env[GUARD] = "1"
    env.setdefault("PYTHONHASHSEED", "0")
    pp = [ROOT, os.path.join(ROOT, ".deps")]
    if os.environ.get("XV_PYPATH"):  # mutant self-tests: import xdsl from a scratch worktree instead of /repo
        pp = [os.environ["XV_PYPATH"]] + pp
    env["PYTHONPATH"] = os.pathsep.join(pp + [p for p in env.get("PYTHONPATH", "").split(os.pathsep) if p])
    # byte-code cache outside /repo and outside git (workers otherwise recompile all of xdsl: ~3 s each)
    env.pop("PYTHONDONTWRITEBYTECODE", None)
    env["PYTHONPYCACHEPREFIX"] = os.path.join(ROOT, ".work", "pycache")
    if extra:
        env.update({k: str(v) for k, v in extra.items()})
    return env


def ensure_deps():
    """Third-party helpers (icontract, jsonschema) live in the git-ignored .deps; (re)install offline."""
    deps = os.path.join(ROOT, ".deps")
    if os.path.isdir(os.path.join(deps, "icontract")) and os.path.isdir(os.path.join(deps, "jsonschema")):
        return
    subprocess.run([PY, "-m", "pip", "install", "-q", "--no-index", "--find-links", "/opt/veriftools/wheels",
                    "--target", deps, "icontract", "jsonschema", "deal"],
                   stdout=subprocess.DEVNULL, stderr=subprocess.DEVNULL)


class Lost(Exception):
    pass


SLOT_DIR = os.environ.get("XV_SLOTS", "/tmp/xv-slots")


class _Slot:
    """Machine-wide cap on concurrently running workers (one flock'ed file per core), so that several check
    runs started at the same time (agents, vp run, vp check) share the 16 cores instead of oversubscribing them.
    Purely a throttle: created on demand, nothing persistent is needed."""

    def __enter__(self):
        import fcntl
        os.makedirs(SLOT_DIR, exist_ok=True)
        n = max(2, os.cpu_count() or 4)
        while True:
            for i in range(n):
                fd = os.open(os.path.join(SLOT_DIR, f"slot-{i}.lock"), os.O_CREAT | os.O_RDWR, 0o666)
                try:
                    fcntl.flock(fd, fcntl.LOCK_EX | fcntl.LOCK_NB)
                    self.fd = fd
                    return self
                except OSError:
                    os.close(fd)
            time.sleep(0.25)

    def __exit__(self, *a):
        os.close(self.fd)


def _run_job(check_id: str, job: dict, workdir: str, idx: int, timeout: float):
    jf = os.path.join(workdir, f"job{idx}.json")
    of = os.path.join(workdir, f"out{idx}.json")
    jl = os.path.join(workdir, f"journal{idx}.txt")
    with open(jf, "w") as f:
        json.dump(job, f)
    env = worker_env(job.get("env"))
    env["XV_JOURNAL"] = jl
    info = {"idx": idx, "job": job, "status": "ok"}
    slot = _Slot().__enter__()
    t0 = time.time()
    try:
        p = subprocess.run([PY, "-m", "xv.worker", check_id, jf, of], cwd=ROOT, env=env,
                           stdout=subprocess.PIPE, stderr=subprocess.PIPE, timeout=timeout)
        info["rc"] = p.returncode
        if p.returncode != 0 or not os.path.exists(of):
            info["status"] = "died"
            info["stderr"] = p.stderr.decode("utf-8", "replace")[-3000:]
    except subprocess.TimeoutExpired as e:
        info["status"] = "timeout"
        info["stderr"] = (e.stderr or b"").decode("utf-8", "replace")[-2000:]
    finally_slot = slot.__exit__(None, None, None)
    info["wall"] = time.time() - t0
    if os.path.exists(jl):
        try:
            with open(jl, "rb") as f:
                info["journal"] = f.read()[-20000:].decode("utf-8", "replace")
        except OSError:
            pass
    if info["status"] == "ok":
        with open(of) as f:
            info["result"] = json.load(f)
    return info


def run_jobs(check_id: str, jobs: list[dict], timeout: float) -> list[dict]:
    workdir = tempfile.mkdtemp(prefix=f"xv-{check_id}-", dir=os.environ.get("XV_WORK") or None)
    try:
        with concurrent.futures.ThreadPoolExecutor(max_workers=NCPU) as ex:
            futs = [ex.submit(_run_job, check_id, j, workdir, i, j.get("timeout", timeout))
                    for i, j in enumerate(jobs)]
            return [f.result() for f in futs]
    finally:
        shutil.rmtree(workdir, ignore_errors=True)


class Agg:
    """Aggregated monitor output of all shards."""

    def __init__(self):
        self.evaluations = 0
        self.nontrivial: set[str] = set()
        self.samples: list = []
        self.counters: dict[str, int] = {}
        self.sets: dict[str, set] = {}
        self.violations: list[dict] = []
        self.lost: list[dict] = []
        self.extra: dict = {}

    def add(self, r: dict):
        self.evaluations += int(r.get("evaluations", 0))
        self.nontrivial.update(r.get("nontrivial", ()))
        for s in r.get("samples", ()):
            if len(self.samples) < 6:
                self.samples.append(s)
        for k, v in r.get("counters", {}).items():
            self.counters[k] = self.counters.get(k, 0) + v
        for k, v in r.get("sets", {}).items():
            self.sets.setdefault(k, set()).update(v)
        self.violations.extend(r.get("violations", ()))
        for k, v in r.get("extra", {}).items():
            self.extra.setdefault(k, v)


def load_known(pid: str):
    """Known findings: /verif/known_findings.json (index + fixed list) and one file per property under
    /verif/known_findings.d/<ID>.json ({"findings": [{property, key, summary, witness}]}). Read-only at run time."""
    out = {}
    for path in (os.path.join(ROOT, "known_findings.json"), os.path.join(ROOT, "known_findings.d", pid + ".json")):
        if not os.path.exists(path):
            continue
        with open(path) as f:
            data = json.load(f)
        out.update({e["key"]: e for e in data.get("findings", []) if e["property"] == pid})
    return out


def _safe(s: str) -> str:
    return re.sub(r"[^A-Za-z0-9_.-]+", "_", s)[:80]


def validate_evidence(ev: dict) -> str | None:
    try:
        sys.path.insert(0, os.path.join(ROOT, ".deps"))
        import jsonschema  # type: ignore
    except Exception:
        return None
    schema_path = "/root/.vp/EVIDENCE.schema.json"
    if not os.path.exists(schema_path):
        schema_path = os.path.join(ROOT, "xv", "EVIDENCE.schema.json")
    if not os.path.exists(schema_path):
        return None
    with open(schema_path) as f:
        schema = json.load(f)
    try:
        jsonschema.validate(ev, schema)
    except Exception as e:  # noqa: BLE001
        return str(e)[:500]
    return None


def main_check(pid: str, tier: str, seed: int) -> int:
    ensure_deps()
    mod = importlib.import_module(f"xv.checks.{pid.lower()}")
    t0 = time.time()
    jobs = mod.plan(tier, seed)
    timeout = getattr(mod, "JOB_TIMEOUT", {"quick": 600, "thorough": 3600})[tier]
    infos = run_jobs(pid, jobs, timeout)
    agg = Agg()
    for info in infos:
        if info["status"] == "ok":
            agg.add(info["result"])
        else:
            conv = getattr(mod, "on_lost", None)
            v = conv(info) if conv else None
            if v:
                agg.violations.extend(v)
                agg.counters["shards_lost_as_violation"] = agg.counters.get("shards_lost_as_violation", 0) + 1
            else:
                agg.lost.append({k: info.get(k) for k in ("idx", "status", "rc", "stderr", "wall")})
    reasons: list[str] = []
    if agg.lost:
        reasons.append(f"{len(agg.lost)} shard(s) lost: " + "; ".join(
            f"#{l['idx']} {l['status']} {(l.get('stderr') or '').strip().splitlines()[-1:] or ''}" for l in agg.lost[:3]))
    fin = getattr(mod, "finish", None)
    cov_extra = {}
    if fin:
        out = fin(agg, tier) or {}
        reasons.extend(out.get("inconclusive", ()))
        cov_extra = out.get("coverage", {})

    known = load_known(pid)
    seen_known: dict[str, int] = {}
    new_by_key: dict[str, list[dict]] = {}
    for v in agg.violations:
        k = v["key"]
        if k in known:
            seen_known[k] = seen_known.get(k, 0) + 1
        else:
            new_by_key.setdefault(k, []).append(v)

    rdir = os.path.join(ROOT, ".work" if os.environ.get("XV_PYPATH") else "", "replays", pid)
    vio_lines = []
    if new_by_key:
        os.makedirs(rdir, exist_ok=True)
        for n, (k, vs) in enumerate(sorted(new_by_key.items())):
            path = os.path.join(rdir, f"{_safe(k)}-{seed}-{n}.json")
            with open(path, "w") as f:
                json.dump({"property": pid, "key": k, "count": len(vs), "tier": tier, "seed": seed,
                           "first": vs[0], "more": vs[1:4]}, f, indent=1, default=str)
            vio_lines.append((k, vs[0].get("summary", ""), path, len(vs)))

    level = getattr(mod, "LEVEL", "exploration")
    coverage = {
        "evaluations": agg.evaluations,
        "distinct_nontrivial": len(agg.nontrivial),
        "rule": getattr(mod, "RULE", ""),
        "samples": agg.samples[:6] or ["<none>"],
        "monitors": dict(sorted(agg.counters.items())),
        "sets": {k: (sorted(map(str, v)) if len(v) <= 60 else {"count": len(v), "first": sorted(map(str, v))[:40]})
                 for k, v in sorted(agg.sets.items())},
        "known_findings_seen": seen_known,
        "new_violation_keys": sorted(new_by_key),
        "inconclusive_reasons": reasons,
        "shards": len(jobs),
        "shards_lost": len(agg.lost),
    }
    coverage.update(cov_extra)
    ev = {
        "property_id": pid, "tier": tier, "seed": seed, "level": level, "coverage": coverage,
        "assumptions": list(getattr(mod, "ASSUMPTIONS", [])),
        "wall_s": round(time.time() - t0, 2),
        "violations": sum(len(v) for v in new_by_key.values()),
    }
    err = validate_evidence(ev)
    if err and not new_by_key:
        reasons.append("evidence does not validate: " + err)
        coverage["inconclusive_reasons"] = reasons
    evdir = os.path.join(ROOT, ".work", "evidence-selftest") if os.environ.get("XV_PYPATH") else os.path.join(ROOT, "evidence")
    os.makedirs(evdir, exist_ok=True)
    with open(os.path.join(evdir, f"{pid}.json"), "w") as f:
        json.dump(ev, f, indent=1, default=str)

    if os.environ.get("XV_PYPATH"):
        print("xdsl_path override (self-test):", os.environ["XV_PYPATH"])
    print(f"[{pid}] tier={tier} seed={seed} evaluations={agg.evaluations} "
          f"distinct_nontrivial={len(agg.nontrivial)} shards={len(jobs)} wall={ev['wall_s']}s")
    for k, v in sorted(agg.counters.items()):
        print(f"  monitor {k} = {v}")
    for k, v in sorted(agg.sets.items()):
        print(f"  set {k}: {len(v)} distinct")
    for k, n in sorted(seen_known.items()):
        summ = " ".join(str(known[k].get("summary", "")).split())[:240]
        print(f"KNOWN-FINDING: property={pid} {' '.join(k.split())} ({n}x) {summ}")
    if vio_lines:
        for k, summ, path, n in vio_lines[:20]:
            print(f"VIOLATION property={pid} replay={path}")
            print(f"  key={k} count={n} {summ}"[:600])
        return EXIT_VIOLATION
    if reasons:
        for r in reasons:
            print(f"INCONCLUSIVE property={pid} reason={r}")
        return EXIT_INCONCLUSIVE
    print(f"HELD property={pid} on everything explored")
    return EXIT_HELD


def main_replay(pid: str, path: str) -> int:
    ensure_deps()
    with open(path) as f:
        data = json.load(f)
    first = data.get("first", data)
    job = (first.get("witness") or {}).get("replay_job") if isinstance(first.get("witness"), dict) else None
    if job is None:
        print(json.dumps(first, indent=1, default=str))
        print("no replay_job recorded in this witness; shown above")
        return 0
    infos = run_jobs(pid, [job], 3600)
    info = infos[0]
    if info["status"] != "ok":
        print("replay worker", info["status"], info.get("stderr", ""))
        return 1
    vs = info["result"].get("violations", [])
    for v in vs:
        print("VIOLATION-REPLAYED", v["key"], v.get("summary", ""))
    return 1 if vs else 0


def main(argv=None) -> int:
    import argparse
    ap = argparse.ArgumentParser(prog="check")
    ap.add_argument("pid")
    ap.add_argument("--tier", default=None, choices=["quick", "thorough"])
    ap.add_argument("--replay", default=None)
    a = ap.parse_args(argv)
    pid = a.pid.upper()
    if a.replay:
        return main_replay(pid, a.replay)
    tier = a.tier or os.environ.get("VERIF_TIER") or "quick"
    if tier not in ("quick", "thorough"):
        tier = "quick"
    try:
        seed = int(os.environ.get("VERIF_SEED", "0"))
    except ValueError:
        seed = 0
    return main_check(pid, tier, seed)


if __name__ == "__main__":
    sys.exit(main())
