"""Harvest of the repository's .mlir corpus (tests/**, docs/**), split on `// -----`."""
from __future__ import annotations

import glob
import os
import re

REPO = os.environ.get("XV_REPO", "/repo")


def new_ctx(allow_unregistered=True):
    from xdsl.context import Context
    from xdsl.dialects import get_all_dialects
    c = Context(allow_unregistered=allow_unregistered)
    for n, f in get_all_dialects().items():
        c.register_dialect(n, f)
    return c


def files():
    fs = sorted(glob.glob(os.path.join(REPO, "tests", "**", "*.mlir"), recursive=True)) + \
        sorted(glob.glob(os.path.join(REPO, "docs", "**", "*.mlir"), recursive=True))
    return fs


def chunks():
    """[(relative file, chunk index, text)] in a deterministic order."""
    out = []
    for f in files():
        try:
            s = open(f, encoding="utf-8").read()
        except Exception:
            continue
        rel = os.path.relpath(f, REPO)
        for i, ch in enumerate(s.split("// -----")):
            if ch.strip():
                out.append((rel, i, ch))
    return out


_RUN = re.compile(r"//\s*RUN:\s*(.*)")


def run_lines(text):
    return [m.group(1).strip() for m in _RUN.finditer(text)]


def parse_verified(text, name="<corpus>"):
    """Return (ctx, module) when the chunk parses and verifies, else None."""
    from xdsl.parser import Parser
    c = new_ctx()
    try:
        m = Parser(c, text, name).parse_module()
        m.verify()
    except BaseException as e:  # noqa: BLE001
        if isinstance(e, (KeyboardInterrupt, SystemExit)):
            raise
        return None
    return c, m


def shard(seq, i, n):
    return [x for k, x in enumerate(seq) if k % n == i]
