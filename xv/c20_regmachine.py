"""C20 register machine: executes straight-line RISC-V register-to-register code over physical registers.

Written from the RISC-V unprivileged ISA (RV32I/RV64I base + F/D register moves) and the psABI register
names, NOT from xDSL: the module imports nothing from xdsl.  The check adapts xDSL ops into `Instr`
records (mnemonic, operand (kind, register-name, ssa-id), result (kind, register-name, ssa-id), immediate).

Two environments are kept side by side:
  * register mode: one cell per PHYSICAL register (aliases x9 / s1, fp / s0 / x8 collapse to one cell; x0 is
    hard-wired to zero: reads give 0, writes are discarded),
  * SSA mode: one cell per SSA value id (what the IR claims the value is).
Every operand read compares both; a difference is a `stale read` (the instruction names an SSA value whose
register has been overwritten since it was defined) and is reported to the caller.

Floating-point registers are FLEN bits wide.  With FLEN=64 a single-precision value is NaN-boxed (upper 32 bits
all ones); `fmv.s rd, rs` is `fsgnj.s rd, rs, rs`: it reads rs as a single (an improperly boxed input is
treated as the canonical NaN 0x7fc00000) and writes a boxed single.  `fmv.d` copies 64 bits and is an illegal
instruction when FLEN=32.
"""
from __future__ import annotations

INT_ABI = ["zero", "ra", "sp", "gp", "tp", "t0", "t1", "t2", "s0", "s1",
           "a0", "a1", "a2", "a3", "a4", "a5", "a6", "a7",
           "s2", "s3", "s4", "s5", "s6", "s7", "s8", "s9", "s10", "s11",
           "t3", "t4", "t5", "t6"]
FLOAT_ABI = ["ft0", "ft1", "ft2", "ft3", "ft4", "ft5", "ft6", "ft7", "fs0", "fs1",
             "fa0", "fa1", "fa2", "fa3", "fa4", "fa5", "fa6", "fa7",
             "fs2", "fs3", "fs4", "fs5", "fs6", "fs7", "fs8", "fs9", "fs10", "fs11",
             "ft8", "ft9", "ft10", "ft11"]
assert len(INT_ABI) == 32 and len(FLOAT_ABI) == 32

_INT_INDEX = {n: i for i, n in enumerate(INT_ABI)}
_INT_INDEX.update({f"x{i}": i for i in range(32)})
_INT_INDEX["fp"] = 8
_FLOAT_INDEX = {n: i for i, n in enumerate(FLOAT_ABI)}
_FLOAT_INDEX.update({f"f{i}": i for i in range(32)})

CANON_NAN_S = 0x7FC00000
BOX = 0xFFFFFFFF00000000


class MachineError(Exception):
    """The code cannot be executed on this machine (unknown mnemonic, bad register, illegal instruction)."""

    def __init__(self, kind, detail):
        super().__init__(f"{kind}: {detail}")
        self.kind = kind
        self.detail = detail


def phys(kind: str, name: str):
    """Canonical physical register: ('x', 0..31) / ('f', 0..31) or a virtual ('xj', n) / ('fj', n) cell for the
    unbounded spill namespaces j_<n> / fj_<n> (no aliasing among those; they are not architectural)."""
    if kind == "int":
        if name in _INT_INDEX:
            return ("x", _INT_INDEX[name])
        if name.startswith("j_") and name[2:].isdigit():
            return ("xj", int(name[2:]))
    elif kind == "float":
        if name in _FLOAT_INDEX:
            return ("f", _FLOAT_INDEX[name])
        if name.startswith("fj_") and name[3:].isdigit():
            return ("fj", int(name[3:]))
    raise MachineError("bad-register", f"{kind}:{name!r}")


class Instr:
    __slots__ = ("mnemonic", "operands", "results", "imm")

    def __init__(self, mnemonic, operands, results, imm=None):
        self.mnemonic = mnemonic      # e.g. "mv", "xor", "fmv.s"
        self.operands = operands      # [(kind, regname, ssa_id)]
        self.results = results        # [(kind, regname, ssa_id)]
        self.imm = imm

    def __repr__(self):
        rd = ",".join(r[1] for r in self.results)
        rs = ",".join(o[1] for o in self.operands)
        return f"{self.mnemonic} {rd} <- {rs}" + (f" #{self.imm}" if self.imm is not None else "")


def _sext(v, bits):
    v &= (1 << bits) - 1
    return v - (1 << bits) if v >> (bits - 1) else v


class Machine:
    def __init__(self, xlen=64, flen=64):
        assert xlen in (32, 64) and flen in (32, 64)
        self.xlen, self.flen = xlen, flen
        self.xmask = (1 << xlen) - 1
        self.fmask = (1 << flen) - 1
        self.regs: dict = {}
        self.ssa: dict = {}
        self.stale_reads: list = []
        self.uninit_reads: list = []
        self.x0_writes = 0
        self.executed = 0
        self.trace: list = []

    # ---- state
    def set_reg(self, kind, name, value, ssa_id=None):
        p = phys(kind, name)
        if p == ("x", 0):
            value = 0
        else:
            value &= self.xmask if p[0] in ("x", "xj") else self.fmask
            self.regs[p] = value
        if ssa_id is not None:
            self.ssa[ssa_id] = value

    def get_reg(self, kind, name):
        p = phys(kind, name)
        if p == ("x", 0):
            return 0
        return self.regs.get(p)

    def snapshot(self):
        return dict(self.regs)

    # ---- execution
    def _read(self, ins, i, want_kind):
        kind, name, sid = ins.operands[i]
        if kind != want_kind:
            raise MachineError("operand-kind", f"{ins!r} operand {i} is {kind}, {want_kind} register required")
        p = phys(kind, name)
        rv = 0 if p == ("x", 0) else self.regs.get(p)
        if rv is None:
            self.uninit_reads.append((repr(ins), name))
            rv = 0
        sv = self.ssa.get(sid)
        if sv is None:
            raise MachineError("undefined-ssa", f"{ins!r} operand {i} has no SSA definition in the executed code")
        if sv != rv:
            self.stale_reads.append((repr(ins), name, sv, rv))
        return rv, sv

    def _write(self, ins, want_kind, rv, sv):
        if len(ins.results) != 1:
            raise MachineError("result-count", repr(ins))
        kind, name, sid = ins.results[0]
        if kind != want_kind:
            raise MachineError("result-kind", f"{ins!r} result is {kind}, {want_kind} register required")
        p = phys(kind, name)
        if p == ("x", 0):
            self.x0_writes += 1
            rv = sv = 0           # writes to x0 are discarded; the SSA value in `zero` reads as 0
        else:
            self.regs[p] = rv
        self.ssa[sid] = sv

    def _fmv_s(self, v):
        if self.flen == 32:
            return v & 0xFFFFFFFF
        if (v & BOX) != BOX:          # not a NaN-boxed single: treated as canonical NaN
            return BOX | CANON_NAN_S
        return v

    def step(self, ins: Instr):
        m = ins.mnemonic
        xm = self.xmask
        self.executed += 1
        if m == "mv":                                  # addi rd, rs, 0
            r, s = self._read(ins, 0, "int")
            self._write(ins, "int", r, s)
        elif m == "li":                                # rd = sign-extended immediate
            v = int(ins.imm) & xm
            self._write(ins, "int", v, v)
        elif m in ("xor", "or", "and", "add", "sub"):
            (r1, s1), (r2, s2) = self._read(ins, 0, "int"), self._read(ins, 1, "int")
            f = {"xor": lambda a, b: a ^ b, "or": lambda a, b: a | b, "and": lambda a, b: a & b,
                 "add": lambda a, b: (a + b) & xm, "sub": lambda a, b: (a - b) & xm}[m]
            self._write(ins, "int", f(r1, r2), f(s1, s2))
        elif m in ("addi", "xori", "ori", "andi"):
            r, s = self._read(ins, 0, "int")
            imm = _sext(int(ins.imm), 12) & xm
            f = {"addi": lambda a: (a + imm) & xm, "xori": lambda a: a ^ imm, "ori": lambda a: a | imm,
                 "andi": lambda a: a & imm}[m]
            self._write(ins, "int", f(r), f(s))
        elif m == "fmv.s":                             # fsgnj.s rd, rs, rs
            r, s = self._read(ins, 0, "float")
            self._write(ins, "float", self._fmv_s(r), self._fmv_s(s))
        elif m == "fmv.d":                             # fsgnj.d rd, rs, rs (D extension)
            if self.flen < 64:
                raise MachineError("illegal-instruction", "fmv.d with FLEN=32")
            r, s = self._read(ins, 0, "float")
            self._write(ins, "float", r, s)
        else:
            raise MachineError("unknown-mnemonic", m)
        if len(self.trace) < 64:
            self.trace.append(repr(ins))

    def run(self, code):
        for ins in code:
            self.step(ins)


def selftest():
    """Corner cases from the ISA text; raises AssertionError when the model itself is broken."""
    m = Machine(64, 64)
    m.set_reg("int", "s1", 5, "a")
    m.set_reg("int", "x9", 7, "a")                      # alias of s1
    assert m.get_reg("int", "s1") == 7 and phys("int", "fp") == phys("int", "s0") == ("x", 8)
    m.set_reg("int", "zero", 9, "z")
    assert m.get_reg("int", "zero") == 0 and m.ssa["z"] == 0
    m.set_reg("int", "s2", 11, "b")
    # xor swap s1 <-> s2
    m.run([Instr("xor", [("int", "s1", "a"), ("int", "s2", "b")], [("int", "s1", "c")]),
           Instr("xor", [("int", "s1", "c"), ("int", "s2", "b")], [("int", "s2", "d")]),
           Instr("xor", [("int", "s1", "c"), ("int", "s2", "d")], [("int", "s1", "e")])])
    assert (m.get_reg("int", "s1"), m.get_reg("int", "s2")) == (11, 7) and not m.stale_reads
    # reading an overwritten SSA value is a stale read
    m.run([Instr("mv", [("int", "s1", "a")], [("int", "s3", "f")])])
    assert len(m.stale_reads) == 1
    # write to x0 discarded
    m.run([Instr("mv", [("int", "s2", "d")], [("int", "zero", "g")])])
    assert m.get_reg("int", "zero") == 0 and m.x0_writes == 1 and m.ssa["g"] == 0
    # fmv.s on a boxed single copies; on a double destroys (canonical NaN, boxed)
    m.set_reg("float", "fs1", BOX | 0x3F800000, "x")
    m.set_reg("float", "fs2", 0x4000000000000001, "y")
    m.run([Instr("fmv.s", [("float", "fs1", "x")], [("float", "fs3", "p")]),
           Instr("fmv.s", [("float", "fs2", "y")], [("float", "fs4", "q")]),
           Instr("fmv.d", [("float", "fs2", "y")], [("float", "fs5", "r")])])
    assert m.get_reg("float", "fs3") == BOX | 0x3F800000
    assert m.get_reg("float", "fs4") == BOX | CANON_NAN_S
    assert m.get_reg("float", "fs5") == 0x4000000000000001
    m32 = Machine(32, 32)
    m32.set_reg("float", "ft0", 0x12345678, "x")
    try:
        m32.run([Instr("fmv.d", [("float", "ft0", "x")], [("float", "ft1", "y")])])
        raise AssertionError("fmv.d must be illegal with FLEN=32")
    except MachineError as e:
        assert e.kind == "illegal-instruction"
    m32.set_reg("int", "a0", -1, "i")
    assert m32.get_reg("int", "a0") == 0xFFFFFFFF
    m32.run([Instr("li", [], [("int", "a1", "j")], imm=-2), Instr("addi", [("int", "a1", "j")], [("int", "a2", "k")], imm=3)])
    assert m32.get_reg("int", "a1") == 0xFFFFFFFE and m32.get_reg("int", "a2") == 1
    try:
        Machine().run([Instr("mv", [("float", "ft0", "x")], [("int", "a0", "y")])])
        raise AssertionError("mv of a float register must be rejected")
    except MachineError:
        pass
    return True
