"""rvsim - independent RV32/RV64 IMFD instruction-level model over emitted assembly TEXT.

Written from the RISC-V unprivileged ISA manual, not from xDSL: labels, the standard pseudo-instructions,
ABI register names, byte-addressed memory, 12-bit immediate range checks, shift amounts masked to 5/6 bits
(register forms) and range-checked (immediate forms), M-extension corner cases (x/0 = -1, x%0 = x,
MIN/-1 = MIN, MIN%-1 = 0), F/D through `struct` (singles NaN-boxed in 64-bit f registers).

It REJECTS ill-formed assembly with `Bad`: unknown mnemonic / register / label, immediate out of range,
wrong operand count, load of memory that was never written, misuse of `zero` as float register, ...

API: `run(asm, entry, int_args, float_args, xlen=32, mem=None, max_steps=200000) -> Result` with fields
`a` (a0, a1 as unsigned xlen-bit ints), `fa` (raw 64-bit patterns of fa0, fa1), `callee_ok` (dict name ->
bool for sp, s0-s11, fs0-fs11), `mem` (final byte map), `steps`. `float_args` are (kind, python float)
with kind 's' (single, NaN-boxed) or 'd'. Helper `f32_of(bits64)`, `f64_of(bits64)`.
"""
from __future__ import annotations

import math
import re
import struct

XREGS = (["zero", "ra", "sp", "gp", "tp", "t0", "t1", "t2", "s0", "s1"] + [f"a{i}" for i in range(8)] +
         [f"s{i}" for i in range(2, 12)] + [f"t{i}" for i in range(3, 7)])
FREGS = ([f"ft{i}" for i in range(8)] + ["fs0", "fs1"] + [f"fa{i}" for i in range(8)] +
         [f"fs{i}" for i in range(2, 12)] + [f"ft{i}" for i in range(8, 12)])
XALIAS = {"fp": "s0"}
XALIAS.update({f"x{i}": XREGS[i] for i in range(32)})
FALIAS = {f"f{i}": FREGS[i] for i in range(32)}
CALLEE_X = ["sp", "s0", "s1"] + [f"s{i}" for i in range(2, 12)]
CALLEE_F = ["fs0", "fs1"] + [f"fs{i}" for i in range(2, 12)]
RET_MAGIC = 0x0DEAD0
TEXT_BASE = 0x1000
CANON_NAN32 = 0x7FC00000
CANON_NAN64 = 0x7FF8000000000000


class Bad(Exception):
    pass


class Result:
    def __init__(self, a, fa, callee_ok, mem, steps):
        self.a, self.fa, self.callee_ok, self.mem, self.steps = a, fa, callee_ok, mem, steps


def f32_of(bits64):
    if (bits64 >> 32) != 0xFFFFFFFF:
        return math.nan  # not NaN-boxed: reads as canonical NaN
    return struct.unpack("<f", struct.pack("<I", bits64 & 0xFFFFFFFF))[0]


def f64_of(bits64):
    return struct.unpack("<d", struct.pack("<Q", bits64))[0]


def box32(x: float) -> int:
    if math.isnan(x):
        return 0xFFFFFFFF00000000 | CANON_NAN32
    try:
        b = struct.unpack("<I", struct.pack("<f", x))[0]
    except OverflowError:
        b = 0x7F800000 if x > 0 else 0xFF800000
    return 0xFFFFFFFF00000000 | b


def bits64(x: float) -> int:
    if math.isnan(x):
        return CANON_NAN64
    return struct.unpack("<Q", struct.pack("<d", x))[0]


def _int(s, what="immediate"):
    try:
        return int(s, 0)
    except ValueError:
        raise Bad(f"bad {what} '{s}'") from None


def _fdiv(a, b):
    if math.isnan(a) or math.isnan(b):
        return math.nan
    if b == 0:
        if a == 0:
            return math.nan
        return math.copysign(math.inf, a) * math.copysign(1.0, b)
    if math.isinf(a) and math.isinf(b):
        return math.nan
    try:
        return a / b
    except OverflowError:
        return math.copysign(math.inf, a) * math.copysign(1.0, b)


def _fmul(a, b):
    if math.isnan(a) or math.isnan(b) or (math.isinf(a) and b == 0) or (math.isinf(b) and a == 0):
        return math.nan
    try:
        return a * b
    except OverflowError:
        return math.copysign(math.inf, a) * math.copysign(1.0, b)


def _fadd(a, b):
    if math.isnan(a) or math.isnan(b) or (math.isinf(a) and math.isinf(b) and a != b):
        return math.nan
    return a + b


def _fminmax(a, b, is_max):
    an, bn = math.isnan(a), math.isnan(b)
    if an and bn:
        return math.nan
    if an:
        return b
    if bn:
        return a
    if a == b:
        pa = math.copysign(1.0, a) > 0
        return (a if pa else b) if is_max else (b if pa else a)
    return max(a, b) if is_max else min(a, b)


def parse(asm: str):
    lines, labels = [], {}
    for raw in asm.splitlines():
        line = raw.split("#")[0].strip()
        if not line:
            continue
        while True:
            m = re.match(r"^([A-Za-z_.$][\w.$]*):\s*(.*)$", line)
            if not m:
                break
            if m.group(1) in labels:
                raise Bad(f"duplicate label {m.group(1)}")
            labels[m.group(1)] = len(lines)
            line = m.group(2).strip()
        if not line or line.startswith("."):
            continue
        lines.append(line)
    return lines, labels


def run(asm, entry, int_args=(), float_args=(), xlen=32, mem=None, max_steps=200000, quirks=()):  # noqa: C901
    # quirks: deliberately NON-ISA behaviours used by checks to confirm a known wrong-lowering model:
    #   "fminmax-propagate-nan": fmin/fmax return NaN when either operand is NaN (IEEE-754-2019 minimum/maximum)
    M = (1 << xlen) - 1
    SH = xlen - 1

    def S(x):
        x &= M
        return x - (1 << xlen) if x >> (xlen - 1) else x

    def S32(x):
        x &= 0xFFFFFFFF
        return x - (1 << 32) if x >> 31 else x

    lines, labels = parse(asm)
    if entry not in labels:
        raise Bad(f"entry label {entry} not found")
    x = {r: (0xA5A50000 + 0x101 * i) & M for i, r in enumerate(XREGS)}
    x["zero"] = 0
    x["sp"] = 0x7FFF0000 & M
    x["ra"] = RET_MAGIC
    f = {r: 0xFFFFFFFF00000000 | (0x7FA00000 + i) for i, r in enumerate(FREGS)}  # boxed signalling-ish NaNs
    for i, a in enumerate(int_args):
        if i >= 8:
            raise Bad("more than 8 integer arguments (stack passing not modelled)")
        x[f"a{i}"] = a & M
    for i, (kind, v) in enumerate(float_args):
        if i >= 8:
            raise Bad("more than 8 float arguments")
        f[f"fa{i}"] = box32(v) if kind == "s" else bits64(v)
    saved_x = {r: x[r] for r in CALLEE_X}
    saved_f = {r: f[r] for r in CALLEE_F}
    memory = dict(mem or {})

    def xr(name):
        name = XALIAS.get(name, name)
        if name not in x:
            raise Bad(f"unknown integer register '{name}'")
        return name

    def fr(name):
        name = FALIAS.get(name, name)
        if name not in f:
            raise Bad(f"unknown float register '{name}'")
        return name

    def RX(name):
        return x[xr(name)]

    def WX(name, v):
        n = xr(name)
        if n != "zero":
            x[n] = v & M

    def RS(name):
        return f32_of(f[fr(name)])

    def RD(name):
        return f64_of(f[fr(name)])

    def WS(name, v):
        f[fr(name)] = box32(v)

    def WD(name, v):
        f[fr(name)] = bits64(v)

    def imm12(s):
        v = _int(s)
        if not -2048 <= v <= 2047:
            raise Bad(f"immediate {v} out of 12-bit range")
        return v

    def memop(s):
        m = re.fullmatch(r"\s*(-?\w+)\s*\(\s*(\w+)\s*\)\s*", s)
        if not m:
            raise Bad(f"bad memory operand '{s}'")
        return (RX(m.group(2)) + imm12(m.group(1))) & M

    def load(addr, n):
        bs = []
        for k in range(n):
            if (addr + k) & M not in memory:
                raise Bad(f"load of uninitialised memory at {hex(addr + k)}")
            bs.append(memory[(addr + k) & M])
        return int.from_bytes(bytes(bs), "little")

    def store(addr, n, v):
        for k, b in enumerate((v & ((1 << (8 * n)) - 1)).to_bytes(n, "little")):
            memory[(addr + k) & M] = b

    def target(lbl):
        if lbl not in labels:
            raise Bad(f"unknown label '{lbl}'")
        return labels[lbl]

    def need(o, n, ins):
        if len(o) != n:
            raise Bad(f"wrong operand count in '{ins}'")

    def sdiv(a, b):
        q = abs(a) // abs(b)
        return q if (a < 0) == (b < 0) else -q

    pc = labels[entry]
    steps = 0
    while True:
        steps += 1
        if steps > max_steps:
            raise Bad("step limit exceeded")
        if not 0 <= pc < len(lines):
            raise Bad("fell off the end of the text")
        ins = lines[pc]
        pc += 1
        op, _, rest = ins.partition(" ")
        op = op.strip()
        o = [t.strip() for t in rest.split(",")] if rest.strip() else []
        rm = None
        if op.startswith("fcvt.") and o and o[-1] in ("rne", "rtz", "rdn", "rup", "rmm", "dyn"):
            rm = o.pop()

        if op == "ret":
            need(o, 0, ins)
            if x["ra"] != RET_MAGIC:
                raise Bad("return address clobbered at ret")
            ok = {r: x[r] == saved_x[r] for r in CALLEE_X}
            ok.update({r: f[r] == saved_f[r] for r in CALLEE_F})
            return Result((x["a0"], x["a1"]), (f["fa0"], f["fa1"]), ok, memory, steps)
        if op in ("li",):
            need(o, 2, ins)
            v = _int(o[1])
            if not -(1 << (xlen - 1)) <= v <= M:
                raise Bad(f"li immediate {v} does not fit in {xlen} bits")
            WX(o[0], v)
            continue
        if op == "lui":
            need(o, 2, ins)
            v = _int(o[1])
            if not 0 <= v < (1 << 20):
                raise Bad("lui immediate out of 20-bit range")
            WX(o[0], S32(v << 12))
            continue
        if op == "mv":
            need(o, 2, ins)
            WX(o[0], RX(o[1]))
            continue
        if op in ("add", "sub", "mul", "and", "or", "xor", "sll", "srl", "sra", "slt", "sltu", "div", "divu", "rem",
                  "remu", "mulh", "mulhu", "mulhsu"):
            need(o, 3, ins)
            a, b = RX(o[1]), RX(o[2])
            sa, sb = S(a), S(b)
            if op == "add":
                r = a + b
            elif op == "sub":
                r = a - b
            elif op == "mul":
                r = a * b
            elif op == "and":
                r = a & b
            elif op == "or":
                r = a | b
            elif op == "xor":
                r = a ^ b
            elif op == "sll":
                r = a << (b & SH)
            elif op == "srl":
                r = a >> (b & SH)
            elif op == "sra":
                r = sa >> (b & SH)
            elif op == "slt":
                r = int(sa < sb)
            elif op == "sltu":
                r = int(a < b)
            elif op == "div":
                r = -1 if b == 0 else (sa if (sa == -(1 << (xlen - 1)) and sb == -1) else sdiv(sa, sb))
            elif op == "divu":
                r = M if b == 0 else a // b
            elif op == "rem":
                r = sa if b == 0 else (0 if (sa == -(1 << (xlen - 1)) and sb == -1) else sa - sb * sdiv(sa, sb))
            elif op == "remu":
                r = a if b == 0 else a % b
            elif op == "mulh":
                r = (sa * sb) >> xlen
            elif op == "mulhu":
                r = (a * b) >> xlen
            else:
                r = (sa * b) >> xlen
            WX(o[0], r)
            continue
        if xlen == 64 and op in ("addw", "subw", "mulw", "sllw", "srlw", "sraw", "divw", "divuw", "remw", "remuw"):
            need(o, 3, ins)
            a, b = RX(o[1]) & 0xFFFFFFFF, RX(o[2]) & 0xFFFFFFFF
            sa, sb = S32(a), S32(b)
            if op == "addw":
                r = a + b
            elif op == "subw":
                r = a - b
            elif op == "mulw":
                r = a * b
            elif op == "sllw":
                r = a << (b & 31)
            elif op == "srlw":
                r = a >> (b & 31)
            elif op == "sraw":
                r = sa >> (b & 31)
            elif op == "divw":
                r = -1 if b == 0 else (sa if (sa == -(1 << 31) and sb == -1) else sdiv(sa, sb))
            elif op == "divuw":
                r = 0xFFFFFFFF if b == 0 else a // b
            elif op == "remw":
                r = sa if b == 0 else (0 if (sa == -(1 << 31) and sb == -1) else sa - sb * sdiv(sa, sb))
            else:
                r = a if b == 0 else a % b
            WX(o[0], S32(r))
            continue
        if op in ("addi", "andi", "ori", "xori", "slti", "sltiu") or (xlen == 64 and op == "addiw"):
            need(o, 3, ins)
            a, i = RX(o[1]), imm12(o[2])
            if op == "addi":
                r = a + i
            elif op == "addiw":
                r = S32(a + i)
            elif op == "andi":
                r = a & (i & M)
            elif op == "ori":
                r = a | (i & M)
            elif op == "xori":
                r = a ^ (i & M)
            elif op == "slti":
                r = int(S(a) < i)
            else:
                r = int(a < (i & M))
            WX(o[0], r)
            continue
        if op in ("slli", "srli", "srai"):
            need(o, 3, ins)
            a, i = RX(o[1]), _int(o[2], "shift amount")
            if not 0 <= i < xlen:
                raise Bad(f"shift amount {i} out of range")
            WX(o[0], {"slli": a << i, "srli": a >> i, "srai": S(a) >> i}[op])
            continue
        if op in ("seqz", "snez", "sltz", "sgtz", "neg", "not"):
            need(o, 2, ins)
            a = RX(o[1])
            WX(o[0], {"seqz": int(a == 0), "snez": int(a != 0), "sltz": int(S(a) < 0), "sgtz": int(S(a) > 0),
                      "neg": -a, "not": ~a}[op])
            continue
        if op in ("beq", "bne", "blt", "bge", "bltu", "bgeu", "bgt", "ble", "bgtu", "bleu"):
            need(o, 3, ins)
            a, b = RX(o[0]), RX(o[1])
            t = {"beq": a == b, "bne": a != b, "blt": S(a) < S(b), "bge": S(a) >= S(b), "bltu": a < b,
                 "bgeu": a >= b, "bgt": S(a) > S(b), "ble": S(a) <= S(b), "bgtu": a > b, "bleu": a <= b}[op]
            tgt = target(o[2])
            if t:
                pc = tgt
            continue
        if op in ("beqz", "bnez", "blez", "bgez", "bltz", "bgtz"):
            need(o, 2, ins)
            a = S(RX(o[0]))
            t = {"beqz": a == 0, "bnez": a != 0, "blez": a <= 0, "bgez": a >= 0, "bltz": a < 0, "bgtz": a > 0}[op]
            tgt = target(o[1])
            if t:
                pc = tgt
            continue
        if op == "j":
            need(o, 1, ins)
            pc = target(o[0])
            continue
        if op in ("lw", "lh", "lhu", "lb", "lbu") or (xlen == 64 and op in ("ld", "lwu")):
            need(o, 2, ins)
            addr = memop(o[1])
            n = {"lw": 4, "lwu": 4, "lh": 2, "lhu": 2, "lb": 1, "lbu": 1, "ld": 8}[op]
            v = load(addr, n)
            if op in ("lw", "lh", "lb"):
                sign = 1 << (8 * n - 1)
                v = v - (1 << (8 * n)) if v & sign else v
            WX(o[0], v)
            continue
        if op in ("sw", "sh", "sb") or (xlen == 64 and op == "sd"):
            need(o, 2, ins)
            store(memop(o[1]), {"sw": 4, "sh": 2, "sb": 1, "sd": 8}[op], RX(o[0]))
            continue
        if op in ("flw", "fld"):
            need(o, 2, ins)
            addr = memop(o[1])
            if op == "flw":
                f[fr(o[0])] = 0xFFFFFFFF00000000 | load(addr, 4)
            else:
                f[fr(o[0])] = load(addr, 8)
            continue
        if op in ("fsw", "fsd"):
            need(o, 2, ins)
            addr = memop(o[1])
            if op == "fsw":
                store(addr, 4, f[fr(o[0])] & 0xFFFFFFFF)
            else:
                store(addr, 8, f[fr(o[0])])
            continue
        m = re.fullmatch(r"(fadd|fsub|fmul|fdiv|fmin|fmax)\.([sd])", op)
        if m:
            need(o, 3, ins)
            k, p = m.group(1), m.group(2)
            R, W = (RS, WS) if p == "s" else (RD, WD)
            a, b = R(o[1]), R(o[2])
            if k in ("fmin", "fmax") and "fminmax-propagate-nan" in quirks and (math.isnan(a) or math.isnan(b)):
                W(o[0], math.nan)
                continue
            r = {"fadd": lambda: _fadd(a, b), "fsub": lambda: _fadd(a, -b), "fmul": lambda: _fmul(a, b),
                 "fdiv": lambda: _fdiv(a, b), "fmin": lambda: _fminmax(a, b, False),
                 "fmax": lambda: _fminmax(a, b, True)}[k]()
            W(o[0], r)
            continue
        m = re.fullmatch(r"(fmadd|fmsub|fnmsub|fnmadd)\.([sd])", op)
        if m:
            need(o, 4, ins)
            k, p = m.group(1), m.group(2)
            R, W = (RS, WS) if p == "s" else (RD, WD)
            a, b, c = R(o[1]), R(o[2]), R(o[3])
            if p == "d":
                raise Bad("fused multiply-add on doubles needs exact arithmetic (not modelled)")
            prod = _fmul(a, b)  # exact in double for single operands
            r = {"fmadd": _fadd(prod, c), "fmsub": _fadd(prod, -c), "fnmsub": _fadd(-prod, c),
                 "fnmadd": _fadd(-prod, -c)}[k]
            W(o[0], r)
            continue
        m = re.fullmatch(r"(fsgnj|fsgnjn|fsgnjx)\.([sd])", op)
        if m:
            need(o, 3, ins)
            k, p = m.group(1), m.group(2)
            if p == "s":
                a, b = f[fr(o[1])] & 0xFFFFFFFF, f[fr(o[2])] & 0xFFFFFFFF
                sb = b >> 31
                s = {"fsgnj": sb, "fsgnjn": sb ^ 1, "fsgnjx": sb ^ (a >> 31)}[k]
                f[fr(o[0])] = 0xFFFFFFFF00000000 | (a & 0x7FFFFFFF) | (s << 31)
            else:
                a, b = f[fr(o[1])], f[fr(o[2])]
                sb = b >> 63
                s = {"fsgnj": sb, "fsgnjn": sb ^ 1, "fsgnjx": sb ^ (a >> 63)}[k]
                f[fr(o[0])] = (a & 0x7FFFFFFFFFFFFFFF) | (s << 63)
            continue
        m = re.fullmatch(r"(fmv|fneg|fabs)\.([sd])", op)
        if m:
            need(o, 2, ins)
            k, p = m.group(1), m.group(2)
            src = f[fr(o[1])]
            if p == "s":
                lo = src & 0xFFFFFFFF
                lo = {"fmv": lo, "fneg": lo ^ 0x80000000, "fabs": lo & 0x7FFFFFFF}[k]
                f[fr(o[0])] = 0xFFFFFFFF00000000 | lo
            else:
                f[fr(o[0])] = {"fmv": src, "fneg": src ^ (1 << 63), "fabs": src & ~(1 << 63)}[k]
            continue
        m = re.fullmatch(r"fsqrt\.([sd])", op)
        if m:
            need(o, 2, ins)
            R, W = (RS, WS) if m.group(1) == "s" else (RD, WD)
            a = R(o[1])
            W(o[0], math.nan if (math.isnan(a) or a < 0) else math.sqrt(a))
            continue
        m = re.fullmatch(r"(feq|flt|fle)\.([sd])", op)
        if m:
            need(o, 3, ins)
            R = RS if m.group(2) == "s" else RD
            a, b = R(o[1]), R(o[2])
            un = math.isnan(a) or math.isnan(b)
            WX(o[0], int((not un) and {"feq": a == b, "flt": a < b, "fle": a <= b}[m.group(1)]))
            continue
        if op in ("fmv.x.w", "fmv.x.s"):
            need(o, 2, ins)
            WX(o[0], S32(f[fr(o[1])] & 0xFFFFFFFF))
            continue
        if op in ("fmv.w.x", "fmv.s.x"):
            need(o, 2, ins)
            f[fr(o[0])] = 0xFFFFFFFF00000000 | (RX(o[1]) & 0xFFFFFFFF)
            continue
        if xlen == 64 and op == "fmv.x.d":
            need(o, 2, ins)
            WX(o[0], f[fr(o[1])])
            continue
        if xlen == 64 and op == "fmv.d.x":
            need(o, 2, ins)
            f[fr(o[0])] = RX(o[1])
            continue
        m = re.fullmatch(r"fcvt\.([sd])\.(w|wu|l|lu)", op)
        if m:
            need(o, 2, ins)
            a = RX(o[1])
            kind = m.group(2)
            if kind in ("l", "lu") and xlen != 64:
                raise Bad(f"{op} needs RV64")
            v = {"w": S32(a), "wu": a & 0xFFFFFFFF, "l": S(a), "lu": a}[kind]
            if m.group(1) == "s":
                if abs(v) >= (1 << 53):
                    raise Bad("int->single needing double rounding (not modelled)")
                WS(o[0], float(v))
            else:
                WD(o[0], float(v))
            continue
        m = re.fullmatch(r"fcvt\.(w|wu|l|lu)\.([sd])", op)
        if m:
            need(o, 2, ins)
            a = (RS if m.group(2) == "s" else RD)(o[1])
            kind = m.group(1)
            if kind in ("l", "lu") and xlen != 64:
                raise Bad(f"{op} needs RV64")
            bits = 32 if kind in ("w", "wu") else 64
            lo, hi = (-(1 << (bits - 1)), (1 << (bits - 1)) - 1) if kind in ("w", "l") else (0, (1 << bits) - 1)
            if math.isnan(a):
                v = hi
            elif math.isinf(a):
                v = hi if a > 0 else lo
            else:
                mode = rm or "rne"  # no static mode = dynamic = frm, whose reset value is RNE
                if mode == "dyn":
                    mode = "rne"
                if mode == "rtz":
                    r = math.trunc(a)
                elif mode == "rdn":
                    r = math.floor(a)
                elif mode == "rup":
                    r = math.ceil(a)
                elif mode == "rmm":
                    r = math.floor(abs(a) + 0.5) * (1 if a >= 0 else -1)
                else:
                    r = round(a)  # python rounds half to even
                v = min(hi, max(lo, int(r)))
            WX(o[0], S32(v) if bits == 32 else v)
            continue
        if op == "fcvt.s.d":
            need(o, 2, ins)
            WS(o[0], RD(o[1]))
            continue
        if op == "fcvt.d.s":
            need(o, 2, ins)
            WD(o[0], RS(o[1]))
            continue
        if op == "nop":
            continue
        raise Bad(f"unknown instruction '{ins}'")
