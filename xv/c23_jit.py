"""C23 child process: everything that touches the native LLVM library runs here (parse, verify, MCJIT, calls).

Usage: python -m xv.c23_jit <in.json> <out.jsonl> <journal>
A native crash / LLVM fatal error / hang only kills this process; the parent reads the JSON lines written so far
plus the journal (module id + stage in flight) and restarts after the culprit.

Lessons baked in: one TargetMachine per MCJIT engine (an engine owns its target machine; sharing one segfaults
in finalize_object), engines / machines / modules are kept alive until exit.
"""
from __future__ import annotations

import ctypes
import json
import re
import sys

CCONV_RE = re.compile(r"\b(fastcc|coldcc|ccc|tailcc|swiftcc|swifttailcc|webkit_jscc|anyregcc|preserve_mostcc|preserve_allcc|"
                      r"cxx_fast_tlscc|cfguard_checkcc|cc \d+)\b")
LLTY = {"i1": "i1", "i8": "i8", "i16": "i16", "i32": "i32", "i64": "i64", "f32": "float", "f64": "double"}
WIDTH = {"i1": 1, "i8": 8, "i16": 16, "i32": 32, "i64": 64, "f32": 32, "f64": 64}


def ll_name(name: str) -> str:
    out = []
    for b in name.encode("utf-8"):
        ch = chr(b)
        if 32 <= b < 127 and ch not in '"\\':
            out.append(ch)
        else:
            out.append("\\%02x" % b)
    return '@"' + "".join(out) + '"'


def wrapper_ir(entries, cconvs, triple):
    lines = [f'target triple = "{triple}"']
    decls = []
    for k, e in enumerate(entries):
        cc = cconvs.get(e["name"], "")
        cc = "" if cc in ("", "ccc") else cc + " "
        rt = LLTY[e["ret"]] if e["ret"] else "void"
        decls.append(f"declare {cc}{rt} {ll_name(e['name'])}({', '.join(LLTY[a] for a in e['args'])})")
        ps = ", ".join(f"i64 %a{i}" for i in range(len(e["args"])))
        body = []
        actual = []
        for i, a in enumerate(e["args"]):
            w = WIDTH[a]
            src = f"%a{i}"
            if w < 64:
                body.append(f"  %t{i} = trunc i64 %a{i} to i{w}")
                src = f"%t{i}"
            if a[0] == "f":
                body.append(f"  %f{i} = bitcast i{w} {src} to {LLTY[a]}")
                src = f"%f{i}"
            actual.append(f"{LLTY[a]} {src}")
        call = f"call {cc}{rt} {ll_name(e['name'])}({', '.join(actual)})"
        if e["ret"] is None:
            body += [f"  {call}", "  ret i64 0"]
        else:
            w = WIDTH[e["ret"]]
            body.append(f"  %r = {call}")
            src = "%r"
            if e["ret"][0] == "f":
                body.append(f"  %ri = bitcast {rt} %r to i{w}")
                src = "%ri"
            if w < 64:
                body.append(f"  %rz = zext i{w} {src} to i64")
                src = "%rz"
            body.append(f"  ret i64 {src}")
        lines.append(f"define i64 @__xv_w{k}({ps}) {{\nentry:\n" + "\n".join(body) + "\n}")
    return "\n".join(lines + decls) + "\n"


def main():
    inp, outp, jpath = sys.argv[1:4]
    with open(inp) as f:
        job = json.load(f)
    import llvmlite.binding as llvm
    try:
        llvm.initialize()
    except Exception:
        pass
    llvm.initialize_native_target()
    llvm.initialize_native_asmprinter()
    try:
        llvm.initialize_native_asmparser()
    except Exception:
        pass
    for lib in ("libgcc_s.so.1", "libm.so.6"):
        try:
            llvm.load_library_permanently(lib)
        except Exception:
            pass
    target = llvm.Target.from_default_triple()
    keep = []
    out = open(outp, "a")
    jf = open(jpath, "w")

    def journal(mid, stage):
        jf.seek(0)
        jf.truncate()
        jf.write(json.dumps({"id": mid, "stage": stage}))
        jf.flush()

    for m in job["modules"]:
        mid = m["id"]
        res = {"id": mid, "stage": "ok", "err": "", "funcs": {}, "globals": [], "results": []}
        journal(mid, "parse")
        try:
            mod = llvm.parse_assembly(m["ir"])
        except Exception as e:  # noqa: BLE001
            res["stage"], res["err"] = "parse-error", str(e)[:600]
            out.write(json.dumps(res) + "\n")
            out.flush()
            continue
        journal(mid, "verify")
        try:
            mod.verify()
        except Exception as e:  # noqa: BLE001
            res["stage"], res["err"] = "verify-error", str(e)[:600]
            out.write(json.dumps(res) + "\n")
            out.flush()
            keep.append(mod)
            continue
        journal(mid, "inspect")
        cconvs = {}
        for fn in mod.functions:
            head = str(fn).split("\n", 1)[0] if fn.is_declaration else ""
            if not fn.is_declaration:
                txt = str(fn)
                head = next((ln for ln in txt.split("\n") if ln.startswith("define")), "")
                instrs = []
                for blk in fn.blocks:
                    for ins in blk.instructions:
                        instrs.append([ins.opcode, str(ins).strip()])
                res["funcs"][fn.name] = {"head": head, "instrs": instrs, "nblocks": len(list(fn.blocks))}
            pre = head.split("@", 1)[0]
            mm = CCONV_RE.search(pre)
            cconvs[fn.name] = mm.group(1) if mm else ""
        for g in mod.global_variables:
            res["globals"].append(str(g).strip())
        if m.get("calls") and m.get("entries"):
            journal(mid, "compile")
            try:
                wmod = llvm.parse_assembly(wrapper_ir(m["entries"], cconvs, mod.triple))
                wmod.verify()
                mod.link_in(wmod)
            except Exception as e:  # noqa: BLE001
                res["stage"], res["err"] = "harness-wrapper-error", str(e)[:600]
                out.write(json.dumps(res) + "\n")
                out.flush()
                keep.append(mod)
                continue
            tm = target.create_target_machine()  # generic x86-64: the most exercised code generator paths
            ee = llvm.create_mcjit_compiler(mod, tm)
            keep.append((ee, tm, mod))
            ee.finalize_object()
            fns = []
            for k, e in enumerate(m["entries"]):
                addr = ee.get_function_address(f"__xv_w{k}")
                fns.append(ctypes.CFUNCTYPE(ctypes.c_uint64, *([ctypes.c_uint64] * len(e["args"])))(addr))
            for ci, (k, args) in enumerate(m["calls"]):
                journal(mid, f"call:{ci}")
                res["results"].append(int(fns[k](*args)))
        else:
            keep.append(mod)
        journal(mid, "done")
        out.write(json.dumps(res) + "\n")
        out.flush()
    journal("", "finished")
    out.close()


if __name__ == "__main__":
    main()
