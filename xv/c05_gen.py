"""C05 workload machinery: in-situ mutation of operation instances inside verified modules.

The verified corpus contains instances of 674 of the 689 declarative-format operations (1057 of the 1075
operations with any custom format).  Instead of synthesising operands from constraints, every mutation starts
from a real, verified instance and moves it along the dimensions the custom formats are sensitive to:

  drop_opt          remove an optional property/attribute that is present             (optional group absent)
  add_opt           add an optional property/attribute that is absent                 (optional group present)
  default_explicit  set a default-valued property to exactly its declared default
  default_changed   set a default-valued property to another value its constraint accepts
  default_removed   delete a default-valued property (the verifier accepts that for optional ones)
  extra_attrs       add discardable attributes (attr-dict path), incl. names that need quoting and unit attrs
  var_shrink/var_grow/opt_operand_drop/opt_operand_add
                    change the length of a variadic operand group to 0 / 1 / 3, drop / add an optional operand
                    (the op is rebuilt through IRDLOperation.build, which recomputes operandSegmentSizes; only
                    ops WITHOUT regions: block arguments of attached regions usually mirror the operands - linalg
                    hidden regions, loop iter_args - and verifiers do not check that, so resizing there leaves the
                    domain of IR any parser could have produced)

  partial_elem_attrs
                    per-element attribute arrays (arg_attrs / res_attrs of function-like ops, any present array of
                    dictionaries with >= 2 entries) filled on a STRICT SUBSET of the positions: some entries carry a
                    dictionary, the others are empty
  seg_nonuniform    ops whose variadic operand group is partitioned by a `*segment*` property (cf.switch case operands,
                    ...): one segment shrunk by one / grown by one / emptied, so that the segments are not uniform

A mutation is kept only if the mutated op verifies (`op.verify()`), and a mutation round only if the whole
module still verifies, so everything that reaches the oracle is inside the property's domain.  Values for
added/changed properties come from a pool harvested from the same shard's corpus modules (per (op, property)
first, then any attribute satisfying the property's constraint)."""
from __future__ import annotations

from dataclasses import dataclass

SEGMENT_NAMES = ("operandSegmentSizes", "resultSegmentSizes", "regionSegmentSizes", "successorSegmentSizes",
                 "operand_segment_sizes", "result_segment_sizes")
MUTATIONS = ["drop_opt", "add_opt", "default_explicit", "default_changed", "default_removed", "extra_attrs",
             "var_shrink", "var_grow", "opt_operand_drop", "opt_operand_add", "partial_elem_attrs", "seg_nonuniform"]
EXTRA_ATTR_SETS = [
    [("xv.extra", "i")],
    [("xv_unit", "u")],
    [("with space", "s"), ("xv.b", "u")],
    [("0lead", "d")],
    [("xv.arr", "a"), ("xv.sym", "y")],
]


def has_custom_format(op) -> bool:
    from xdsl.dialects.builtin import UnregisteredOp
    from xdsl.ir import Operation
    return not isinstance(op, UnregisteredOp) and type(op).print is not Operation.print


def is_declarative(op) -> bool:
    from xdsl.irdl import IRDLOperation
    return isinstance(op, IRDLOperation) and type(op).get_irdl_definition().assembly_format is not None


def _group(x):
    if x is None:
        return []
    if isinstance(x, (tuple, list)):
        return list(x)
    return [x]


def satisfies(constr, attr) -> bool:
    from xdsl.irdl import ConstraintContext
    try:
        constr.verify(attr, ConstraintContext())
        return True
    except Exception:  # noqa: BLE001 - any rejection means "not a candidate"
        return False


class cheap_diagnostics:
    """While candidate mutants are filtered through the verifier, a rejection must not print the whole module into
    the exception notes (Diagnostic.raise_exception does, ~20 ms per rejection). Only the error REPORT is
    shortened; what verifies and what does not is untouched."""

    def __enter__(self):
        from xdsl.utils.diagnostic import Diagnostic
        self._cls = Diagnostic
        self._old = Diagnostic.raise_exception

        def raise_exception(self_, ir, underlying_error):
            raise underlying_error
        Diagnostic.raise_exception = raise_exception
        return self

    def __exit__(self, *a):
        self._cls.raise_exception = self._old
        return False


def op_verifies(op, nested=False) -> bool:
    try:
        with cheap_diagnostics():
            op.verify(verify_nested_ops=nested)
        return True
    except Exception:  # noqa: BLE001 - the verifier decides membership in the domain
        return False


class Pool:
    """Attributes seen in verified corpus modules: per (op name, key) and globally (deduplicated by text)."""

    def __init__(self):
        self.by_key: dict[tuple[str, str], list] = {}
        self.all: list = []
        self._seen: set[str] = set()

    def harvest(self, module):
        for op in module.walk():
            for d in (op.properties, op.attributes):
                for k, v in d.items():
                    if k in SEGMENT_NAMES:
                        continue
                    lst = self.by_key.setdefault((op.name, k), [])
                    if len(lst) < 12:
                        lst.append(v)
                    self._add(v)

    def _add(self, v, depth=0):
        from xdsl.dialects.builtin import ArrayAttr
        try:
            t = type(v).__name__ + ":" + str(v)
        except Exception:  # noqa: BLE001 - unprintable attribute: not a pool candidate
            return
        if t in self._seen or len(t) > 300:
            return
        self._seen.add(t)
        if len(self.all) < 4000:
            self.all.append(v)
        if depth < 1 and isinstance(v, ArrayAttr):
            for e in v.data[:4]:
                self._add(e, depth + 1)

    def base(self):
        from xdsl.dialects import builtin as b
        for v in [b.UnitAttr(), b.IntegerAttr(0, b.i1), b.IntegerAttr(1, b.i1), b.IntegerAttr(0, b.i32), b.IntegerAttr(3, b.i32),
                  b.IntegerAttr(0, b.i64), b.IntegerAttr(5, b.i64), b.IntegerAttr(2, b.IndexType()), b.StringAttr("xv"),
                  b.StringAttr(""), b.FloatAttr(1.5, b.Float32Type()), b.FloatAttr(0.0, b.Float64Type()),
                  b.ArrayAttr([]), b.ArrayAttr([b.IntegerAttr(1, b.i64)]), b.ArrayAttr([b.StringAttr("a")]),
                  b.DenseArrayBase.from_list(b.i32, [1, 2]), b.DenseArrayBase.from_list(b.i64, [0]),
                  b.DenseArrayBase.from_list(b.i1, [1, 0]), b.SymbolRefAttr("xv_sym"), b.DictionaryAttr({}),
                  b.i32, b.IndexType(), b.Float32Type(), b.TensorType(b.Float32Type(), [2]), b.MemRefType(b.i32, [2]),
                  b.DictionaryAttr({"k": b.UnitAttr()}), b.ArrayAttr([b.DictionaryAttr({})]),
                  b.AffineMapAttr(b.AffineMap.identity(1)) if hasattr(b, "AffineMap") else b.UnitAttr()]:
            self._add(v)

    def candidates(self, rng, opname, key, constr, exclude=None, limit=8):
        """Constraint-satisfying attributes, own (op,key) values first, then the global pool from a random offset."""
        from xv.canon import canon_attr
        ex = canon_attr(exclude) if exclude is not None else None
        out = []
        own = list(self.by_key.get((opname, key), ()))
        rng.shuffle(own)
        n = len(self.all)
        start = rng.randrange(n) if n else 0
        scanned = 0
        for v in own + [self.all[(start + i) % n] for i in range(min(n, 400))]:
            scanned += 1
            if ex is not None and canon_attr(v) == ex:
                continue
            if satisfies(constr, v):
                if not any(v is o for o in out):
                    out.append(v)
                if len(out) >= limit:
                    break
        return out


def extra_attr_value(code, b):
    return {"i": b.IntegerAttr(7, b.i32), "u": b.UnitAttr(), "s": b.StringAttr("v"),
            "d": b.DictionaryAttr({"k": b.IntegerAttr(1, b.i64)}), "a": b.ArrayAttr([b.IntegerAttr(1, b.i64), b.StringAttr("x")]),
            "y": b.SymbolRefAttr("xv_sym")}[code]


# --------------------------------------------------------------------------- signatures
def op_signature(op):
    """(op name, optional-group signature): sizes of operand/result groups, property keys with default/value marker,
    attribute-dictionary keys that are declared vs extra, region and successor counts."""
    from xdsl.irdl import IRDLOperation
    from xv.canon import canon_attr
    if not isinstance(op, IRDLOperation):
        return (op.name, len(op.operands), len(op.results), tuple(sorted(op.properties)), len(op.attributes), len(op.regions))
    d = type(op).get_irdl_definition()
    osz = tuple(len(_group(getattr(op, n, None))) for n, _ in d.operands)
    rsz = tuple(len(_group(getattr(op, n, None))) for n, _ in d.results)
    props = []
    for k in sorted(op.properties):
        if k in SEGMENT_NAMES:
            continue
        pd = d.properties.get(k)
        dv = getattr(pd, "default_value", None) if pd is not None else None
        props.append(k + ("=D" if dv is not None and canon_attr(dv) == canon_attr(op.properties[k]) else ""))
    declared = [k for k in sorted(op.attributes) if k in d.attributes or k in d.properties]
    extra = sum(1 for k in op.attributes if k not in d.attributes and k not in d.properties)
    return (op.name, osz, rsz, tuple(props), tuple(declared), extra, len(op.regions), len(op.successors))


# --------------------------------------------------------------------------- mutations
@dataclass
class Applied:
    kind: str
    op_name: str
    target: str
    undo: object


def _dict_mut(op, which, key, value):
    """Set (value is not None) or delete a key of op.properties / op.attributes; returns undo."""
    d = op.properties if which == "p" else op.attributes
    old = dict(d)

    def undo():
        d.clear()
        d.update(old)
    if value is None:
        d.pop(key, None)
    else:
        d[key] = value
    return undo


def _defs(op):
    d = type(op).get_irdl_definition()
    out = [("p", k, v) for k, v in d.properties.items()] + [("a", k, v) for k, v in d.attributes.items()]
    return d, [x for x in out if x[1] not in SEGMENT_NAMES]


def mutate_op(op, kind, rng, pool, pick):
    """Try mutation `kind` on IRDL op `op`. `pick` rotates the choice among applicable targets so that different
    instances of the same op cover different properties. Returns Applied or None (not applicable / no verifying
    variant found). The op (or its replacement) verifies afterwards."""
    from xdsl.dialects import builtin as b
    from xdsl.irdl import IRDLOperation, OptionalDef
    from xv.canon import canon_attr
    if not isinstance(op, IRDLOperation):
        if kind != "extra_attrs":
            return None
    if kind == "extra_attrs":
        spec = EXTRA_ATTR_SETS[pick % len(EXTRA_ATTR_SETS)]
        old = dict(op.attributes)
        for name, code in spec:
            if name in op.attributes:
                return None
            op.attributes[name] = extra_attr_value(code, b)

        def undo():
            op.attributes.clear()
            op.attributes.update(old)
        if not op_verifies(op):
            undo()
            return None
        return Applied(kind, op.name, "+".join(n for n, _ in spec), undo)

    d, defs = _defs(op)

    def cont(which):
        return op.properties if which == "p" else op.attributes

    if kind == "drop_opt":
        targets = [(w, k, pd) for w, k, pd in defs if isinstance(pd, OptionalDef) and k in cont(w)]
        if not targets:
            return None
        w, k, pd = targets[pick % len(targets)]
        undo = _dict_mut(op, w, k, None)
        if not op_verifies(op):
            undo()
            return None
        return Applied(kind, op.name, k, undo)
    if kind == "add_opt":
        targets = [(w, k, pd) for w, k, pd in defs if isinstance(pd, OptionalDef) and k not in cont(w)
                   and k not in op.attributes and k not in op.properties]
        if not targets:
            return None
        for off in range(len(targets)):
            w, k, pd = targets[(pick + off) % len(targets)]
            for v in pool.candidates(rng, op.name, k, pd.constr, limit=4):
                undo = _dict_mut(op, w, k, v)
                if op_verifies(op):
                    return Applied(kind, op.name, k, undo)
                undo()
        return None
    if kind in ("default_explicit", "default_changed", "default_removed"):
        targets = [(w, k, pd) for w, k, pd in defs if pd.default_value is not None]
        if not targets:
            return None
        for off in range(len(targets)):
            w, k, pd = targets[(pick + off) % len(targets)]
            cur = cont(w).get(k)
            if kind == "default_explicit":
                if cur is not None and canon_attr(cur) == canon_attr(pd.default_value):
                    # already explicit (the constructors fill defaults in): still a case of interest, but not a mutation
                    continue
                undo = _dict_mut(op, w, k, pd.default_value)
                if op_verifies(op):
                    return Applied(kind, op.name, k, undo)
                undo()
            elif kind == "default_removed":
                if cur is None:
                    continue
                undo = _dict_mut(op, w, k, None)
                if op_verifies(op):
                    return Applied(kind, op.name, k, undo)
                undo()
            else:
                for v in pool.candidates(rng, op.name, k, pd.constr, exclude=pd.default_value, limit=4):
                    if cur is not None and canon_attr(v) == canon_attr(cur):
                        continue
                    undo = _dict_mut(op, w, k, v)
                    if op_verifies(op):
                        return Applied(kind, op.name, k, undo)
                    undo()
        return None
    if kind in ("var_shrink", "var_grow", "opt_operand_drop", "opt_operand_add"):
        return _mutate_operands(op, kind, rng, pick)
    if kind == "partial_elem_attrs":
        return _partial_elem_attrs(op, d, defs, pick)
    if kind == "seg_nonuniform":
        return _seg_nonuniform(op, d, pick)
    raise ValueError(kind)


def _partial_elem_attrs(op, d, defs, pick):
    from xdsl.dialects import builtin as b
    targets = []  # (which, key, length)
    ft = op.properties.get("function_type", op.attributes.get("function_type"))
    for w, k, pd in defs:
        cur = (op.properties if w == "p" else op.attributes).get(k)
        if isinstance(cur, b.ArrayAttr) and len(cur.data) >= 2 and all(isinstance(e, b.DictionaryAttr) for e in cur.data):
            targets.append((w, k, len(cur.data)))
        elif cur is None and ft is not None and k in ("arg_attrs", "res_attrs"):
            try:
                n = len(list(ft.inputs)) if k == "arg_attrs" else \
                    (len(list(ft.outputs)) if hasattr(ft, "outputs") else (0 if type(ft.output).__name__ == "LLVMVoidType" else 1))
            except Exception:  # noqa: BLE001 - not a function type we understand
                continue
            if n >= 2:
                targets.append((w, k, n))
    if not targets:
        return None
    for off in range(len(targets)):
        w, k, n = targets[(pick + off) % len(targets)]
        # strict subset of the positions: pattern rotates with pick; at least one filled and one empty entry
        filled = [((j + pick) % 2 == 0) for j in range(n)]
        if all(filled) or not any(filled):
            filled[0] = not filled[0]
        full = b.DictionaryAttr({"xv.a": b.IntegerAttr(1, b.i32)}) if pick % 3 else b.DictionaryAttr({"xv.u": b.UnitAttr()})
        v = b.ArrayAttr([full if f else b.DictionaryAttr({}) for f in filled])
        undo = _dict_mut(op, w, k, v)
        if op_verifies(op):
            return Applied("partial_elem_attrs", op.name, k, undo)
        undo()
    return None


def _seg_nonuniform(op, d, pick):
    from xdsl.dialects import builtin as b
    from xdsl.irdl import OptionalDef, VariadicDef
    if op.regions or not all(hasattr(op, n) for n, _ in d.operands + d.results + d.regions + d.successors):
        return None
    groups = [_group(getattr(op, n)) for n, _ in d.operands]
    if sum(len(g) for g in groups) != len(op.operands):
        return None
    cands = []  # (property name, container, values, operand group index)
    for cont in (op.properties, op.attributes):
        for k, v in cont.items():
            if k in SEGMENT_NAMES or "segment" not in k.lower() or not isinstance(v, b.DenseArrayBase):
                continue
            try:
                vals = [int(x) for x in v.get_values()]
            except Exception:  # noqa: BLE001
                continue
            if len(vals) < 1 or any(x < 0 for x in vals):
                continue
            gi = [i for i, (n, od) in enumerate(d.operands) if isinstance(od, VariadicDef) and not isinstance(od, OptionalDef)
                  and len(groups[i]) == sum(vals)]
            # prefer the group whose name shares the property's prefix (case_operand_segments <-> case_operands)
            gi.sort(key=lambda i: 0 if k.lower().startswith(d.operands[i][0].lower().rstrip("s")) else 1)
            if gi:
                cands.append((k, cont, vals, gi[0], v))
    if not cands:
        return None
    k, cont, vals, gidx, old_attr = cands[pick % len(cands)]
    grp = groups[gidx]
    mode = ["shrink", "grow", "empty"][pick % 3]
    j = (pick // 3) % len(vals)
    starts = [sum(vals[:i]) for i in range(len(vals))]
    if mode in ("shrink", "empty"):
        js = [i for i in range(len(vals)) if vals[i] >= 1]
        if not js:
            mode = "grow"
        else:
            j = js[(pick // 3) % len(js)]
    new_vals = list(vals)
    if mode == "shrink":
        new_grp = grp[:starts[j] + vals[j] - 1] + grp[starts[j] + vals[j]:]
        new_vals[j] -= 1
    elif mode == "empty":
        new_grp = grp[:starts[j]] + grp[starts[j] + vals[j]:]
        new_vals[j] = 0
    else:
        src = grp[starts[j] + vals[j] - 1] if vals[j] else (grp[0] if grp else (list(op.operands) or [None])[0])
        if src is None:
            return None
        new_grp = grp[:starts[j] + vals[j]] + [src] + grp[starts[j] + vals[j]:]
        new_vals[j] += 1
    if len(set(new_vals)) < 2 and len(new_vals) > 1 and new_vals == vals:
        return None
    new_attr = b.DenseArrayBase.from_list(old_attr.elt_type, new_vals)
    which = "p" if cont is op.properties else "a"
    r = _rebuild(op, d, groups[:gidx] + [new_grp] + groups[gidx + 1:], override={(which, k): new_attr})
    if r is None:
        return None
    return Applied("seg_nonuniform", op.name, k, r)


def _mutate_operands(op, kind, rng, pick):
    from xdsl.irdl import OptionalDef, VariadicDef
    d = type(op).get_irdl_definition()
    if op.regions or not all(hasattr(op, n) for n, _ in d.operands + d.results + d.regions + d.successors):
        return None
    groups = [_group(getattr(op, n)) for n, _ in d.operands]
    if sum(len(g) for g in groups) != len(op.operands):
        return None
    if kind == "var_shrink":
        idx = [i for i, (n, od) in enumerate(d.operands) if isinstance(od, VariadicDef) and not isinstance(od, OptionalDef) and len(groups[i]) >= 1]
        if not idx:
            return None
        i = idx[pick % len(idx)]
        new_len = 0 if len(groups[i]) == 1 or pick % 2 == 0 else 1
        newg = groups[i][:new_len]
    elif kind == "var_grow":
        idx = [i for i, (n, od) in enumerate(d.operands) if isinstance(od, VariadicDef) and not isinstance(od, OptionalDef)]
        if not idx:
            return None
        i = idx[pick % len(idx)]
        target = 1 if len(groups[i]) == 0 else 3 if len(groups[i]) < 3 else len(groups[i]) + 1
        src = groups[i] or _available_values(op)
        if not src:
            return None
        newg = list(groups[i])
        while len(newg) < target:
            newg.append(src[len(newg) % len(src)] if groups[i] else rng.choice(src))
    elif kind == "opt_operand_drop":
        idx = [i for i, (n, od) in enumerate(d.operands) if isinstance(od, OptionalDef) and len(groups[i]) == 1]
        if not idx:
            return None
        i = idx[pick % len(idx)]
        newg = []
    else:
        idx = [i for i, (n, od) in enumerate(d.operands) if isinstance(od, OptionalDef) and len(groups[i]) == 0]
        if not idx:
            return None
        i = idx[pick % len(idx)]
        cands = _available_values(op)
        rng.shuffle(cands)
        for v in cands[:6]:
            r = _rebuild(op, d, groups[:i] + [[v]] + groups[i + 1:])
            if r is not None:
                return Applied(kind, op.name, d.operands[i][0], r)
        return None
    r = _rebuild(op, d, groups[:i] + [newg] + groups[i + 1:])
    if r is None:
        return None
    return Applied(kind, op.name, f"{d.operands[i][0]}:{len(groups[i])}->{len(newg)}", r)


def _available_values(op):
    vals = list(op.operands)
    blk = op.parent
    if blk is not None:
        vals += list(blk.args)
        o = op.prev_op
        n = 0
        while o is not None and n < 6:
            vals += list(o.results)
            o = o.prev_op
            n += 1
    seen, out = set(), []
    for v in vals:
        if id(v) not in seen:
            seen.add(id(v))
            out.append(v)
    return out


def _rebuild(op, d, operand_groups, override=None):
    """Replace `op` in its block by a copy built with `operand_groups` (IRDLOperation.build recomputes segment sizes).
    Returns an undo closure if the new op verifies, else None (nothing changed)."""
    cls = type(op)
    blk = op.parent
    if blk is None:
        return None
    res_groups = [[r.type for r in _group(getattr(op, n))] for n, _ in d.results]
    succ_groups = [_group(getattr(op, n)) for n, _ in d.successors]
    reg_sizes = [len(_group(getattr(op, n))) for n, _ in d.regions]
    if sum(reg_sizes) != len(op.regions) or sum(len(g) for g in res_groups) != len(op.results):
        return None
    props = {k: v for k, v in op.properties.items() if k not in SEGMENT_NAMES}
    attrs = {k: v for k, v in op.attributes.items() if k not in SEGMENT_NAMES}
    for (which, key), val in (override or {}).items():
        (props if which == "p" else attrs)[key] = val
    regions = [op.detach_region(0) for _ in range(len(op.regions))]
    reg_groups, p = [], 0
    for (n, rd), sz in zip(d.regions, reg_sizes):
        from xdsl.irdl import VariadicDef
        g = regions[p:p + sz]
        p += sz
        reg_groups.append(g if isinstance(rd, VariadicDef) else g[0])
    from xdsl.irdl import VariadicDef as VD

    def shape(groups, defs):
        return [g if isinstance(df, VD) else (g[0] if g else None) for g, (n, df) in zip(groups, defs)]
    try:
        new = cls.build(operands=shape(operand_groups, d.operands), result_types=shape(res_groups, d.results),
                        properties=props, attributes=attrs, successors=shape(succ_groups, d.successors), regions=reg_groups)
    except Exception:  # noqa: BLE001 - builder rejects the shape: not a valid instance
        for r in regions:
            if r.parent is not None:
                r.parent.detach_region(r)
            op.add_region(r)
        return None
    for old_r, new_r in zip(op.results, new.results):
        new_r.name_hint = old_r.name_hint
    blk.insert_op_before(new, op)
    for old_r, new_r in zip(op.results, new.results):
        old_r.replace_all_uses_with(new_r)
    blk.detach_op(op)

    def undo():
        for i in range(len(new.regions)):
            op.add_region(new.detach_region(0))
        blk.insert_op_before(op, new)
        for old_r, new_r in zip(op.results, new.results):
            new_r.replace_all_uses_with(old_r)
        blk.detach_op(new)
        # operands of the detached replacement keep uses alive: drop them
        new.operands = []
    if not op_verifies(new):
        undo()
        return None
    # the detached original must not keep uses on its operands while the mutant is live
    saved_operands = list(op.operands)
    op.operands = []
    inner_undo = undo

    def undo2():
        op.operands = saved_operands
        inner_undo()
    return undo2



# --------------------------------------------------------------------------- fixed additions to the universe
def dense_negative(op):
    """Set one element of a signless-integer dense-array property of a declarative-format op to -1 (e.g. the poison
    lane of a shuffle mask) if the op still verifies. Deterministic: first eligible property, middle element."""
    from xdsl.dialects import builtin as b
    if not is_declarative(op):
        return None
    for which, cont in (("p", op.properties), ("a", op.attributes)):
        for k, v in list(cont.items()):
            if k in SEGMENT_NAMES or "segment" in k.lower() or not isinstance(v, b.DenseArrayBase):
                continue
            et = v.elt_type
            if not isinstance(et, b.IntegerType) or et.signedness.data != b.Signedness.SIGNLESS or et.width.data < 8:
                continue
            vals = [int(x) for x in v.get_values()]
            if not vals or any(x < 0 for x in vals):
                continue
            vals[len(vals) // 2] = -1
            undo = _dict_mut(op, which, k, b.DenseArrayBase.from_list(et, vals))
            if op_verifies(op):
                return Applied("dense_negative", op.name, k, undo)
            undo()
    return None


def format_test_dialect():
    """Harness-defined declarative-format ops for format features no registered op uses: optional groups with an
    ELSE branch holding operand variables / a nested optional group / a property."""
    from xdsl.dialects.builtin import IntegerAttr, i64
    from xdsl.ir import Dialect
    from xdsl.irdl import (AttrSizedOperandSegments, IRDLOperation, irdl_op_definition, opt_operand_def, opt_prop_def, prop_def,
                           var_operand_def)

    @irdl_op_definition
    class EitherOp(IRDLOperation):
        name = "xvfmt.either"
        left = opt_operand_def()
        right = var_operand_def()
        irdl_options = (AttrSizedOperandSegments(as_property=True),)
        assembly_format = "(`left` $left^ `:` type($left)):(`right` $right `:` type($right))? attr-dict"

    @irdl_op_definition
    class SourceOp(IRDLOperation):
        name = "xvfmt.source"
        primary = opt_operand_def()
        fallback = opt_operand_def()
        weight = prop_def(IntegerAttr, default_value=IntegerAttr(1, i64))
        irdl_options = (AttrSizedOperandSegments(as_property=True),)
        assembly_format = ("(`from` $primary^ `:` type($primary)):(`fallback` ($fallback^ `:` type($fallback))?)?"
                           " (`weight` $weight^)? attr-dict")

    @irdl_op_definition
    class TagOp(IRDLOperation):
        name = "xvfmt.tag"
        val = opt_operand_def()
        tag = opt_prop_def(IntegerAttr)
        assembly_format = "(`val` $val^ `:` type($val)):(`tag` $tag)? attr-dict"

    return Dialect("xvfmt", [EitherOp, SourceOp, TagOp]), EitherOp, SourceOp, TagOp


def format_test_module():
    from xdsl.dialects import test
    from xdsl.dialects.builtin import IntegerAttr, ModuleOp, i32, i64
    dialect, EitherOp, SourceOp, TagOp = format_test_dialect()
    prod = test.TestOp(result_types=[i32, i64, i32])
    a, b_, c = prod.results
    ops = [prod,
           EitherOp.build(operands=[None, [a, b_]]), EitherOp.build(operands=[None, []]), EitherOp.build(operands=[c, []]),
           SourceOp.build(operands=[None, c]), SourceOp.build(operands=[None, None], properties={"weight": IntegerAttr(3, i64)}),
           SourceOp.build(operands=[a, None]), SourceOp.build(operands=[b_, None], properties={"weight": IntegerAttr(7, i64)}),
           TagOp.build(operands=[a]), TagOp.build(operands=[None], properties={"tag": IntegerAttr(5, i64)})]
    return dialect, ModuleOp(ops)
