"""Generic ParametrizedAttribute classes used by the C09 type-hint workload (module level on purpose:
ParamAttrDef.from_pyrdl evaluates annotations in the defining module; no `from __future__ import annotations`).

They exercise type-variable substitution (``mapping_type_vars``) through nested generic fields, which the
builtin generic attributes (one type variable, used once, at top level) do not."""
from typing import Generic

from typing_extensions import TypeVar

from xdsl.dialects.builtin import ArrayAttr, IntAttr, IntegerType, Signedness
from xdsl.ir import Attribute, ParametrizedAttribute
from xdsl.irdl import irdl_attr_definition

_A = TypeVar("_A", bound=Attribute, covariant=True, default=Attribute)
_B = TypeVar("_B", bound=Attribute, covariant=True, default=Attribute)
_I = TypeVar("_I", bound=int, covariant=True, default=int)


@irdl_attr_definition
class XvBox(ParametrizedAttribute, Generic[_A]):
    """inner : A ; many : array of A"""
    name = "xv.box"
    inner: _A
    many: ArrayAttr[_A]


@irdl_attr_definition
class XvPair(ParametrizedAttribute, Generic[_A, _B]):
    """first : A ; second : B ; nested : XvBox[B]  (type variable forwarded into another generic)"""
    name = "xv.pair"
    first: _A
    second: _B
    nested: XvBox[_B]


@irdl_attr_definition
class XvInt(ParametrizedAttribute, Generic[_I]):
    """width : IntAttr[I] ; ty : IntegerType[I, any signedness]  (int type variable used twice)"""
    name = "xv.int"
    width: IntAttr[_I]
    ty: IntegerType[_I, Signedness]
