"""Subprocess entry: run one shard of a check and write its JSON result."""
import importlib
import json
import os
import sys


def main():
    pid, jobfile, outfile = sys.argv[1:4]
    if os.environ.get("XDSL_VERIF") != "1":
        sys.exit("xv.worker refuses to instrument anything unless XDSL_VERIF=1")
    with open(jobfile) as f:
        job = json.load(f)
    sys.setrecursionlimit(10000)
    if os.environ.get("XV_PYPATH"):
        import xdsl
        if not os.path.abspath(xdsl.__file__).startswith(os.path.abspath(os.environ["XV_PYPATH"])):
            sys.exit(f"XV_PYPATH set but xdsl imported from {xdsl.__file__}")
    mod = importlib.import_module(f"xv.checks.{pid.lower()}")
    res = mod.work(job)
    tmp = outfile + ".tmp"
    with open(tmp, "w") as f:
        json.dump(res, f, default=str)
    os.replace(tmp, outfile)


def journal(text: str):
    """Record the in-flight input so that a killed worker still yields a witness."""
    p = os.environ.get("XV_JOURNAL")
    if p:
        with open(p, "w") as f:
            f.write(text)


if __name__ == "__main__":
    main()
