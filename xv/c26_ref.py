"""C26 oracle side: an independent tree representation of (quasi-)affine expressions, its evaluator
(mathematical floor semantics, no call into xDSL), substitution, a text renderer that follows the MLIR
affine grammar (unary minus binds tightest, * floordiv ceildiv mod above + -, left associative) and the
random tree generator.

Tree nodes (plain tuples, hashable, JSON-able as nested lists):
  ("c", v) ("d", i) ("s", i) ("neg", a) ("add", a, b) ("sub", a, b) ("mul", a, b)
  ("fd", a, b) ("cd", a, b) ("mod", a, b)
"""
from __future__ import annotations

MAXD = 4  # compiled evaluators take d0..d3, s0..s3
MAXS = 4
BIN = ("add", "sub", "mul", "fd", "cd", "mod")
TOK = {"add": "+", "sub": "-", "mul": "*", "fd": "floordiv", "cd": "ceildiv", "mod": "mod"}
PREC = {"add": 10, "sub": 10, "mul": 20, "fd": 20, "cd": 20, "mod": 20}


class OracleError(Exception):
    """The oracle itself is inconsistent (harness bug): must crash the shard."""


# ------------------------------------------------------------------ evaluation
def floordiv(a: int, b: int) -> int:
    """floor(a / b) computed on non-negative magnitudes only (does not rely on the sign rule of //)."""
    if b == 0:
        raise ZeroDivisionError("affine floordiv by zero")
    if b < 0:
        a, b = -a, -b
    if a >= 0:
        return a // b
    return -((-a + b - 1) // b)


def ceildiv(a: int, b: int) -> int:
    """ceil(a / b)."""
    if b == 0:
        raise ZeroDivisionError("affine ceildiv by zero")
    if b < 0:
        a, b = -a, -b
    if a >= 0:
        return (a + b - 1) // b
    return -((-a) // b)


def mod(a: int, b: int) -> int:
    """a - b * floor(a / b): in [0, b) for positive b."""
    return a - b * floordiv(a, b)


def ev(t, d, s, stats=None) -> int:
    """Slow reference evaluator (recursive, explicit floor semantics)."""
    k = t[0]
    if k == "c":
        return t[1]
    if k == "d":
        return d[t[1]]
    if k == "s":
        return s[t[1]]
    if k == "neg":
        return -ev(t[1], d, s, stats)
    a = ev(t[1], d, s, stats)
    b = ev(t[2], d, s, stats)
    if k == "add":
        return a + b
    if k == "sub":
        return a - b
    if k == "mul":
        return a * b
    if stats is not None and a < 0:
        stats[k] = stats.get(k, 0) + 1
    if k == "fd":
        return floordiv(a, b)
    if k == "cd":
        return ceildiv(a, b)
    if k == "mod":
        return mod(a, b)
    raise OracleError(f"bad node {t!r}")


_ARGS = ", ".join([f"d{i}" for i in range(MAXD)] + [f"s{i}" for i in range(MAXS)])


def compile_tree(t):
    """Fast evaluator f(d0..d3, s0..s3): straight-line code with common subtrees shared. Uses CPython's
    // and % (floor semantics for a positive divisor); cross-checked against `ev` by the caller."""
    memo: dict = {}
    lines: list[str] = []

    def go(n) -> str:
        if n in memo:
            return memo[n]
        k = n[0]
        if k == "c":
            r = f"({n[1]})"
        elif k == "d":
            if not 0 <= n[1] < MAXD:
                raise OracleError(f"dim index out of compiled range: {n!r}")
            r = f"d{n[1]}"
        elif k == "s":
            if not 0 <= n[1] < MAXS:
                raise OracleError(f"symbol index out of compiled range: {n!r}")
            r = f"s{n[1]}"
        else:
            if k == "neg":
                rhs = f"-{go(n[1])}"
            else:
                a, b = go(n[1]), go(n[2])
                if k == "add":
                    rhs = f"{a} + {b}"
                elif k == "sub":
                    rhs = f"{a} - {b}"
                elif k == "mul":
                    rhs = f"{a} * {b}"
                elif k == "fd":
                    rhs = f"{a} // {b}"
                elif k == "cd":
                    rhs = f"-((-{a}) // {b})"
                elif k == "mod":
                    rhs = f"{a} % {b}"
                else:
                    raise OracleError(f"bad node {n!r}")
            r = f"t{len(lines)}"
            lines.append(f" {r} = {rhs}")
        memo[n] = r
        return r

    # iterative-safe for our depths (worker raises the recursion limit to 10000)
    res = go(t)
    src = f"def f({_ARGS}):\n" + "\n".join(lines) + f"\n return {res}\n"
    ns: dict = {}
    exec(src, ns)  # noqa: S102 - source is generated from our own tuples
    return ns["f"]


# ------------------------------------------------------------------ structure helpers
def size(t) -> int:
    if t[0] in ("c", "d", "s"):
        return 1
    return 1 + sum(size(x) for x in t[1:])


def depth(t) -> int:
    if t[0] in ("c", "d", "s"):
        return 0
    return 1 + max(depth(x) for x in t[1:])


def subtrees(t):
    """post-order"""
    if t[0] not in ("c", "d", "s"):
        for x in t[1:]:
            yield from subtrees(x)
    yield t


def is_const(t) -> bool:
    k = t[0]
    if k == "c":
        return True
    if k in ("d", "s"):
        return False
    return all(is_const(x) for x in t[1:])


def kinds(t, acc=None):
    acc = {} if acc is None else acc
    for n in subtrees(t):
        acc[n[0]] = acc.get(n[0], 0) + 1
    return acc


def used(t):
    ds, ss = set(), set()
    for n in subtrees(t):
        if n[0] == "d":
            ds.add(n[1])
        elif n[0] == "s":
            ss.add(n[1])
    return ds, ss


def subst(t, dims, syms):
    """Replace d_i by dims[i] and s_i by syms[i] (trees); positions beyond the lists stay unchanged."""
    k = t[0]
    if k == "c":
        return t
    if k == "d":
        return dims[t[1]] if t[1] < len(dims) else t
    if k == "s":
        return syms[t[1]] if t[1] < len(syms) else t
    return (k,) + tuple(subst(x, dims, syms) for x in t[1:])


def to_json(t):
    return [t[0]] + [to_json(x) if isinstance(x, tuple) else x for x in t[1:]]


def from_json(j):
    return tuple(from_json(x) if isinstance(x, list) else x for x in j)


# ------------------------------------------------------------------ text renderer (own printer)
def full_text(t) -> str:
    """Fully parenthesised, for witnesses."""
    k = t[0]
    if k == "c":
        return str(t[1])
    if k in ("d", "s"):
        return f"{k}{t[1]}"
    if k == "neg":
        return f"-({full_text(t[1])})"
    return f"({full_text(t[1])} {TOK[k]} {full_text(t[2])})"


def render(t, rng, dnames, snames, extra_paren=0.12) -> str:
    """Text with minimal parentheses (plus random redundant ones and random spacing) whose reading under the
    MLIR affine grammar is exactly `t`."""

    def go(n):
        """returns (text, precedence); primaries have precedence 100"""
        k = n[0]
        if k == "c":
            v = n[1]
            out = (str(v), 100) if v >= 0 else ("-" + (" " if rng.random() < 0.2 else "") + str(-v), 100)
        elif k == "d":
            out = (dnames[n[1]], 100)
        elif k == "s":
            out = (snames[n[1]], 100)
        elif k == "neg":
            txt, p = go(n[1])
            if p < 100:
                txt = f"({txt})"
            out = ("-" + (" " if rng.random() < 0.2 else "") + txt, 100)
        else:
            P = PREC[k]
            lt, lp = go(n[1])
            rt, rp = go(n[2])
            if lp < P:
                lt = f"({lt})"
            if rp <= P:
                rt = f"({rt})"
            tok = TOK[k]
            if tok in "+*" and rng.random() < 0.15:
                sep = ""
            elif rng.random() < 0.1:
                sep = "  "
            else:
                sep = " "
            out = (f"{lt}{sep}{tok}{sep}{rt}", P)
        if rng.random() < extra_paren:
            out = (f"({out[0]})", 100)
        return out

    return go(t)[0]


# ------------------------------------------------------------------ generator
SMALL = [-3, -2, -1, 0, 1, 2, 3, 4, 5, 6, 7, 8]
WIDE = [-9, -8, -7, -5, -4, 9, 12, 16, -16, 31, 64, -100, 2 ** 31, -(2 ** 31) - 1, 2 ** 64 + 3]
DIVS = [1, 2, 2, 3, 3, 4, 4, 5, 6, 7, 8, 8, 9, 12, 16]


def gen_constant(rng) -> int:
    return rng.choice(SMALL) if rng.random() < 0.8 else rng.choice(WIDE)


def gen_const_tree(rng, depth_left: int, positive: bool = False):
    """A constant-only subtree (exercises constant folding, negative dividends included)."""
    for _ in range(50):
        t = _gen_const_tree(rng, depth_left)
        if not positive or ev(t, (), ()) > 0:
            return t
    return ("c", rng.choice(DIVS))


def _gen_const_tree(rng, depth_left):
    if depth_left <= 0 or rng.random() < 0.45:
        return ("c", gen_constant(rng))
    k = rng.choice(["add", "sub", "mul", "neg", "fd", "cd", "mod", "fd", "cd", "mod"])
    a = _gen_const_tree(rng, depth_left - 1)
    if k == "neg":
        return ("neg", a)
    if k in ("fd", "cd", "mod"):
        return (k, a, gen_const_tree(rng, depth_left - 1, positive=True) if rng.random() < 0.3
                else ("c", rng.choice(DIVS)))
    return (k, a, _gen_const_tree(rng, depth_left - 1))


def gen_divisor(rng):
    """positive constant divisor: mostly a literal, sometimes a constant subtree folding to > 0"""
    if rng.random() < 0.88:
        return ("c", rng.choice(DIVS))
    return gen_const_tree(rng, 2, positive=True)


def gen_factor(rng):
    if rng.random() < 0.85:
        return ("c", gen_constant(rng))
    return gen_const_tree(rng, 2)


def gen_tree(rng, depth_left: int, nd: int, ns: int, pool: list):
    """Random pure-affine tree. `pool` collects generated subtrees; they are re-used so that identical
    div/mod sub-terms occur several times (local-id reuse in the flattener)."""
    if depth_left <= 0 or rng.random() < 0.13:
        r = rng.random()
        if r < 0.58 or (ns == 0 and r < 0.75):
            return ("d", rng.randrange(nd))
        if r < 0.75:
            return ("s", rng.randrange(ns))
        return ("c", gen_constant(rng))
    r = rng.random()
    if pool and r < 0.12:
        return rng.choice(pool)
    r = rng.random()
    a = gen_tree(rng, depth_left - 1, nd, ns, pool)
    if r < 0.22:
        t = ("add", a, gen_tree(rng, depth_left - 1, nd, ns, pool))
    elif r < 0.36:
        t = ("sub", a, gen_tree(rng, depth_left - 1, nd, ns, pool))
    elif r < 0.41:
        t = ("neg", a)
    elif r < 0.56:
        f = gen_factor(rng)
        t = ("mul", a, f) if rng.random() < 0.7 else ("mul", f, a)
    elif r < 0.68:
        t = ("fd", a, gen_divisor(rng))
    elif r < 0.77:
        t = ("cd", a, gen_divisor(rng))
    elif r < 0.90:
        t = ("mod", a, gen_divisor(rng))
    else:
        t = gen_idiom(rng, a, depth_left, nd, ns, pool)
    pool.append(t)
    return t


def gen_idiom(rng, a, depth_left, nd, ns, pool):
    """Shapes the flattener actually simplifies (gcd cancellation, mod folding to zero, div of multiples)."""
    c = rng.choice([2, 3, 4, 6, 8])
    k = rng.choice([1, 2, 3, -1, -2])
    b = gen_tree(rng, max(0, depth_left - 2), nd, ns, pool)
    C, CK = ("c", c), ("c", c * abs(k))
    i = rng.randrange(12)
    if i == 0:
        return ("sub", a, ("mod", a, C))
    if i == 1:
        return ("add", ("mul", ("fd", a, C), C), ("mod", a, C))
    if i == 2:
        return ("fd", ("add", ("mul", a, ("c", c * k)), b), C)
    if i == 3:
        return ("mod", ("add", a, ("mul", b, ("c", c * k))), C)
    if i == 4:
        return ("mod", ("mul", a, ("c", c * k)), C)
    if i == 5:
        return ("fd", ("mul", a, ("c", c * k)), C)
    if i == 6:
        return ("cd", ("add", ("mul", a, ("c", c * k)), ("c", rng.choice([0, 1, c, c - 1, -1]))), CK)
    if i == 7:
        return ("mod", ("mod", a, CK), C)
    if i == 8:
        return ("fd", ("fd", a, C), ("c", abs(k)))
    if i == 9:
        return ("mod", ("add", ("sub", a, ("mod", a, C)), C), C)
    if i == 10:
        return ("sub", ("cd", a, C), ("fd", a, C))
    return ("add", ("mod", ("mul", a, ("c", 2 * k)), CK), ("fd", ("mul", b, ("c", 2 * c)), CK))
