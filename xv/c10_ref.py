"""C10 reference: independent segmenter + tiny constraint evaluator for IRDL operation definitions.

Pure python, never imports xDSL.  Works on JSON-able *specs* (what the generator declares) and *flat
instances* (what an operation carries), where every attribute / type is denoted by a symbolic VALUE:

  value  :=  "<pool name>"                       e.g. "i32", "str_a"  (see POOL_TAGS: name -> set of base names)
          |  ["dense", "<elt>", [int, ...]]      a DenseArrayBase with element type <elt> ("i32","i64","si32","i16")

Two values are equal iff their ``vkey`` is equal (the pool is built so that distinct names are distinct
attributes; the check module asserts this against the real objects at start-up).

SEGMENTATION  ``ref_segment(kinds, n, mode, sizes)``
  kinds : list of "single" | "opt" | "var"   (declaration order)
  n     : length of the operand / result / region / successor list
  mode  : "none" | "same" | "attr"           (no option / SameVariadic*Size / AttrSized*Segments, the latter
                                              both for the attribute and the property flavour)
  sizes : for mode "attr": the decoded segment-size vector, or a string describing why there is none
          ("missing", "not-dense", "elt:<name>")
  -> ("ok", [[indices of segment 0], [indices of segment 1], ...])   or   ("reject", reason-class)

  none : no variadic -> n == #defs ; exactly one variadic -> it takes the remainder (>= 0, and <= 1 for opt);
         more than one variadic without option is not a definition ("def-error").
  same : all variadic segments have one common size s >= 0 with #singles + k*s == n ; s <= 1 when an optional
         takes part.  k == 0 degenerates to the exact count.
  attr : sizes is a list with one entry per definition, every entry >= 0, == 1 for singles, <= 1 for optionals,
         and the entries sum to n.

``buggy_segment`` models the KNOWN wrong behaviour of the unfixed tree for mode "attr" (no sum check, no sign
check, segments cut with python slice arithmetic, IndexError when a single index is out of range); it is used
only to classify a disagreement as the known finding, never to decide a verdict.

CONSTRAINT TREES (JSON lists)
  element level : ["any"] | ["base", B] | ["eq", value] | ["anyof", [leaf, ...]] (leaves: base/eq)
                  | ["var", name]            (inner tree = spec["vars"][name]; every occurrence shares it, so
                                              "all occurrences equal and the value satisfies the inner tree" is
                                              order independent)
  range level   : ["single", t] | ["rangeof", t] | ["rangevar", name]  (inner element tree = spec["rvars"][name],
                  all occurrences carry equal tuples) | ["rangelen", ["rangeof", t], I]
  int level     : ["iany"] | ["ieq", n] | ["ige", n] | ["ile", n] | ["ivar", name]   (inner = iany)

VERDICT ``ref_verify(spec, inst)`` -> {"ok", "reason", "construct", "segs": {construct: [[idx..], ..]}}
  accepted iff all four lists segment, every segment satisfies its range constraint under ONE shared variable
  environment, single-block regions have exactly one block, entry-block argument types of every non-empty region
  satisfy the region's entry constraint, every declared non-optional property / attribute is present, every
  present declared one satisfies its constraint, and no undeclared property is present (undeclared attributes
  are allowed: the attribute dictionary is open).
"""
from __future__ import annotations

import json

CONSTRUCTS = ("operand", "result", "region", "successor")
SEG_ATTR = {"operand": "operandSegmentSizes", "result": "resultSegmentSizes",
            "region": "regionSegmentSizes", "successor": "successorSegmentSizes"}

# name -> base names it is an instance of (hand written; asserted against python isinstance by the check)
_T = {"TypeAttribute", "Attribute"}
POOL_TAGS = {
    "i1": {"IntegerType", "FixedBitwidthType"} | _T,
    "i32": {"IntegerType", "FixedBitwidthType"} | _T,
    "i64": {"IntegerType", "FixedBitwidthType"} | _T,
    "si32": {"IntegerType", "FixedBitwidthType"} | _T,
    "index": {"IndexType"} | _T,
    "f32": {"Float32Type", "_FloatType", "FixedBitwidthType"} | _T,
    "f64": {"Float64Type", "_FloatType", "FixedBitwidthType"} | _T,
    "t2xi32": {"TensorType"} | _T,
    "int5": {"IntegerAttr", "Attribute"},
    "int7": {"IntegerAttr", "Attribute"},
    "str_a": {"StringAttr", "Attribute"},
    "str_b": {"StringAttr", "Attribute"},
    "unit": {"UnitAttr", "Attribute"},
    "arr": {"ArrayAttr", "Attribute"},
}
DENSE_TAGS = {"DenseArrayBase", "Attribute"}
BASES = ["IntegerType", "IndexType", "Float32Type", "Float64Type", "_FloatType", "FixedBitwidthType", "TensorType",
         "TypeAttribute", "IntegerAttr", "StringAttr", "UnitAttr", "ArrayAttr", "DenseArrayBase", "Attribute"]
TYPE_NAMES = [n for n, t in POOL_TAGS.items() if "TypeAttribute" in t]
ATTR_NAMES = [n for n, t in POOL_TAGS.items() if "TypeAttribute" not in t]


def vkey(v) -> str:
    return v if isinstance(v, str) else json.dumps(v)


def tags_of(v):
    return POOL_TAGS[v] if isinstance(v, str) else DENSE_TAGS


# ------------------------------------------------------------------ segmentation
def ref_segment(kinds, n, mode, sizes=None):
    nd = len(kinds)
    nvar = sum(1 for k in kinds if k != "single")
    if mode == "attr":
        if not isinstance(sizes, list):
            return ("reject", "attr-sizes-" + str(sizes).split(":")[0])
        if len(sizes) != nd:
            return ("reject", "attr-sizes-length")
        if any(s < 0 for s in sizes):
            return ("reject", "attr-size-negative")
        for s, k in zip(sizes, kinds):
            if k == "single" and s != 1:
                return ("reject", "attr-size-single")
            if k == "opt" and s > 1:
                return ("reject", "attr-size-optional")
        if sum(sizes) != n:
            return ("reject", "attr-sizes-sum")
        out, pos = [], 0
        for s in sizes:
            out.append(list(range(pos, pos + s)))
            pos += s
        return ("ok", out)
    if mode == "same":
        if nvar == 0:
            per = 0
            if n != nd:
                return ("reject", "count")
        else:
            rest = n - (nd - nvar)
            if rest < 0:
                return ("reject", "count")
            if rest % nvar:
                return ("reject", "same-size-indivisible")
            per = rest // nvar
            if per > 1 and "opt" in kinds:
                return ("reject", "same-size-optional")
    elif mode == "none":
        if nvar > 1:
            return ("reject", "def-error")
        per = n - (nd - nvar)
        if nvar == 0 and per != 0:
            return ("reject", "count")
        if per < 0:
            return ("reject", "count")
        if per > 1 and "opt" in kinds:
            return ("reject", "count")
    else:
        raise ValueError(mode)
    out, pos = [], 0
    for k in kinds:
        s = 1 if k == "single" else per
        out.append(list(range(pos, pos + s)))
        pos += s
    assert pos == n, (kinds, n, mode, per)
    return ("ok", out)


def buggy_segment(kinds, n, sizes):
    """Known wrong behaviour (mode attr, unfixed tree): length and per-kind checks only, python slicing."""
    if not isinstance(sizes, list):
        return ("reject", "attr-sizes")
    if len(sizes) != len(kinds):
        return ("reject", "attr-sizes-length")
    for s, k in zip(sizes, kinds):
        if k == "single" and s != 1:
            return ("reject", "attr-size-single")
        if k == "opt" and s not in (0, 1):
            return ("reject", "attr-size-optional")
    idx = list(range(n))
    out = []
    for i, (s, k) in enumerate(zip(sizes, kinds)):
        start = sum(sizes[:i])
        if k == "var":
            out.append(idx[start:start + s])
        elif k == "opt" and not s:
            out.append([])
        else:
            # args[start] raises IndexError when out of range: marked None, raised when (if) it is reached
            out.append([idx[start]] if -n <= start < n else None)
    return ("ok", out)


# ------------------------------------------------------------------ constraints
def eval_int(tree, n, env):
    t = tree[0]
    if t == "iany":
        return True
    if t == "ieq":
        return n == tree[1]
    if t == "ige":
        return n >= tree[1]
    if t == "ile":
        return n <= tree[1]
    if t == "ivar":
        k = "i:" + tree[1]
        if k in env:
            return env[k] == n
        env[k] = n
        return True
    raise ValueError(tree)


def eval_elem(tree, v, env, spec):
    t = tree[0]
    if t == "any":
        return True
    if t == "base":
        return tree[1] in tags_of(v)
    if t == "eq":
        return vkey(tree[1]) == vkey(v)
    if t == "anyof":
        return any(eval_elem(c, v, env, spec) for c in tree[1])
    if t == "var":
        k = "a:" + tree[1]
        if k in env:
            return env[k] == vkey(v)
        if not eval_elem(spec["vars"][tree[1]], v, env, spec):
            return False
        env[k] = vkey(v)
        return True
    raise ValueError(tree)


def eval_range(tree, vs, env, spec):
    t = tree[0]
    if t == "single":
        return len(vs) == 1 and eval_elem(tree[1], vs[0], env, spec)
    if t == "rangeof":
        return all(eval_elem(tree[1], v, env, spec) for v in vs)
    if t == "rangevar":
        k = "r:" + tree[1]
        tup = [vkey(v) for v in vs]
        if k in env:
            return env[k] == tup
        if not all(eval_elem(spec["rvars"][tree[1]], v, env, spec) for v in vs):
            return False
        env[k] = tup
        return True
    if t == "rangelen":
        return eval_int(tree[2], len(vs), env) and eval_range(tree[1], vs, env, spec)
    raise ValueError(tree)


# ------------------------------------------------------------------ whole-operation verdict
def seg_mode(m):
    return "attr" if m in ("attr", "prop") else m


def decode_sizes(spec, inst, construct):
    """The segment-size vector the instance carries for this construct (mode attr/prop), or a reason string."""
    m = spec[construct]["mode"]
    cont = inst["props"] if m == "prop" else inst["attrs"]
    v = cont.get(SEG_ATTR[construct])
    if v is None:
        return "missing"
    if isinstance(v, str):
        return "not-dense"
    if v[1] != "i32":
        return "elt:" + v[1]
    return list(v[2])


def list_len(inst, construct):
    x = inst[construct]
    return x if isinstance(x, int) else len(x)


def declared(spec, which):
    """Declared properties / attributes as {ir_name: (kind, tree)} including the segment-size entries."""
    out = {}
    for _py, ir, kind, tree, _default in spec[which]:
        out[ir] = (kind, tree)
    for c in CONSTRUCTS:
        m = spec[c]["mode"]
        if (m == "prop" and which == "props") or (m == "attr" and which == "attrs"):
            out[SEG_ATTR[c]] = ("req", ["base", "DenseArrayBase"])
    return out


def ref_verify(spec, inst, bug_model=False):
    """bug_model=True evaluates the *known wrong* segmentation instead (classification only)."""
    env: dict = {}
    segs = {}

    def fail(reason, construct=None):
        return {"ok": False, "reason": reason, "construct": construct, "segs": segs}

    for c in CONSTRUCTS:
        d = spec[c]
        kinds = [x[1] for x in d["defs"]]
        n = list_len(inst, c)
        mode = seg_mode(d["mode"])
        sizes = decode_sizes(spec, inst, c) if mode == "attr" else None
        if bug_model and mode == "attr":
            st, val = buggy_segment(kinds, n, sizes)
        else:
            st, val = ref_segment(kinds, n, mode, sizes)
        if st != "ok":
            return fail(val, c)
        segs[c] = val
        if c in ("operand", "result"):
            for (name, kind, tree), seg in zip(d["defs"], val):
                if seg is None:
                    return fail("crash:IndexError", c)
                vs = [inst[c][i] for i in seg]
                rt = ["single", tree] if kind == "single" else tree
                if not eval_range(rt, vs, env, spec):
                    return fail("constraint", c)
        elif c == "region":
            for (name, kind, single_block, tree), seg in zip(d["defs"], val):
                if seg is None:
                    return fail("crash:IndexError", c)
                for i in seg:
                    blocks = inst["region"][i]
                    if single_block and len(blocks) != 1:
                        return fail("single-block", c)
                for i in seg:
                    blocks = inst["region"][i]
                    if blocks and not eval_range(tree, blocks[0], env, spec):
                        return fail("entry-args", c)
    dp = declared(spec, "props")
    for ir, (kind, tree) in dp.items():
        if ir not in inst["props"]:
            if kind == "opt":
                continue
            return fail("prop-missing")
        if not eval_elem(tree, inst["props"][ir], env, spec):
            return fail("prop-constraint")
    for ir in inst["props"]:
        if ir not in dp:
            return fail("prop-undeclared")
    da = declared(spec, "attrs")
    for ir, (kind, tree) in da.items():
        if ir not in inst["attrs"]:
            if kind == "opt":
                continue
            return fail("attr-missing")
        if not eval_elem(tree, inst["attrs"][ir], env, spec):
            return fail("attr-constraint")
    return {"ok": True, "reason": None, "construct": None, "segs": segs}


def def_admissible(spec):
    """A definition with more than one variadic entry in a list needs a segment option for that list."""
    for c in CONSTRUCTS:
        d = spec[c]
        if d["mode"] == "none" and sum(1 for x in d["defs"] if x[1] != "single") > 1:
            return False
    return True


def shared_vars(spec):
    """Variable names (with namespace) that occur in at least two places of the definition."""
    occ: dict = {}

    def walk(tree):
        t = tree[0]
        if t == "var":
            occ["a:" + tree[1]] = occ.get("a:" + tree[1], 0) + 1
            walk(spec["vars"][tree[1]])
        elif t == "rangevar":
            occ["r:" + tree[1]] = occ.get("r:" + tree[1], 0) + 1
            walk(spec["rvars"][tree[1]])
        elif t == "ivar":
            occ["i:" + tree[1]] = occ.get("i:" + tree[1], 0) + 1
        elif t == "anyof":
            for c in tree[1]:
                walk(c)
        elif t in ("single", "rangeof"):
            walk(tree[1])
        elif t == "rangelen":
            walk(tree[1])
            walk(tree[2])

    for c in ("operand", "result"):
        for x in spec[c]["defs"]:
            walk(x[2])
    for x in spec["region"]["defs"]:
        walk(x[3])
    for which in ("props", "attrs"):
        for x in spec[which]:
            walk(x[3])
    return sorted(k for k, n in occ.items() if n >= 2)
