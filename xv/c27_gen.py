"""C27 generator: single-pattern PDL specs, their text, and payloads made of exact instances and one-step
near-misses of the pattern's match section.  Plain `random.Random`; nothing of xDSL is imported except in
`spec_from_ir` (turns a parsed corpus `pdl.pattern` into the same spec so that corpus patterns get generated payloads).

Spec (JSON-able): {"match": [stmt...], "root": op id, "rewrite": [stmt...], "benefit": int}
  {"k":"type","id","const": None|type text, "hint": None|type text}
  {"k":"attr","id","value": None|attr text,"type": None|type id}
  {"k":"operand","id","type": None|type id}
  {"k":"op","id","name": None|str,"operands":[value id],"attrs":[[name, attr id]],"types":[type id]}
  {"k":"result","id","of": op id,"index": int}
rewrite only: {"k":"replace","op","with_op": None|op id,"with_vals":[value id]}, {"k":"erase","op"}
"""
from __future__ import annotations

TYPES = ["i32", "i64", "i1", "index", "f32"]
INT_TYPES = ["i32", "i64", "i1", "index"]
# constants whose python truth value is False in xDSL (IntegerAttr 0, empty ArrayAttr) are listed on purpose
CONST_ATTRS = ["0 : i32", "1 : i32", "2 : i32", "0 : i64", "1 : i64", "0 : index", "false", "true", '"a"', '""',
               "[]", "[0 : i32]", "unit", "1.000000e+00 : f32", "0.000000e+00 : f32", "-1 : i32"]
NEAR = {"0 : i32": ["1 : i32", "0 : i64", "false", "0 : index", "-1 : i32"], "1 : i32": ["0 : i32", "1 : i64", "true", "2 : i32"],
        "2 : i32": ["1 : i32", "0 : i32"], "0 : i64": ["0 : i32", "1 : i64"], "1 : i64": ["1 : i32", "0 : i64"],
        "0 : index": ["0 : i64", "0 : i32"], "false": ["true", "0 : i32"], "true": ["false", "1 : i32"],
        '"a"': ['""', '"b"'], '""': ['"a"', "[]"], "[]": ["[0 : i32]", '""', "unit"], "[0 : i32]": ["[]", "[1 : i32]"],
        "unit": ["[]", "0 : i32"], "1.000000e+00 : f32": ["0.000000e+00 : f32"], "0.000000e+00 : f32": ["1.000000e+00 : f32", "0 : i32"],
        "-1 : i32": ["0 : i32", "1 : i32"]}
GENERIC_NAMES = ["test.op", "test.pureop", "test.op_with_memread"]
ARITH_BIN = ["arith.addi", "arith.muli", "arith.subi", "arith.andi"]
SIBLING = {"test.op": ["test.pureop", "test.op_with_memread"], "test.pureop": ["test.op"], "test.op_with_memread": ["test.op", "test.pureop"],
           "arith.addi": ["arith.subi", "arith.muli"], "arith.muli": ["arith.addi"], "arith.subi": ["arith.addi"], "arith.andi": ["arith.addi"],
           "arith.constant": ["test.pureop"]}
ATTR_NAMES = ["attr", "prop1", "tag", "prop2"]
MUTATIONS = ["name", "opcount+", "opcount-", "attrval", "attrmissing", "attrextra", "type", "rescount+", "rescount-",
             "shared-operand", "shared-type", "chain-arg", "chain-index", "typed-attr-type", "attr-is-prop", "chain-twin"]
ARITH_MUTATIONS = ["name", "attrval", "chain-arg", "shared-operand", "attrextra", "chain-arg", "attrval"]


# ----------------------------------------------------------------------------------------------- pattern generation
class PatGen:
    def __init__(self, rng):
        self.rng = rng
        self.match: list[dict] = []
        self.n = 0
        self.free_types: list[str] = []
        self.operands: list[str] = []
        self.attrs: list[str] = []
        self.nested_ops: list[str] = []  # finished non-root ops: re-usable by later ops (shared defining op / grand-parent)

    def fresh(self, p):
        self.n += 1
        return f"{p}{self.n}"

    def new_type(self, const=None, hint=None):
        i = self.fresh("t")
        self.match.append({"k": "type", "id": i, "const": const, "hint": hint})
        if const is None:
            self.free_types.append(i)
        return i

    def pick_type(self, prefer_shared=0.6):
        rng = self.rng
        if self.free_types and rng.random() < prefer_shared:
            return rng.choice(self.free_types)
        return self.new_type(const=rng.choice(TYPES) if rng.random() < 0.45 else None)

    def new_attr(self):
        rng = self.rng
        i = self.fresh("a")
        r = rng.random()
        if self.attrs and r < 0.15:
            return rng.choice(self.attrs)  # the same attribute value constrains two places
        if r < 0.72:
            st = {"k": "attr", "id": i, "value": rng.choice(CONST_ATTRS), "type": None}
        elif r < 0.79:
            t = self.pick_type(0.5)
            tst = next(s for s in self.match if s["id"] == t)
            if tst["const"] is None and tst["hint"] is None:
                tst["hint"] = rng.choice(INT_TYPES)
            st = {"k": "attr", "id": i, "value": None, "type": t}
        else:
            st = {"k": "attr", "id": i, "value": None, "type": None}
        self.match.append(st)
        self.attrs.append(i)
        return i

    def new_operand(self):
        rng = self.rng
        if self.operands and rng.random() < 0.3:
            return rng.choice(self.operands)  # shared operand
        i = self.fresh("x")
        self.match.append({"k": "operand", "id": i, "type": self.pick_type(0.7) if rng.random() < 0.4 else None})
        self.operands.append(i)
        return i

    def op(self, depth, root=False, arith=False):
        rng = self.rng
        if arith:
            return self.arith_op(depth, root)
        name = rng.choice(GENERIC_NAMES) if (root or rng.random() < 0.85) else None
        nopnd = rng.choice([0, 1, 1, 2, 2, 3])
        operands = []
        nested_done = []
        for _ in range(nopnd):
            if depth < 2 and rng.random() < (0.55 if depth == 0 else 0.35):
                used_idx = None
                multi = [o for o in self.nested_ops if len(self.by_id(o)["types"]) >= 2]
                if nested_done and rng.random() < 0.55:
                    # ONE defining op reached through two operand paths of this op (other result index preferred)
                    sub = rng.choice(nested_done)
                    used_idx = [self.by_id(v)["index"] for v in operands if self.by_id(v)["k"] == "result" and self.by_id(v)["of"] == sub]
                elif multi and rng.random() < 0.25:
                    # a defining op created for ANOTHER op of the pattern: two operands' chains share a (grand-)parent
                    sub = rng.choice(multi)
                    used_idx = [s["index"] for s in self.match if s["k"] == "result" and s["of"] == sub]
                else:
                    sub = self.op(depth + 1, arith=rng.random() < 0.3)
                    nested_done.append(sub)
                nres = len(self.by_id(sub)["types"])
                idx = rng.randrange(nres) if nres and rng.random() < 0.95 else nres
                if used_idx and rng.random() < 0.8:
                    other = [i for i in range(nres) if i not in used_idx]
                    if other:
                        idx = rng.choice(other)
                rid = None
                if rng.random() < 0.5:
                    rid = next((s["id"] for s in self.match if s["k"] == "result" and s["of"] == sub and s["index"] == idx), None)
                if rid is None:
                    rid = self.fresh("r")
                    self.match.append({"k": "result", "id": rid, "of": sub, "index": idx})
                operands.append(rid)
            else:
                operands.append(self.new_operand())
        attrs = []
        for nm in rng.sample(ATTR_NAMES, rng.choice([0, 0, 1, 1, 2])):
            attrs.append([nm, self.new_attr()])
        nres = rng.choice([1, 1, 1, 1, 1, 2, 2, 2, 1, 1, 1, 0] if root else [1, 1, 2, 2, 2, 3, 0])
        types = [self.pick_type() for _ in range(nres)]
        i = self.fresh("o")
        self.match.append({"k": "op", "id": i, "name": name, "operands": operands, "attrs": attrs, "types": types})
        if not root:
            self.nested_ops.append(i)
        return i

    def by_id(self, i):
        return next(s for s in self.match if s["id"] == i)

    def arith_op(self, depth, root, ity=None):
        rng = self.rng
        ity = ity or rng.choice(["i32", "i32", "i64"])
        # one shared type for the whole arith sub-tree keeps payload instances verifiable
        t = next((s["id"] for s in self.match if s["k"] == "type" and (s["const"] == ity or s.get("hint") == ity)), None)
        if t is None:
            t = self.new_type(const=ity if rng.random() < 0.4 else None, hint=ity)
        if depth >= 1 and rng.random() < 0.5 or depth >= 2:
            a = self.fresh("a")
            r = rng.random()
            if r < 0.8:
                self.match.append({"k": "attr", "id": a, "value": f"{rng.choice([0, 0, 1, 1, 2, -1])} : {ity}", "type": None})
            elif r < 0.85:
                self.match.append({"k": "attr", "id": a, "value": None, "type": t})
            else:
                self.match.append({"k": "attr", "id": a, "value": None, "type": None})
            self.attrs.append(a)
            i = self.fresh("o")
            self.match.append({"k": "op", "id": i, "name": "arith.constant", "operands": [], "attrs": [["value", a]], "types": [t]})
            return i
        operands = []
        for _ in range(2):
            if depth < 2 and rng.random() < 0.5:
                sub = self.arith_op(depth + 1, False, ity)
                rid = self.fresh("r")
                self.match.append({"k": "result", "id": rid, "of": sub, "index": 0})
                operands.append(rid)
            else:
                if self.operands and rng.random() < 0.25:
                    operands.append(rng.choice(self.operands))
                else:
                    x = self.fresh("x")
                    self.match.append({"k": "operand", "id": x, "type": t if rng.random() < 0.3 else None, "hint_type": t})
                    self.operands.append(x)
                    operands.append(x)
        attrs = []
        name = rng.choice(ARITH_BIN[:2] if rng.random() < 0.7 else ARITH_BIN)
        if rng.random() < 0.2 and name != "arith.andi":
            a = self.fresh("a")
            self.match.append({"k": "attr", "id": a, "value": None, "type": None, "hint": "#arith.overflow<none>"})
            attrs.append(["overflowFlags", a])
        i = self.fresh("o")
        self.match.append({"k": "op", "id": i, "name": name, "operands": operands, "attrs": attrs, "types": [t]})
        return i


def gen_rewrite(rng, match, root):
    """Rewrite section for a match section; mostly terminating (created ops are named differently from the root)."""
    by = {s["id"]: s for s in match}
    pattern_root = root
    inner = [s["id"] for s in match if s["k"] == "op" and s["id"] != root and s["types"]]
    if inner and rng.random() < 0.15:
        # `pdl.replace %x with ...` where %x is a matched op that is NOT the root of the rewrite (its results usually
        # have the root as user); only values defined before %x in the match section can replace it (no cycles)
        root = rng.choice(inner)
    rs = by[root]
    nres = len(rs["types"])
    order = [s["id"] for s in match]
    before = set(order[:order.index(root)]) if root != pattern_root else set(order)
    values = [s["id"] for s in match if s["k"] == "operand" and s["id"] in before] + \
             [s["id"] for s in match if s["k"] == "result" and s["of"] != root and s["of"] in before and s["id"] in before]
    attrs = [s["id"] for s in match if s["k"] == "attr"]
    types = [s["id"] for s in match if s["k"] == "type"]
    out: list[dict] = []
    n = [0]

    def fresh(p):
        n[0] += 1
        return f"n{p}{n[0]}"

    def value_type(v):
        s = by.get(v)
        if s is None:
            return None
        if s["k"] == "operand":
            return s["type"]
        o = by[s["of"]]
        return o["types"][s["index"]] if s["index"] < len(o["types"]) else None

    def new_op(extra_values, want_types):
        names = [x for x in GENERIC_NAMES + ARITH_BIN[:1] if x != rs["name"]] if rng.random() < 0.93 else GENERIC_NAMES
        name = rng.choice(names)
        pool = values + extra_values
        k = min(len(pool), rng.choice([0, 1, 2, 2, 3]))
        ops = [rng.choice(pool) for _ in range(k)] if pool else []
        if extra_values and extra_values[-1] not in ops:
            ops.append(extra_values[-1])
        at = []
        for nm in rng.sample(ATTR_NAMES, rng.choice([0, 1, 1, 2])):
            if attrs and rng.random() < 0.5:
                at.append([nm, rng.choice(attrs)])
            else:
                a = fresh("a")
                out.append({"k": "attr", "id": a, "value": rng.choice(CONST_ATTRS), "type": None})
                at.append([nm, a])
        tys = []
        for wt in want_types:
            r = rng.random()
            if wt is not None and r < 0.7:
                tys.append(wt)
            elif types and r < 0.85:
                tys.append(rng.choice(types))
            else:
                t = fresh("t")
                out.append({"k": "type", "id": t, "const": rng.choice(TYPES), "hint": None})
                tys.append(t)
        o = fresh("o")
        out.append({"k": "op", "id": o, "name": name, "operands": ops, "attrs": at, "types": tys})
        return o

    r = rng.random()
    if root != pattern_root:
        r = max(r, 0.04)  # never erase an op that still has users
    if nres == 0 or r < 0.03:
        if rng.random() < 0.5 or nres:
            out.append({"k": "erase", "op": root})
        else:
            o = new_op([], [])
            out.append({"k": "replace", "op": root, "with_op": o, "with_vals": []})
    elif r < 0.36 and values:
        vals = []
        for i in range(nres):
            same = [v for v in values if value_type(v) is not None and value_type(v) == rs["types"][i]]
            vals.append(rng.choice(same) if same and rng.random() < 0.7 else rng.choice(values))
        out.append({"k": "replace", "op": root, "with_op": None, "with_vals": vals})
    elif r < 0.8 or not values:
        o = new_op([], list(rs["types"]))
        out.append({"k": "replace", "op": root, "with_op": o, "with_vals": []})
    else:
        o1 = new_op([], [rng.choice(rs["types"])] * rng.choice([1, 1, 2]))
        k = len(next(s for s in out if s["id"] == o1)["types"])
        rr = fresh("r")
        out.append({"k": "result", "id": rr, "of": o1, "index": rng.randrange(k)})
        if rng.random() < 0.5:
            o2 = new_op([rr], list(rs["types"]))
            out.append({"k": "replace", "op": root, "with_op": o2, "with_vals": []})
        else:
            vals = [rr if (i == 0 or rng.random() < 0.5) else rng.choice(values) for i in range(nres)]
            out.append({"k": "replace", "op": root, "with_op": None, "with_vals": vals})
    return out


def gen_spec(rng):
    g = PatGen(rng)
    root = g.op(0, root=True, arith=rng.random() < 0.35)
    rs = g.by_id(root)
    named_below = any(g.by_id(v)["k"] == "result" and g.by_id(g.by_id(v)["of"])["name"] for v in rs["operands"])
    if named_below and not rs["name"].startswith("arith.") and rng.random() < 0.2:
        rs["name"] = None  # root without name constraint; a NAMED defining op below it keeps the pattern selective
    return {"match": g.match, "root": root, "rewrite": gen_rewrite(rng, g.match, root), "benefit": rng.choice([1, 1, 2])}


# ----------------------------------------------------------------------------------------------- rendering
def _stmt_text(s, ind):
    k = s["k"]
    if k == "type":
        return f"{ind}%{s['id']} = pdl.type" + (f" : {s['const']}" if s["const"] else "")
    if k == "attr":
        if s["value"] is not None:
            return f"{ind}%{s['id']} = pdl.attribute = {s['value']}"
        if s["type"] is not None:
            return f"{ind}%{s['id']} = pdl.attribute : %{s['type']}"
        return f"{ind}%{s['id']} = pdl.attribute"
    if k == "operand":
        return f"{ind}%{s['id']} = pdl.operand" + (f" : %{s['type']}" if s["type"] else "")
    if k == "result":
        return f"{ind}%{s['id']} = pdl.result {s['index']} of %{s['of']}"
    if k == "op":
        t = f"{ind}%{s['id']} = pdl.operation"
        if s["name"]:
            t += f' "{s["name"]}"'
        if s["operands"]:
            t += " (" + ", ".join("%" + v for v in s["operands"]) + " : " + ", ".join(["!pdl.value"] * len(s["operands"])) + ")"
        if s["attrs"]:
            t += " {" + ", ".join(f'"{n}" = %{a}' for n, a in s["attrs"]) + "}"
        if s["types"]:
            t += " -> (" + ", ".join("%" + v for v in s["types"]) + " : " + ", ".join(["!pdl.type"] * len(s["types"])) + ")"
        return t
    if k == "erase":
        return f"{ind}pdl.erase %{s['op']}"
    if k == "replace":
        if s["with_op"]:
            return f"{ind}pdl.replace %{s['op']} with %{s['with_op']}"
        return f"{ind}pdl.replace %{s['op']} with (" + ", ".join("%" + v for v in s["with_vals"]) + " : " + \
            ", ".join(["!pdl.value"] * len(s["with_vals"])) + ")"
    raise ValueError(k)


def render(spec):
    lines = [f"pdl.pattern : benefit({spec.get('benefit', 1)}) {{"]
    lines += [_stmt_text(s, "  ") for s in spec["match"]]
    lines.append(f"  pdl.rewrite %{spec['root']} {{")
    lines += [_stmt_text(s, "    ") for s in spec["rewrite"]]
    lines += ["  }", "}"]
    return "\n".join(lines) + "\n"


# ----------------------------------------------------------------------------------------------- corpus patterns
def spec_from_ir(pattern_op):
    """Spec of a parsed `pdl.pattern` when its match section stays in the subset {type, attribute, operand, operation,
    result} (else None).  The rewrite section is kept as text by the caller; only the match part is needed to
    instantiate payloads."""
    from xdsl.dialects import pdl
    ids: dict = {}
    match = []

    def nm(v):
        if v not in ids:
            ids[v] = f"c{len(ids)}"
        return ids[v]

    root = None
    for op in pattern_op.body.block.ops:
        if isinstance(op, pdl.TypeOp):
            match.append({"k": "type", "id": nm(op.result), "const": str(op.constantType) if op.constantType is not None else None, "hint": None})
        elif isinstance(op, pdl.AttributeOp):
            match.append({"k": "attr", "id": nm(op.output), "value": str(op.value) if op.value is not None else None,
                          "type": nm(op.value_type) if op.value_type is not None else None})
        elif isinstance(op, pdl.OperandOp):
            match.append({"k": "operand", "id": nm(op.value), "type": nm(op.value_type) if op.value_type is not None else None})
        elif isinstance(op, pdl.ResultOp):
            match.append({"k": "result", "id": nm(op.val), "of": nm(op.parent_), "index": op.index.value.data})
        elif isinstance(op, pdl.OperationOp):
            for v in (*op.operand_values, *op.attribute_values, *op.type_values):
                if v not in ids:
                    return None
            if any(isinstance(v.type, pdl.RangeType) for v in (*op.operand_values, *op.type_values)):
                return None
            match.append({"k": "op", "id": nm(op.op), "name": op.opName.data if op.opName is not None else None,
                          "operands": [nm(v) for v in op.operand_values],
                          "attrs": [[n.data, nm(v)] for n, v in zip(op.attributeValueNames.data, op.attribute_values)],
                          "types": [nm(v) for v in op.type_values]})
        elif isinstance(op, pdl.RewriteOp):
            if op.root is None or op.root not in ids:
                return None
            root = ids[op.root]
        else:
            return None
    if root is None:
        return None
    return {"match": match, "root": root, "rewrite": None}


# ----------------------------------------------------------------------------------------------- payloads
FUNC_ARGS = [("%parg0", "i32"), ("%parg1", "i32"), ("%parg2", "i64"), ("%parg3", "i1"), ("%parg4", "index"), ("%parg5", "f32"), ("%parg6", "i64")]


class Payload:
    """Emits generic-syntax ops; one instance of the pattern per `instance()` call."""

    def __init__(self, rng, in_func, prefix="pv"):
        self.prefix = prefix
        self.rng = rng
        self.lines: list[str] = []
        self.n = 0
        self.in_func = in_func
        self.values: list[tuple[str, str]] = list(FUNC_ARGS) if in_func else []
        self.nops = 0

    def fresh(self):
        self.n += 1
        return f"%{self.prefix}{self.n}"

    def producer(self, ty, allow_arg=True):
        rng = self.rng
        have = [v for v, t in self.values if t == ty]
        if have and allow_arg and rng.random() < 0.5:
            return rng.choice(have)
        v = self.fresh()
        self.emit("test.op" if rng.random() < 0.7 else "test.pureop", [], {}, {}, [(v, ty)])
        return v

    def emit(self, name, operands, props, attrs, results):
        """operands: [(ssa, type)], results: [(ssa, type)]"""
        t = ""
        if results:
            t += ", ".join(r for r, _ in results) + " = "
        t += f'"{name}"(' + ", ".join(o for o, _ in operands) + ")"
        if props:
            t += " <{" + ", ".join(f"{k} = {v}" for k, v in props.items()) + "}>"
        if attrs:
            t += " {" + ", ".join(f"{k} = {v}" for k, v in attrs.items()) + "}"
        t += " : (" + ", ".join(ty for _, ty in operands) + ") -> (" + ", ".join(ty for _, ty in results) + ")"
        self.lines.append(t)
        self.values.extend(results)
        self.nops += 1

    def rand_attr(self):
        return self.rng.choice(CONST_ATTRS)

    def instance(self, spec, mutation=None):
        """Emit one instance of spec's match section.  mutation = (kind, op id) or None.  Returns the root's results and
        whether the mutation found a site."""
        rng = self.rng
        by = {s["id"]: s for s in spec["match"]}
        env: dict = {}
        applied = [False]
        seen_operand_use: dict = {}
        seen_type_use: dict = {}
        mkind, msite = mutation if mutation else (None, None)

        def other_type(ty):
            return rng.choice([t for t in (INT_TYPES if ty in INT_TYPES else TYPES) if t != ty])

        def conc_type(tid, hint=None):
            if tid in env:
                return env[tid]
            s = by[tid]
            env[tid] = s["const"] or s.get("hint") or hint or rng.choice(TYPES)
            return env[tid]

        def conc_attr(aid, site):
            if aid in env:
                return env[aid]
            s = by[aid]
            if s["value"] is not None:
                v = s["value"]
            elif s["type"] is not None:
                ty = conc_type(s["type"], rng.choice(INT_TYPES))
                if mkind == "typed-attr-type" and msite == site and not applied[0]:
                    ty = other_type(ty)
                    applied[0] = True
                v = f"{rng.choice([0, 1, 2, 5])} : {ty}" if ty in INT_TYPES else f"1.000000e+00 : {ty}"
                if ty == "i1":
                    v = rng.choice(["true", "false"])
            else:
                v = s.get("hint") or self.rand_attr()
            env[aid] = v
            return v

        def conc_value(vid, site, want=None):
            s = by[vid]
            if s["k"] == "operand":
                if vid in env:
                    if mkind == "shared-operand" and msite == site and not applied[0] and seen_operand_use.get(vid):
                        applied[0] = True
                        return (self.producer(env[vid][1], allow_arg=False), env[vid][1])
                    seen_operand_use[vid] = True
                    return env[vid]
                ty = conc_type(s["type"], want) if s["type"] else (conc_type(s["hint_type"], want) if s.get("hint_type") else (want or rng.choice(TYPES)))
                env[vid] = (self.producer(ty), ty)
                seen_operand_use[vid] = True
                return env[vid]
            # result of a nested op
            if mkind == "chain-twin" and not applied[0] and s["of"] in env:
                # the pattern reaches ONE defining op through this second operand path; the payload takes the value
                # from a DIFFERENT op of the same name / types / attributes (a fresh copy; its own defining ops are
                # shared or copied too), same result index: each operand path looks right on its own
                applied[0] = True
                saved = {}
                todo = [s["of"]]
                deep = rng.random() < 0.5
                while todo:
                    o = todo.pop()
                    if o in env:
                        saved[o] = env.pop(o)
                        if deep:
                            todo += [by[v]["of"] for v in by[o]["operands"] if by[v]["k"] == "result"]
                res = emit_op(s["of"])
                env.update(saved)
                if s["index"] < len(res):
                    return res[s["index"]]
            res = emit_op(s["of"])
            if mkind == "chain-arg" and msite == site and not applied[0]:
                applied[0] = True
                ty = res[s["index"]][1] if s["index"] < len(res) else (want or "i32")
                return (self.producer(ty, allow_arg=rng.random() < 0.6), ty)
            if mkind == "chain-index" and msite == site and not applied[0] and len(res) > 1:
                applied[0] = True
                return res[(s["index"] + 1) % len(res)]
            if s["index"] < len(res):
                return res[s["index"]]
            ty = want or "i32"
            return (self.producer(ty), ty)

        def emit_op(oid):
            if oid in env:
                return env[oid]
            s = by[oid]
            here = (msite == oid)
            name = s["name"] or rng.choice(GENERIC_NAMES)
            arith = name in ARITH_BIN
            types = []
            for tid in s["types"]:
                ty = conc_type(tid)
                if mkind == "shared-type" and here and not applied[0] and seen_type_use.get(tid) and by[tid]["const"] is None:
                    ty = other_type(ty)
                    applied[0] = True
                seen_type_use[tid] = True
                types.append(ty)
            if mkind == "type" and here and types and not applied[0]:
                i = rng.randrange(len(types))
                types[i] = other_type(types[i])
                applied[0] = True
            want = types[0] if (arith and types) else None
            operands = [conc_value(v, oid, want) for v in s["operands"]]
            attrs, props = {}, {}
            for nm_, aid in s["attrs"]:
                if name == "arith.constant" and nm_ == "value" and aid not in env and by[aid]["value"] is None and types:
                    # keep the payload verifiable: an integer of the result type
                    env[aid] = f"{rng.choice([0, 1, 2, 3])} : {types[0]}" if types[0] in INT_TYPES and types[0] != "i1" else \
                        ("true" if types[0] == "i1" else f"1.000000e+00 : {types[0]}")
                v = conc_attr(aid, oid)
                if mkind == "attrval" and here and not applied[0] and nm_ != "overflowFlags":
                    if name == "arith.constant" and nm_ == "value" and " : " in v and v.split(" : ")[0].lstrip("-").isdigit():
                        n0, ty0 = v.split(" : ")
                        v = f"{rng.choice([x for x in (0, 1, 2, -1, 3) if x != int(n0)])} : {ty0}"
                    else:
                        v = rng.choice(NEAR.get(v, [c for c in CONST_ATTRS if c != v]))
                    applied[0] = True
                elif mkind == "attrmissing" and here and not applied[0]:
                    applied[0] = True
                    continue
                is_prop = (nm_.startswith("prop") and name.startswith("test.")) or (name.startswith("arith.") and nm_ in ("value", "overflowFlags"))
                if mkind == "attr-is-prop" and here and not applied[0] and nm_.startswith("prop"):
                    is_prop = False
                    applied[0] = True
                (props if is_prop else attrs)[nm_] = v
            if mkind == "attrextra" and here and not applied[0]:
                attrs["extra"] = self.rand_attr()
                applied[0] = True
            if mkind == "name" and here and not applied[0]:
                name = rng.choice(SIBLING.get(name, ["test.op"]))
                applied[0] = True
                if not name.startswith("arith."):
                    attrs.update(props)
                    props = {}
                elif name == "arith.andi":
                    props.pop("overflowFlags", None)
            if mkind == "opcount+" and here and not applied[0]:
                ty = operands[0][1] if operands else rng.choice(TYPES)
                operands.append((self.producer(ty), ty))
                applied[0] = True
            if mkind == "opcount-" and here and not applied[0] and operands:
                operands.pop()
                applied[0] = True
            if mkind == "rescount+" and here and not applied[0]:
                types.append(types[0] if types else rng.choice(TYPES))
                applied[0] = True
            if mkind == "rescount-" and here and not applied[0] and types:
                types.pop()
                applied[0] = True
            results = [(self.fresh(), ty) for ty in types]
            self.emit(name, operands, props, attrs, results)
            env[oid] = results
            return results

        res = emit_op(spec["root"])
        return res, applied[0]

    def sink(self, vals):
        if vals:
            self.emit("test.op", vals, {}, {}, [])

    def junk(self):
        rng = self.rng
        k = min(len(self.values), rng.choice([0, 1, 2]))
        ops = rng.sample(self.values, k) if k else []
        ty = rng.choice(TYPES)
        attrs = {rng.choice(ATTR_NAMES[::2]): self.rand_attr()} if rng.random() < 0.4 else {}
        self.emit(rng.choice(GENERIC_NAMES), ops, {}, attrs, [(self.fresh(), ty)] if rng.random() < 0.8 else [])

    def text(self):
        if self.in_func:
            sig = ", ".join(f"{a}: {t}" for a, t in FUNC_ARGS)
            return f"func.func @payload_f({sig}) {{\n  " + "\n  ".join(self.lines) + "\n  func.return\n}\n"
        return "\n".join(self.lines) + "\n"


MUTATION_WEIGHTS = (["name"] * 2 + ["opcount+", "opcount-"] + ["attrval"] * 3 + ["attrmissing", "attrextra"] + ["type"] * 2 +
                    ["rescount+", "rescount-"] + ["shared-operand"] * 3 + ["shared-type"] * 3 + ["chain-arg"] * 2 +
                    ["chain-index"] * 4 + ["typed-attr-type"] + ["attr-is-prop"] * 2 + ["chain-twin"] * 6)


def _applicable(kind, site, by, ops):
    """Cheap test whether mutation `kind` can find something to change at op `site` (misses are tolerated: an
    instance whose mutation found no site is recorded as 'exact')."""
    s = by[site]
    name = s["name"] or ""
    if name.startswith("arith.") and kind not in ARITH_MUTATIONS:
        return False
    if kind in ("name", "opcount+", "rescount+", "attrextra"):
        return True
    if kind == "opcount-":
        return bool(s["operands"])
    if kind in ("rescount-", "type"):
        return bool(s["types"])
    if kind in ("attrval", "attrmissing"):
        return bool(s["attrs"])
    if kind == "attr-is-prop":
        return any(n.startswith("prop") for n, _ in s["attrs"])
    if kind == "typed-attr-type":
        return any(by[a]["type"] is not None for _, a in s["attrs"])
    if kind == "chain-arg":
        return any(by[v]["k"] == "result" for v in s["operands"])
    if kind == "chain-index":
        return any(by[v]["k"] == "result" and len(by[by[v]["of"]]["types"]) >= 2 for v in s["operands"])
    if kind == "chain-twin":
        # some defining op is the target of >= 2 operand uses (distinct pdl.result values or positions)
        uses = [by[v]["of"] for o in ops for v in by[o]["operands"] if by[v]["k"] == "result"]
        return any(uses.count(d) >= 2 for d in set(uses))
    if kind == "shared-operand":
        allops = [v for o in ops for v in by[o]["operands"] if by[v]["k"] == "operand"]
        return any(by[v]["k"] == "operand" and allops.count(v) >= 2 for v in s["operands"])
    if kind == "shared-type":
        alltys = [t for o in ops for t in by[o]["types"]]
        return any(by[t]["const"] is None and alltys.count(t) >= 2 for t in s["types"])
    return True


def gen_payload(rng, spec, exact_only=False, in_func=None, prefix="pv"):
    """Payload text + list of (mutation kind | 'exact') per instance."""
    ops = [s["id"] for s in spec["match"] if s["k"] == "op"]
    by = {s["id"]: s for s in spec["match"]}
    p = Payload(rng, in_func=(rng.random() < 0.5) if in_func is None else in_func, prefix=prefix)
    plan = []
    _uses = [by[v]["of"] for o in ops for v in by[o]["operands"] if by[v]["k"] == "result"]
    has_shared_def = any(_uses.count(d) >= 2 for d in set(_uses))
    ninst = rng.choice([2, 3, 4, 5])
    for i in range(ninst):
        if p.nops > 36:
            break
        if rng.random() < 0.3:
            p.junk()
        mut = None
        if not exact_only and rng.random() >= 0.4:
            for attempt in range(4):
                kind = rng.choice(MUTATION_WEIGHTS)
                if attempt == 0 and has_shared_def and rng.random() < 0.4:
                    kind = "chain-twin"  # the shape is rare: use it when the pattern has it
                sites = [o for o in ops if _applicable(kind, o, by, ops)]
                if sites:
                    mut = (kind, rng.choice(sites))
                    break
        res, applied = p.instance(spec, mut)
        plan.append(("exact" if (mut is None or not applied) else mut[0]))
        if rng.random() < 0.8:
            p.sink(res)
    if rng.random() < 0.5:
        p.junk()
    return p.text(), plan
