"""C19 workload generator: register-allocatable single-block riscv_func / x86_func bodies as IR text.

Everything derives from the `random.Random` passed in.  The generator keeps a scoped list of usable values
and a set of physical registers *held* by pre-allocated values, so that pre-allocated values never overlap
by construction (the check re-verifies that with its own liveness oracle on the input and excludes + counts
any clash), in/out (tied) operands and loop-carried initial values die at their op (the documented
precondition of HasRegisterConstraints / the x86 legalisation), and all loops have small constant bounds.

Loop yields come in two flavours:
  * "fresh"   : every yielded value is computed at the very end of the body from non-block-argument values
                (or the block argument of its own position) - always colourable under the tie constraints,
  * "natural" : any body value / block argument / outer value may be yielded, as xDSL's own scf lowering
                produces it (yield of another position's argument, of a value computed before the last use of
                the carried argument, of an outer value) - frequently NOT colourable without a copy.
"""
from __future__ import annotations

RV_INT_PRE = ["t0", "t1", "t2", "t3", "t4", "t5", "t6", "s1", "s2", "s3", "s4", "s5", "s6", "s7", "s8", "s9", "s10",
              "s11", "a0", "a1", "a2", "a3", "a4", "a5", "a6", "a7", "x9", "x18", "fp", "ra", "x28"]
RV_FLT_PRE = ["ft3", "ft4", "ft5", "ft6", "ft7", "ft8", "ft9", "ft10", "ft11", "fs0", "fs1", "fs2", "fs3", "fs4",
              "fa0", "fa1", "fa2", "fa3", "fa4", "fa5", "fa6", "fa7", "f9", "f18", "ft0", "ft1", "ft2"]
# canonical cell of each name (generator-side bookkeeping only; the check has its own table)
_ALIAS = {"x9": "s1", "x18": "s2", "fp": "s0", "x28": "t3", "f9": "fs1", "f18": "fs2"}

RV_BIN = ["add", "sub", "and", "or", "xor", "sll", "srl", "sra", "slt", "sltu", "mul", "mulh", "mulhu", "mulhsu",
          "div", "divu", "rem", "remu", "andn", "orn", "xnor", "max", "min", "maxu", "minu", "rol", "ror",
          "sh1add", "sh2add", "sh3add", "bclr", "bset", "binv", "bext", "czero.eqz", "czero.nez"]
RV_BIN64 = ["addw", "subw", "mulw", "sllw", "srlw", "sraw", "divw", "remuw"]
RV_UN = ["mv", "mv", "mv", "seqz", "snez", "sext.b", "sext.h", "zext.b", "zext.h", "clz", "ctz", "cpop"]
RV_UN64 = ["sext.w", "zext.w"]
RV_IMM = ["addi", "addi", "andi", "ori", "xori", "slti", "sltiu"]
RV_FBIN = ["fadd.s", "fsub.s", "fmul.s", "fdiv.s", "fmin.s", "fmax.s", "fsgnj.s", "fsgnjn.s", "fsgnjx.s",
           "fadd.d", "fsub.d", "fmul.d", "fmin.d", "fmax.d"]
RV_FUN = ["fmv.s", "fmv.d", "fsqrt.s"]
RV_FTER = ["fmadd.s", "fmsub.s", "fnmsub.s", "fnmadd.s", "fmadd.d", "fmsub.d"]
RV_FCMP = ["feq.s", "flt.s", "fle.s"]
RV_F2I = ["fcvt.w.s", "fcvt.wu.s", "fmv.x.w", "fclass.s"]
RV_I2F = ["fcvt.s.w", "fcvt.s.wu", "fmv.w.x", "fcvt.d.w", "fcvt.d.wu"]
SNITCH_FBIN = ["riscv_snitch.vfadd.s", "riscv_snitch.vfsub.s", "riscv_snitch.vfmul.s", "riscv_snitch.vfmax.s",
               "riscv_snitch.vfcpka.s.s", "riscv.vfadd.s", "riscv.vfmul.s"]
LI_VALUES = [0, 0, 0, 0, 1, -1, 2, 7, -3, 100000, 2147483647, -2147483648, 255, 4096]


class Val:
    __slots__ = ("name", "kind", "reg", "scope", "is_arg", "const0", "consumed")

    def __init__(self, name, kind, reg, scope, is_arg=False, const0=False):
        self.name, self.kind, self.reg, self.scope, self.is_arg, self.const0 = name, kind, reg, scope, is_arg, const0
        self.consumed = False  # used as an in/out operand or loop-carried initial value: must never be used again


class Scope:
    def __init__(self, parent=None):
        self.parent = parent
        self.vals: list[Val] = []
        self.held_here: list[str] = []

    def visible(self):
        s, out = self, []
        while s is not None:
            out.extend(s.vals)
            s = s.parent
        return out


class _Base:
    def __init__(self, rng, cfg):
        self.rng = rng
        self.cfg = cfg
        self.n = 0
        self.held: set[str] = set()
        self.lines: list[str] = []
        self.indent = 1
        self.features: set[str] = set()
        self.max_visible = 0

    def fresh(self, p="v"):
        self.n += 1
        return f"%{p}{self.n}"

    def emit(self, s):
        self.lines.append("  " * self.indent + s)

    # ---- pre-allocated registers
    def cell(self, r):
        return _ALIAS.get(r, r)

    def hold(self, scope, r):
        self.held.add(self.cell(r))
        scope.held_here.append(self.cell(r))

    def release_scope(self, scope):
        for r in scope.held_here:
            self.held.discard(r)
        scope.held_here = []

    def retire(self, scope, v):
        """v will never be used again (only own-scope values): its pre-allocated register becomes free."""
        if v in scope.vals:
            scope.vals.remove(v)
            if v.reg is not None and self.cell(v.reg) in scope.held_here and not v.is_arg:
                scope.held_here.remove(self.cell(v.reg))
                self.held.discard(self.cell(v.reg))

    def trim(self, scope):
        """Keep the number of retained values near the pressure target."""
        target = self.cfg["pressure"]
        self.max_visible = max(self.max_visible, len(scope.visible()))
        while len(scope.vals) > 1 and len(scope.visible()) > target:
            self.retire(scope, self.rng.choice(scope.vals))

    def pick(self, scope, kind, own_only=False, unalloc_only=False, no_args=False):
        pool = [v for v in (scope.vals if own_only else scope.visible()) if v.kind == kind
                and (not unalloc_only or v.reg is None) and (not no_args or not v.is_arg)]
        if not pool:
            return None
        if self.rng.random() < 0.5:
            return self.rng.choice(pool[:6] if self.rng.random() < 0.3 else pool[-5:])
        return self.rng.choice(pool)


# ============================================================================================== RISC-V
class RvGen(_Base):
    def ty(self, kind, reg=None):
        base = "!riscv.reg" if kind == "i" else "!riscv.freg"
        return f"{base}<{reg}>" if reg else base

    def vty(self, v):
        return self.ty(v.kind, v.reg)

    def maybe_pre(self, scope, kind):
        """Maybe choose a free pre-allocated register for a new result."""
        if self.rng.random() >= self.cfg["p_pre"]:
            return None
        cands = [r for r in (RV_INT_PRE if kind == "i" else RV_FLT_PRE) if self.cell(r) not in self.held]
        if "stream" in self.features:
            cands = [r for r in cands if r not in ("ft0", "ft1", "ft2")]
        if not cands:
            return None
        r = self.rng.choice(cands)
        self.hold(scope, r)
        self.features.add("prealloc-interior")
        return r

    def need(self, scope, kind, **kw):
        v = self.pick(scope, kind, **kw)
        if v is None:
            v = self.const(scope, kind)
        return v

    def const(self, scope, kind, value=None):
        x = self.xl
        if kind == "i":
            k = self.rng.choice(LI_VALUES) if value is None else value
            nm = self.fresh("c")
            self.emit(f"{nm} = rv{x}.li {k} : !riscv.reg")
            v = Val(nm, "i", None, scope, const0=(k == 0))
            if k == 0:
                self.features.add("li0")
        else:
            i = self.const(scope, "i", value)
            nm = self.fresh("fc")
            op = self.rng.choice(["fcvt.s.w", "fcvt.d.w", "fmv.w.x"])
            self.emit(f"{nm} = riscv.{op} {i.name} : (!riscv.reg) -> !riscv.freg")
            v = Val(nm, "f", None, scope)
        scope.vals.append(v)
        return v

    def define(self, scope, kind, text_fn, allow_pre=True):
        """text_fn(result type) -> op text without the result name."""
        reg = self.maybe_pre(scope, kind) if allow_pre else None
        nm = self.fresh("v" if kind == "i" else "f")
        self.emit(f"{nm} = " + text_fn(self.ty(kind, reg)))
        v = Val(nm, kind, reg, scope)
        scope.vals.append(v)
        return v

    # ---- statements
    def stmt(self, scope, depth):
        r = self.rng
        c = self.cfg
        x = self.xl
        roll = r.random()
        w = c["weights"]
        kinds = list(w)
        k = r.choices(kinds, [w[q] for q in kinds])[0]
        if k == "const":
            self.const(scope, "i" if r.random() < 0.8 or not c["floats"] else "f")
        elif k == "mvzero":
            z = [v for v in scope.visible() if v.const0]
            if z:
                s = r.choice(z)
                nm = self.fresh("z")
                self.emit(f"{nm} = riscv.mv {s.name} : ({self.vty(s)}) -> !riscv.reg")
                scope.vals.append(Val(nm, "i", None, scope, const0=True))
                self.features.add("mv-of-zero")
            else:
                self.const(scope, "i", 0)
        elif k == "getzero":
            nm = self.fresh("gz")
            self.emit(f"{nm} = rv{x}.get_register : !riscv.reg<zero>")
            scope.vals.append(Val(nm, "i", "zero", scope, const0=True))
            self.features.add("get-zero")
        elif k == "un":
            a = self.need(scope, "i")
            op = r.choice(RV_UN + (RV_UN64 if x == 64 else []))
            self.define(scope, "i", lambda t: f"riscv.{op} {a.name} : ({self.vty(a)}) -> {t}")
        elif k == "bin":
            a, b = self.need(scope, "i"), self.need(scope, "i")
            op = r.choice(RV_BIN + (RV_BIN64 if x == 64 else []))
            self.define(scope, "i", lambda t: f"riscv.{op} {a.name}, {b.name} : ({self.vty(a)}, {self.vty(b)}) -> {t}")
        elif k == "imm":
            a = self.need(scope, "i")
            if r.random() < 0.3:
                op = r.choice(["slli", "srli", "srai"])
                self.define(scope, "i", lambda t: f"rv{x}.{op} {a.name}, {r.randint(0, x - 1)} : ({self.vty(a)}) -> {t}")
            else:
                op = r.choice(RV_IMM)
                self.define(scope, "i", lambda t: f"riscv.{op} {a.name}, {r.choice([0, 1, -1, 5, -2048, 2047, 77])} : ({self.vty(a)}) -> {t}")
        elif k == "fbin":
            a, b = self.need(scope, "f"), self.need(scope, "f")
            op = r.choice(RV_FBIN)
            self.define(scope, "f", lambda t: f"riscv.{op} {a.name}, {b.name} : ({self.vty(a)}, {self.vty(b)}) -> {t}")
            self.features.add("float")
        elif k == "fun":
            a = self.need(scope, "f")
            op = r.choice(RV_FUN)
            self.define(scope, "f", lambda t: f"riscv.{op} {a.name} : ({self.vty(a)}) -> {t}")
        elif k == "fter":
            a, b, d = self.need(scope, "f"), self.need(scope, "f"), self.need(scope, "f")
            op = r.choice(RV_FTER)
            self.define(scope, "f", lambda t: f"riscv.{op} {a.name}, {b.name}, {d.name} : ({self.vty(a)}, {self.vty(b)}, {self.vty(d)}) -> {t}")
        elif k == "fcmp":
            a, b = self.need(scope, "f"), self.need(scope, "f")
            op = r.choice(RV_FCMP)
            self.define(scope, "i", lambda t: f"riscv.{op} {a.name}, {b.name} : ({self.vty(a)}, {self.vty(b)}) -> {t}")
        elif k == "f2i":
            a = self.need(scope, "f")
            op = r.choice(RV_F2I)
            self.define(scope, "i", lambda t: f"riscv.{op} {a.name} : ({self.vty(a)}) -> {t}")
        elif k == "i2f":
            a = self.need(scope, "i")
            op = r.choice(RV_I2F)
            self.define(scope, "f", lambda t: f"riscv.{op} {a.name} : ({self.vty(a)}) -> {t}")
            self.features.add("float")
        elif k == "snitchbin":
            a, b = self.need(scope, "f"), self.need(scope, "f")
            op = r.choice(SNITCH_FBIN)
            self.define(scope, "f", lambda t: f"{op} {a.name}, {b.name} : ({self.vty(a)}, {self.vty(b)}) -> {t}")
            self.features.add("snitch-simd")
        elif k == "store":
            a, b = self.need(scope, "i"), self.need(scope, "i")
            if c["floats"] and r.random() < 0.3:
                f = self.need(scope, "f")
                op = r.choice(["fsw", "fsd"])
                self.emit(f"riscv.{op} {a.name}, {f.name}, {r.choice([0, 4, -8])} : ({self.vty(a)}, {self.vty(f)}) -> ()")
            else:
                self.emit(f"riscv.sw {a.name}, {b.name}, {r.choice([0, 4, -8])} : ({self.vty(a)}, {self.vty(b)}) -> ()")
            self.features.add("store")
        elif k == "load":
            a = self.need(scope, "i")
            if c["floats"] and r.random() < 0.3:
                op = r.choice(["flw", "fld"])
                self.define(scope, "f", lambda t: f"riscv.{op} {a.name}, {r.choice([0, 4, -8])} : ({self.vty(a)}) -> {t}")
            else:
                self.define(scope, "i", lambda t: f"riscv.lw {a.name}, {r.choice([0, 4, -8])} : ({self.vty(a)}) -> {t}")
            self.features.add("load")
        elif k == "observe":
            n = r.randint(1, 4)
            vs = [self.need(scope, r.choice("iif") if c["floats"] else "i") for _ in range(n)]
            self.observe(vs)
        elif k == "inout":
            self.inout(scope)
        elif k == "vfmac":
            acc = self.tied_source(scope, "f")
            a, b = self.need(scope, "f"), self.need(scope, "f")
            if r.random() < 0.3:
                op, ops_, tys = "riscv_snitch.vfsum.s", f"{acc.name}, {a.name}", f"{self.vty(acc)}, {self.vty(a)}"
            else:
                op, ops_, tys = "riscv_snitch.vfmac.s", f"{acc.name}, {a.name}, {b.name}", f"{self.vty(acc)}, {self.vty(a)}, {self.vty(b)}"
            nm = self.fresh("acc")
            self.emit(f"{nm} = {op} {ops_} : ({tys}) -> {self.vty(acc)}")
            self.consume_tied(scope, acc, Val(nm, "f", acc.reg, scope))
            self.features.add("snitch-inout")
        elif k == "pmov":
            self.pmov(scope)
        elif k == "loop" and depth < c["max_depth"]:
            self.loop(scope, depth)
        elif k == "nest" and depth == 0:
            self.chain_nest(scope, depth, r.choice([2, 2, 3]))
        elif k == "frep" and depth < c["max_depth"] and c["floats"]:
            self.frep(scope, depth)
        elif k == "while" and depth == 0:
            self.while_(scope)
        elif k == "stream" and "stream" in self.features and depth == 0:
            self.stream_op(scope)
        else:
            self.const(scope, "i")
        self.trim(scope)

    def observe(self, vs):
        if not vs:
            return
        self.emit(f'"test.allocatable"({", ".join(v.name for v in vs)}) {{operandSegmentSizes = array<i32: {len(vs)}, 0>, '
                  f'resultSegmentSizes = array<i32: 0, 0>}} : ({", ".join(self.vty(v) for v in vs)}) -> ()')

    def tied_source(self, scope, kind, exclude=()):
        """A value of the current scope that may die here (never an outer value: it would be live on the back
        edge, never the induction variable); otherwise a fresh copy."""
        v = self.pick(scope, kind, own_only=True)
        if v is not None and v.reg != "zero" and v.is_arg != 2 and v not in exclude and self.rng.random() < 0.7:
            return v
        s = self.need(scope, kind)
        op = "riscv.mv" if kind == "i" else self.rng.choice(["riscv.fmv.s", "riscv.fmv.d"])
        nm = self.fresh("t")
        self.emit(f"{nm} = {op} {s.name} : ({self.vty(s)}) -> {self.ty(kind)}")
        nv = Val(nm, kind, None, scope)
        scope.vals.append(nv)
        return nv

    def consume_tied(self, scope, old, new):
        """old dies at the op, new takes over its (pre-allocated) register."""
        old.consumed = True
        if old in scope.vals:
            scope.vals.remove(old)
        scope.vals.append(new)

    def inout(self, scope):
        r = self.rng
        kinds = "iif" if self.cfg["floats"] else "i"
        n_in, n_io, n_out = r.randint(0, 3), r.randint(1, 2), r.randint(0, 2)
        ios = []
        for _ in range(n_io):
            v = self.tied_source(scope, r.choice(kinds))
            if v in ios:
                continue
            ios.append(v)
        ins = [self.need(scope, r.choice(kinds)) for _ in range(n_in)]
        if r.random() < 0.15 and ios:
            ins.append(ios[0])  # read and clobber the same value
        outs = []
        for _ in range(n_out):
            kind = r.choice(kinds)
            outs.append((self.fresh("o"), kind, self.maybe_pre(scope, kind)))
        ionew = [(self.fresh("io"), v) for v in ios]
        names = [o[0] for o in outs] + [n for n, _ in ionew]
        rtys = [self.ty(o[1], o[2]) for o in outs] + [self.vty(v) for _, v in ionew]
        opnds = ins + ios
        self.emit(f'{", ".join(names)} = "test.allocatable"({", ".join(v.name for v in opnds)}) '
                  f'{{operandSegmentSizes = array<i32: {len(ins)}, {len(ios)}>, resultSegmentSizes = array<i32: {len(outs)}, {len(ionew)}>}} '
                  f': ({", ".join(self.vty(v) for v in opnds)}) -> ({", ".join(rtys)})')
        for nm, kind, reg in outs:
            scope.vals.append(Val(nm, kind, reg, scope))
        for nm, v in ionew:
            self.consume_tied(scope, v, Val(nm, v.kind, v.reg, scope))
        self.features.add("inout")

    def pmov(self, scope):
        r = self.rng
        kinds = "iif" if self.cfg["floats"] else "i"
        n = r.randint(1, 4)
        srcs = [self.need(scope, r.choice(kinds)) for _ in range(n)]
        outs = []
        for s in srcs:
            outs.append((self.fresh("p"), s.kind, self.maybe_pre(scope, s.kind) if r.random() < 0.5 else None))
        self.emit(f'{", ".join(o[0] for o in outs)} = riscv.parallel_mov {", ".join(s.name for s in srcs)} '
                  f'[{", ".join("32" if r.random() < 0.7 else "64" for _ in srcs)}] : ({", ".join(self.vty(s) for s in srcs)}) -> '
                  f'({", ".join(self.ty(o[1], o[2]) for o in outs)})')
        for nm, kind, reg in outs:
            scope.vals.append(Val(nm, kind, reg, scope))
        self.features.add("parallel-mov")

    def carried_init(self, scope, kind, exclude=()):
        """Initial value of a loop-carried variable: dies at the loop."""
        r = self.rng
        v = self.tied_source(scope, kind, exclude)
        if v.reg is None and r.random() < self.cfg["p_pre"] * 0.6:
            # move into a pre-allocated register: the whole carried tuple is then pre-assigned
            reg = self.maybe_pre_force(scope, kind)
            if reg is not None:
                op = "riscv.mv" if kind == "i" else "riscv.fmv.d"
                nm = self.fresh("pi")
                self.emit(f"{nm} = {op} {v.name} : ({self.vty(v)}) -> {self.ty(kind, reg)}")
                nv = Val(nm, kind, reg, scope)
                scope.vals.append(nv)
                self.features.add("prealloc-carried")
                return nv
        return v

    def maybe_pre_force(self, scope, kind):
        cands = [q for q in (RV_INT_PRE if kind == "i" else RV_FLT_PRE) if self.cell(q) not in self.held]
        if "stream" in self.features:
            cands = [q for q in cands if q not in ("ft0", "ft1", "ft2")]
        if not cands:
            return None
        q = self.rng.choice(cands)
        self.hold(scope, q)
        return q

    def body(self, scope, depth, n):
        for _ in range(n):
            self.stmt(scope, depth)

    def make_yields(self, body, args, natural, outer):
        """args: carried block arguments (Val).  Returns the yielded Vals (types must equal the args')."""
        r = self.rng
        ys = []
        for k, a in enumerate(args):
            want_reg = a.reg
            choice = r.random()
            if natural and want_reg is None:
                pool = [v for v in body.vals if v.kind == a.kind and v.reg is None and v not in ys and not v.is_arg]
                opool = [v for v in outer.visible() if v.kind == a.kind and v.reg is None]
                if choice < 0.55 and pool:
                    ys.append(r.choice(pool))
                    self.features.add("yield-body-value")
                    continue
                if choice < 0.7 and opool:
                    ys.append(r.choice(opool))
                    self.features.add("yield-outer-value")
                    continue
            if choice < self.cfg.get('p_passthrough', 0.06) and want_reg is None and not a.consumed:
                ys.append(a)  # pass-through of the own position
                self.features.add("yield-passthrough")
                continue
            # fresh value computed at the very end from safe operands
            safe = [v for v in body.visible() if v.kind == a.kind and (not v.is_arg or v is a) and v.reg is None]
            if a not in safe and not a.consumed:
                safe.append(a)
            if not safe:
                safe = [v for v in body.visible() if v.kind == a.kind and not v.is_arg] or [self.const(body, a.kind)]
            s1 = r.choice(safe)
            nm = self.fresh("y")
            if a.kind == "i":
                if r.random() < 0.5:
                    s2 = r.choice(safe)
                    self.emit(f"{nm} = riscv.{r.choice(['add', 'xor', 'sub', 'mul'])} {s1.name}, {s2.name} : ({self.vty(s1)}, {self.vty(s2)}) -> {self.ty('i', want_reg)}")
                else:
                    self.emit(f"{nm} = riscv.mv {s1.name} : ({self.vty(s1)}) -> {self.ty('i', want_reg)}")
            else:
                if r.random() < 0.5:
                    s2 = r.choice(safe)
                    self.emit(f"{nm} = riscv.{r.choice(['fadd.s', 'fmul.s', 'fsub.d'])} {s1.name}, {s2.name} : ({self.vty(s1)}, {self.vty(s2)}) -> {self.ty('f', want_reg)}")
                else:
                    self.emit(f"{nm} = riscv.fmv.d {s1.name} : ({self.vty(s1)}) -> {self.ty('f', want_reg)}")
            ys.append(Val(nm, a.kind, want_reg, body))
        if natural and len(args) >= 2 and r.random() < 0.2:
            # yield of other positions' arguments (fibonacci-style rotation), unallocated positions of one kind
            idx = [k for k, a in enumerate(args) if a.reg is None]
            for kind in "if":
                same = [k for k in idx if args[k].kind == kind]
                if len(same) >= 2:
                    i, j = r.sample(same, 2)
                    ys[i] = args[j]
                    self.features.add("yield-rotated-args")
                    break
        return ys

    def loop(self, scope, depth):
        r = self.rng
        c = self.cfg
        x = self.xl
        kinds = "iif" if c["floats"] else "i"
        lbv = r.choice([0, 0, 1, -2])
        trip = r.choice([0, 1, 2, 2, 3, 4] if depth == 0 else [0, 1, 2, 2])
        stepv = r.choice([1, 1, 2, 3])
        ubv = lbv + trip * stepv - (r.randint(0, stepv - 1) if trip else 0)
        lb = self.const(scope, "i", lbv)
        ub = self.const(scope, "i", ubv)
        if r.random() < 0.25:  # bounds through copies / pre-allocated registers
            nm = self.fresh("ub")
            reg = self.maybe_pre(scope, "i")
            self.emit(f"{nm} = riscv.mv {ub.name} : ({self.vty(ub)}) -> {self.ty('i', reg)}")
            ub = Val(nm, "i", reg, scope)
            scope.vals.append(ub)
        dyn_step = r.random() < 0.5
        if dyn_step:
            st = self.const(scope, "i", stepv)
            step_txt = st.name
        else:
            step_txt = f"{stepv} : si12"
        n_car = r.choice([0, 1, 1, 2, 2, 3, 4])
        inits = []
        bounds = [q for q in (lb, ub, st if dyn_step else None) if q is not None]
        for _ in range(n_car):
            v = self.carried_init(scope, r.choice(kinds), bounds)
            if v not in inits:
                inits.append(v)
        for v in inits:
            v.consumed = True
            if v in scope.vals:
                scope.vals.remove(v)  # dies at the loop (its pre-allocated register stays held by the tuple)
        natural = r.random() < c["p_natural"]
        iv_reg = self.maybe_pre(scope, "i") if r.random() < 0.3 else None
        body = Scope(scope)
        iv = Val(self.fresh("iv"), "i", iv_reg, body, is_arg=2)
        args = [Val(self.fresh("ca"), v.kind, v.reg, body, is_arg=True) for v in inits]
        body.vals.extend([iv] + args)
        res = [Val(self.fresh("lr"), v.kind, v.reg, scope) for v in inits]
        head = (", ".join(q.name for q in res) + " = ") if res else ""
        it = f" iter_args({', '.join(f'{a.name} = {v.name}' for a, v in zip(args, inits))}) -> ({', '.join(self.vty(v) for v in inits)})" if inits else ""
        self.emit(f"{head}riscv_scf.for {iv.name} : {self.vty(iv)} = {lb.name} to {ub.name} step {step_txt}{it} {{")
        self.indent += 1
        self.body(body, depth + 1, r.randint(1, c["body_size"]))
        ys = self.make_yields(body, args, natural, scope)
        if ys:
            self.emit(f"riscv_scf.yield {', '.join(y.name for y in ys)} : {', '.join(self.vty(y) for y in ys)}")
        else:
            self.emit("riscv_scf.yield")
        self.indent -= 1
        self.emit("}")
        self.release_scope(body)
        scope.vals.extend(res)
        self.features.add("for")
        if natural:
            self.features.add("for-natural-yield")
        if depth >= 1:
            self.features.add("nested-for")

    # ---- directed loop nests: one register carries a value through 2-3 nested loops
    def chain_nest(self, scope, depth, levels):
        """Outer loop whose carried value %acc is turned into the inner loop's initial value by an op of the outer
        body (%start = op(%acc, %other): %acc dies there), the inner loop's result is yielded by the outer loop: all of
        them are tied into one register, which is therefore reserved once per nesting level.  Other values are
        defined above %start and between %start and the inner loop (they are allocated after the inner body, while
        the outer accumulator is still live)."""
        kind = "f" if (self.cfg["floats"] and self.rng.random() < 0.25) else "i"
        init = self.carried_init(scope, kind)
        self._chain_loop(scope, depth, levels, init, kind)
        self.features.add(f"chained-nest-{levels}")

    def _chain_op(self, scope, acc, kind, prefix):
        r = self.rng
        nm = self.fresh(prefix)
        q = r.random()
        if q < 0.15:
            op = "riscv.mv" if kind == "i" else "riscv.fmv.d"
            self.emit(f"{nm} = {op} {acc.name} : ({self.vty(acc)}) -> {self.ty(kind)}")
        else:
            other = self.need(scope, kind)
            op = r.choice(["add", "xor", "sub", "mul", "or"]) if kind == "i" else r.choice(["fadd.d", "fmul.s", "fsub.s"])
            a, b = (acc, other) if r.random() < 0.6 else (other, acc)
            self.emit(f"{nm} = riscv.{op} {a.name}, {b.name} : ({self.vty(a)}, {self.vty(b)}) -> {self.ty(kind)}")
        acc.consumed = True
        return Val(nm, kind, None, scope)

    def _chain_loop(self, scope, depth, levels, init, kind):
        r = self.rng
        lbv, stepv = r.choice([0, 0, 1]), r.choice([1, 1, 2])
        trip = r.choice([1, 2, 3] if depth == 0 else [1, 2])
        lb = self.const(scope, "i", lbv)
        ub = self.const(scope, "i", lbv + trip * stepv)
        if r.random() < 0.4:
            st = self.const(scope, "i", stepv)
            step_txt = st.name
        else:
            step_txt = f"{stepv} : si12"
        init.consumed = True
        if init in scope.vals:
            scope.vals.remove(init)
        body = Scope(scope)
        iv = Val(self.fresh("iv"), "i", None, body, is_arg=2)
        acc = Val(self.fresh("acc"), kind, init.reg, body, is_arg=True)  # hidden from the random statements
        body.vals.append(iv)
        res = Val(self.fresh("nr"), kind, init.reg, scope)
        self.emit(f"{res.name} = riscv_scf.for {iv.name} : !riscv.reg = {lb.name} to {ub.name} step {step_txt} "
                  f"iter_args({acc.name} = {init.name}) -> ({self.vty(init)}) {{")
        self.indent += 1
        self.body(body, depth + 1, r.randint(0, 3))
        if levels > 1:
            start = self._chain_op(body, acc, kind, "start")
            if acc.reg is not None:  # keep the pre-assigned register of the tuple
                nm = self.fresh("start")
                op = "riscv.mv" if kind == "i" else "riscv.fmv.d"
                self.emit(f"{nm} = {op} {start.name} : ({self.vty(start)}) -> {self.ty(kind, acc.reg)}")
                start = Val(nm, kind, acc.reg, body)
            self.body(body, depth + 1, r.randint(0, 2))
            y = self._chain_loop(body, depth + 1, levels - 1, start, kind)
            body.vals.remove(y)
            self.body(body, depth + 1, r.randint(0, 2))
        else:
            self.body(body, depth + 1, r.randint(0, 2))
            y = self._chain_op(body, acc, kind, "next")
            if acc.reg is not None:
                nm = self.fresh("next")
                op = "riscv.mv" if kind == "i" else "riscv.fmv.d"
                self.emit(f"{nm} = {op} {y.name} : ({self.vty(y)}) -> {self.ty(kind, acc.reg)}")
                y = Val(nm, kind, acc.reg, body)
        self.emit(f"riscv_scf.yield {y.name} : {self.vty(y)}")
        self.indent -= 1
        self.emit("}")
        self.release_scope(body)
        scope.vals.append(res)
        self.features.add("for")
        if depth >= 1:
            self.features.add("nested-for")
        return res

    def frep(self, scope, depth):
        r = self.rng
        n = self.const(scope, "i", r.choice([0, 1, 2, 3]))
        if self.pick(scope, "f") is None:
            self.const(scope, "f")
        n_car = r.choice([0, 1, 1, 2, 3])
        inits = []
        for _ in range(n_car):
            v = self.carried_init(scope, "f", [n])
            if v not in inits:
                inits.append(v)
        for v in inits:
            v.consumed = True
            if v in scope.vals:
                scope.vals.remove(v)
        if not [v for v in scope.visible() if v.kind == "f" and v.reg is None]:
            self.const(scope, "f")  # the body may only contain FPU instructions: its operands come from outside
        body = Scope(scope)
        args = [Val(self.fresh("fa"), "f", v.reg, body, is_arg=True) for v in inits]
        body.vals.extend(args)
        res = [Val(self.fresh("fr"), "f", v.reg, scope) for v in inits]
        head = (", ".join(q.name for q in res) + " = ") if res else ""
        it = f" iter_args({', '.join(f'{a.name} = {v.name}' for a, v in zip(args, inits))}) -> ({', '.join(self.vty(v) for v in inits)})" if inits else ""
        self.emit(f"{head}riscv_snitch.frep_outer {n.name}{it} {{")
        self.indent += 1
        saved = self.cfg
        self.cfg = dict(saved, weights={k: w for k, w in saved["weights"].items() if k in ("fbin", "fun", "fter", "snitchbin", "vfmac")})
        for _ in range(r.randint(1, 4)):
            self.stmt(body, self.cfg["max_depth"])
        self.cfg = saved
        natural = r.random() < saved["p_natural"]
        ys = self.make_yields(body, args, natural, Scope())
        if ys:
            self.emit(f"riscv_snitch.frep_yield {', '.join(y.name for y in ys)} : {', '.join(self.vty(y) for y in ys)}")
        self.indent -= 1
        self.emit("}")
        self.release_scope(body)
        scope.vals.extend(res)
        self.features.add("frep")

    def while_(self, scope):
        """riscv_scf.while is not register-allocatable in xDSL (counted as incomplete allocation by the check)."""
        r = self.rng
        x = self.xl
        init = self.tied_source(scope, "i")
        init.consumed = True
        if init in scope.vals:
            scope.vals.remove(init)
        lim = self.const(scope, "i", r.choice([0, 1, 3]))
        a, b, res = self.fresh("wa"), self.fresh("wb"), self.fresh("wr")
        cnd, nxt = self.fresh("wc"), self.fresh("wn")
        self.emit(f"{res} = riscv_scf.while ({a} = {init.name}) : ({self.vty(init)}) -> (!riscv.reg) {{")
        self.emit(f"  {cnd} = riscv.slt {a}, {lim.name} : ({self.vty(init)}, {self.vty(lim)}) -> !riscv.reg")
        self.emit(f"  riscv_scf.condition({cnd} : !riscv.reg) {a} : {self.vty(init)}")
        self.emit("} do {")
        self.emit(f"^bb0({b} : !riscv.reg):")
        self.emit(f"  {nxt} = riscv.addi {b}, 1 : (!riscv.reg) -> {self.vty(init)}")
        self.emit(f"  riscv_scf.yield {nxt} : {self.vty(init)}")
        self.emit("}")
        scope.vals.append(Val(res, "i", None, scope))
        self.features.add("while")

    def stream_op(self, scope):
        r = self.rng
        if r.random() < 0.5:
            reg = r.choice(["ft0", "ft1"])
            if reg in self.held:
                return
            nm = self.fresh("rd")
            self.emit(f"{nm} = riscv_snitch.read from %stream_{reg} : !riscv.freg<{reg}>")
            # consume immediately: the streaming register is re-defined by the next read
            cp = self.fresh("f")
            self.emit(f"{cp} = riscv.fmv.d {nm} : (!riscv.freg<{reg}>) -> !riscv.freg")
            scope.vals.append(Val(cp, "f", None, scope))
        else:
            s = self.need(scope, "f")
            nm = self.fresh("wv")
            self.emit(f"{nm} = riscv.fmv.d {s.name} : ({self.vty(s)}) -> !riscv.freg<ft2>")
            self.emit(f"riscv_snitch.write {nm} to %stream_ft2 : !riscv.freg<ft2>")
        self.features.add("stream-rw")

    # ---- whole function
    def function(self):
        r = self.rng
        c = self.cfg
        self.xl = c["xlen"]
        top = Scope()
        ni, nf = c["n_int_args"], (c["n_float_args"] if c["floats"] else 0)
        args = []
        for i in range(ni):
            v = Val(f"%a{i}", "i", f"a{i}", top, is_arg=True)
            self.hold(top, v.reg)
            top.vals.append(v)
            args.append(v)
        for i in range(nf):
            v = Val(f"%fa{i}", "f", f"fa{i}", top, is_arg=True)
            self.hold(top, v.reg)
            top.vals.append(v)
            args.append(v)
        if c.get("stream"):
            self.features.add("stream")
            for q in ("ft0", "ft1", "ft2"):
                self.held.add(q)
            self.emit('%stream_ft0 = "test.op"() : () -> !snitch.readable<!riscv.freg<ft0>>')
            self.emit('%stream_ft1 = "test.op"() : () -> !snitch.readable<!riscv.freg<ft1>>')
            self.emit('%stream_ft2 = "test.op"() : () -> !snitch.writable<!riscv.freg<ft2>>')
        # the probe's habit: copy arguments out of the ABI registers (most of the time)
        for v in list(args):
            if r.random() < 0.7:
                nm = self.fresh("m")
                op = "riscv.mv" if v.kind == "i" else "riscv.fmv.d"
                self.emit(f"{nm} = {op} {v.name} : ({self.vty(v)}) -> {self.ty(v.kind)}")
                top.vals.append(Val(nm, v.kind, None, top))
                if r.random() < 0.6:
                    top.vals.remove(v)  # never used again (register stays held: it is an argument)
        for _ in range(c["size"]):
            self.stmt(top, 0)
        # sink: keep many values live until here
        rest = [v for v in top.vals]
        r.shuffle(rest)
        if c["sink"] and rest:
            if r.random() < 0.5:
                for i in range(0, len(rest), 6):
                    self.observe(rest[i:i + 6])
            else:
                acc = {"i": None, "f": None}
                for v in rest:
                    a = acc[v.kind]
                    if a is None:
                        acc[v.kind] = v
                        continue
                    nm = self.fresh("s")
                    op = "riscv.xor" if v.kind == "i" else "riscv.fadd.d"
                    self.emit(f"{nm} = {op} {a.name}, {v.name} : ({self.vty(a)}, {self.vty(v)}) -> {self.ty(v.kind)}")
                    acc[v.kind] = Val(nm, v.kind, None, top)
                for kk in "if":
                    if acc[kk] is not None and acc[kk] not in top.vals:
                        top.vals.append(acc[kk])
        # returns: sources are unallocated values only (pre-allocated ones may sit in a return register)
        rets = []
        n_iret = r.choice([0, 1, 1, 2])
        n_fret = r.choice([0, 1]) if c["floats"] else 0
        srcs = []
        for k in range(n_iret):
            s = self.pick(top, "i", unalloc_only=True) or self.const(top, "i")
            srcs.append((s, "i", f"a{k}"))
        for k in range(n_fret):
            s = self.pick(top, "f", unalloc_only=True) or self.const(top, "f")
            srcs.append((s, "f", f"fa{k}"))
        for s, kind, reg in srcs:
            nm = self.fresh("ret")
            op = "riscv.mv" if kind == "i" else "riscv.fmv.d"
            self.emit(f"{nm} = {op} {s.name} : ({self.vty(s)}) -> {self.ty(kind, reg)}")
            rets.append((nm, self.ty(kind, reg)))
        if rets:
            self.emit(f"riscv_func.return {', '.join(n for n, _ in rets)} : {', '.join(t for _, t in rets)}")
        else:
            self.emit("riscv_func.return")
        sig = ", ".join(f"{v.name}: {self.vty(v)}" for v in args)
        rsig = ""
        if rets:
            rsig = " -> " + (rets[0][1] if len(rets) == 1 else "(" + ", ".join(t for _, t in rets) + ")")
        text = f"riscv_func.func @f({sig}){rsig} {{\n" + "\n".join(self.lines) + "\n}\n"
        return {"arch": "riscv", "xlen": self.xl, "text": text, "n_int_args": ni, "n_float_args": nf,
                "features": sorted(self.features), "max_visible": self.max_visible}


RV_WEIGHTS = {"const": 8, "mvzero": 2, "getzero": 1, "un": 6, "bin": 22, "imm": 8, "fbin": 8, "fun": 2, "fter": 3,
              "fcmp": 2, "f2i": 3, "i2f": 4, "snitchbin": 2, "store": 3, "load": 2, "observe": 4, "inout": 5,
              "vfmac": 3, "pmov": 2, "loop": 5, "nest": 1.5, "frep": 1.5, "while": 0.3, "stream": 2}


def rv_config(rng):
    floats = rng.random() < 0.6
    w = dict(RV_WEIGHTS)
    if not floats:
        for k in ("fbin", "fun", "fter", "fcmp", "f2i", "i2f", "snitchbin", "vfmac", "frep", "stream"):
            w[k] = 0
    style = rng.random()
    if style < 0.25:  # straight-line arithmetic only (the probe's shape)
        for k in ("loop", "nest", "frep", "while", "inout", "vfmac", "pmov", "stream"):
            w[k] = 0
    elif style < 0.45:  # loop heavy
        w["loop"] *= 3
        w["nest"] *= 3
        w["frep"] *= 2
    elif style < 0.6:  # in/out heavy
        w["inout"] *= 4
        w["vfmac"] *= 3
    return {
        "xlen": rng.choice([32, 32, 64]),
        "floats": floats,
        "n_int_args": rng.randint(0, 4),
        "n_float_args": rng.randint(0, 2),
        "size": rng.choice([3, 6, 10, 16, 25, 40, 70]),
        "pressure": rng.choice([3, 5, 8, 12, 16, 24, 40, 60]),
        "p_pre": rng.choice([0.0, 0.03, 0.1, 0.25]),
        "p_natural": rng.choice([0.0, 0.0, 0.15, 0.5]),
        "max_depth": rng.choice([1, 2, 2, 3]),
        "body_size": rng.choice([2, 4, 8]),
        "sink": rng.random() < 0.7,
        "stream": floats and rng.random() < 0.12,
        "weights": w,
    }


def gen_riscv(rng, cfg=None):
    cfg = cfg or rv_config(rng)
    g = RvGen(rng, cfg)
    out = g.function()
    out["cfg"] = {k: v for k, v in cfg.items() if k != "weights"}
    return out


# ============================================================================================== x86
X86_IN_REGS = ["rdi", "rsi", "rdx", "rcx", "r8", "r9"]
X86_PRE64 = ["rax", "rcx", "rdx", "rbx", "rsi", "rdi", "r8", "r9", "r10", "r11", "r13", "r14", "r15", "r12"]
X86_NAMES = {
    64: {"rax": "rax", "rcx": "rcx", "rdx": "rdx", "rbx": "rbx", "rsi": "rsi", "rdi": "rdi"},
    32: {"rax": "eax", "rcx": "ecx", "rdx": "edx", "rbx": "ebx", "rsi": "esi", "rdi": "edi"},
    16: {"rax": "ax", "rcx": "cx", "rdx": "dx", "rbx": "bx", "rsi": "si", "rdi": "di"},
    8: {"rax": "al", "rcx": "cl", "rdx": "dl", "rbx": "bl", "rsi": "sil", "rdi": "dil"},
}
for _i in range(8, 16):
    X86_NAMES[64][f"r{_i}"] = f"r{_i}"
    X86_NAMES[32][f"r{_i}"] = f"r{_i}d"
    X86_NAMES[16][f"r{_i}"] = f"r{_i}w"
    X86_NAMES[8][f"r{_i}"] = f"r{_i}b"
X86_TY = {64: "!x86.reg64", 32: "!x86.reg32", 16: "!x86.reg16", 8: "!x86.reg8", "y": "!x86.avx2reg", "z": "!x86.avx512reg"}


class X86Gen(_Base):
    """kind = 64 | 32 | 16 | 8 (scalar width) | 'y' (ymm) | 'z' (zmm); reg = canonical 64-bit name / vector index."""

    def cell(self, r):
        return r

    def ty(self, kind, reg=None):
        if reg is None:
            return X86_TY[kind]
        if kind in ("y", "z"):
            return f"{X86_TY[kind]}<{'ymm' if kind == 'y' else 'zmm'}{reg[1:]}>"
        return f"{X86_TY[kind]}<{X86_NAMES[kind][reg]}>"

    def vty(self, v):
        return self.ty(v.kind, v.reg)

    def maybe_pre(self, scope, kind, force=False):
        if not force and self.rng.random() >= self.cfg["p_pre"]:
            return None
        if kind in ("y", "z"):
            cands = [f"v{i}" for i in range(16) if f"v{i}" not in self.held]
        else:
            cands = [q for q in X86_PRE64 if q not in self.held]
        if not cands:
            return None
        q = self.rng.choice(cands)
        self.hold(scope, q)
        self.features.add("prealloc-interior")
        return q

    def skind(self):
        return self.rng.choice(self.cfg["widths"])

    def const(self, scope, kind, value=None):
        r = self.rng
        if kind in ("y", "z"):
            s = self.const(scope, 64, value)
            nm = self.fresh("bc")
            self.emit(f"{nm} = x86.ds.{r.choice(['vpbroadcastq', 'vpbroadcastd'])} {s.name} : ({self.vty(s)}) -> {self.ty(kind)}")
            v = Val(nm, kind, None, scope)
        else:
            k = r.choice([0, 1, -1, 5, 77, 2147483647, -2147483648, 4096]) if value is None else value
            nm = self.fresh("c")
            self.emit(f"{nm} = x86.di.mov {k} : () -> {self.ty(kind)}")
            v = Val(nm, kind, None, scope)
        scope.vals.append(v)
        return v

    def need(self, scope, kind, **kw):
        return self.pick(scope, kind, **kw) or self.const(scope, kind)

    def copy(self, scope, s, reg=None):
        nm = self.fresh("m")
        op = "x86.ds.mov" if s.kind not in ("y", "z") else self.rng.choice(["x86.ds.vmovapd", "x86.ds.vmovaps"])
        self.emit(f"{nm} = {op} {s.name} : ({self.vty(s)}) -> {self.ty(s.kind, reg)}")
        v = Val(nm, s.kind, reg, scope)
        scope.vals.append(v)
        return v

    def tied_source(self, scope, kind, exclude=()):
        v = self.pick(scope, kind, own_only=True)
        if v is not None and self.rng.random() < 0.7 and v.is_arg != 2 and v not in exclude:
            return v
        return self.copy(scope, self.need(scope, kind))

    def tied_op(self, scope, src, text_fn, new_prefix="t"):
        nm = self.fresh(new_prefix)
        self.emit(f"{nm} = " + text_fn(self.vty(src)))
        src.consumed = True
        if src in scope.vals:
            scope.vals.remove(src)
        scope.vals.append(Val(nm, src.kind, src.reg, scope))

    def stmt(self, scope, depth):
        r = self.rng
        c = self.cfg
        w = c["weights"]
        kinds = list(w)
        k = r.choices(kinds, [w[q] for q in kinds])[0]
        if k == "const":
            self.const(scope, self.skind())
        elif k == "mov":
            kind = self.skind()
            s = self.need(scope, kind)
            self.copy(scope, s, self.maybe_pre(scope, kind))
        elif k == "rs":
            kind = self.skind()
            a = self.tied_source(scope, kind)
            b = a if r.random() < 0.1 else self.need(scope, kind)
            op = r.choice(["add", "sub", "imul", "and", "or", "xor"])
            if kind == 8 and op == "imul":
                op = "add"
            self.tied_op(scope, a, lambda t: f"x86.rs.{op} {a.name}, {b.name} : ({t}, {self.vty(b)}) -> {t}")
            self.features.add("two-address")
        elif k == "r":
            kind = self.skind()
            a = self.tied_source(scope, kind)
            op = r.choice(["neg", "not", "inc", "dec"])
            self.tied_op(scope, a, lambda t: f"x86.r.{op} {a.name} : ({t}) -> {t}")
            self.features.add("two-address")
        elif k == "ri":
            kind = self.skind()
            a = self.tied_source(scope, kind)
            op = r.choice(["add", "sub", "and", "or", "xor"])
            self.tied_op(scope, a, lambda t: f"x86.ri.{op} {a.name}, {r.choice([1, -1, 12, 255, -4096])} : ({t}) -> {t}")
            self.features.add("two-address")
        elif k == "dsi":
            kind = r.choice([q for q in c["widths"] if q != 8] or [64])
            a = self.need(scope, kind)
            reg = self.maybe_pre(scope, kind)
            nm = self.fresh("v")
            self.emit(f"{nm} = x86.dsi.imul {a.name}, {r.choice([2, 3, -5, 10])} : ({self.vty(a)}) -> {self.ty(kind, reg)}")
            scope.vals.append(Val(nm, kind, reg, scope))
        elif k == "simul" and "rax" not in self.held and "rdx" not in self.held:
            s = self.need(scope, 64)
            a = self.need(scope, 64)
            self.hold(scope, "rax")
            self.hold(scope, "rdx")
            ra = self.copy(scope, a, "rax")
            hi, lo = self.fresh("hi"), self.fresh("lo")
            self.emit(f"{hi}, {lo} = x86.s.imul {s.name}, {ra.name} : ({self.vty(s)}, !x86.reg64<rax>) -> (!x86.reg64<rdx>, !x86.reg64<rax>)")
            scope.vals.remove(ra)
            vh, vl = Val(hi, 64, "rdx", scope), Val(lo, 64, "rax", scope)
            scope.vals.extend([vh, vl])
            # copy out and retire, so that rax/rdx become free again
            for q in (vh, vl):
                if r.random() < 0.8:
                    self.copy(scope, q)
                self.retire(scope, q)
            self.features.add("fixed-rax-rdx")
        elif k == "vec":
            kind = r.choice(c["vecs"]) if c["vecs"] else None
            if kind is None:
                self.const(scope, self.skind())
            else:
                a, b = self.need(scope, kind), self.need(scope, kind)
                op = r.choice(["vaddpd", "vaddps", "vxorpd", "vxorps", "vpxord", "vpxorq"]) if kind == "z" else r.choice(["vaddpd", "vaddps", "vxorpd", "vxorps"])
                reg = self.maybe_pre(scope, kind)
                nm = self.fresh("x")
                self.emit(f"{nm} = x86.dss.{op} {a.name}, {b.name} : ({self.vty(a)}, {self.vty(b)}) -> {self.ty(kind, reg)}")
                scope.vals.append(Val(nm, kind, reg, scope))
                self.features.add("vector")
        elif k == "fma":
            kind = r.choice(c["vecs"]) if c["vecs"] else None
            if kind is None:
                self.const(scope, self.skind())
            else:
                acc = self.tied_source(scope, kind)
                a, b = self.need(scope, kind), self.need(scope, kind)
                op = r.choice(["vfmadd231pd", "vfmadd231ps"])
                self.tied_op(scope, acc, lambda t: f"x86.rss.{op} {acc.name}, {a.name}, {b.name} : ({t}, {self.vty(a)}, {self.vty(b)}) -> {t}", "acc")
                self.features.add("vector-fma-inout")
        elif k == "observe":
            vs = [self.need(scope, r.choice(c["widths"] + c["vecs"])) for _ in range(r.randint(1, 4))]
            self.observe(vs)
        elif k == "inout":
            self.inout(scope)
        elif k == "pmov":
            n = r.randint(1, 4)
            srcs = [self.need(scope, r.choice(c["widths"] + c["vecs"])) for _ in range(n)]
            outs = [(self.fresh("p"), s.kind, self.maybe_pre(scope, s.kind) if r.random() < 0.4 else None) for s in srcs]
            self.emit(f'{", ".join(o[0] for o in outs)} = x86.parallel_mov {", ".join(s.name for s in srcs)} : '
                      f'({", ".join(self.vty(s) for s in srcs)}) -> ({", ".join(self.ty(o[1], o[2]) for o in outs)})')
            for nm, kind, reg in outs:
                scope.vals.append(Val(nm, kind, reg, scope))
            self.features.add("parallel-mov")
        elif k == "loop" and depth < c["max_depth"]:
            self.loop(scope, depth)
        elif k == "nest" and depth == 0:
            self.chain_nest(scope, depth, r.choice([2, 2, 3]))
        else:
            self.const(scope, self.skind())
        self.trim(scope)

    observe = RvGen.observe

    def inout(self, scope):
        r = self.rng
        allk = self.cfg["widths"] + self.cfg["vecs"]
        n_in, n_io, n_out = r.randint(0, 3), r.randint(1, 2), r.randint(0, 2)
        ios = []
        for _ in range(n_io):
            v = self.tied_source(scope, r.choice(allk))
            if v not in ios:
                ios.append(v)
        ins = [self.need(scope, r.choice(allk)) for _ in range(n_in)]
        outs = []
        for _ in range(n_out):
            kind = r.choice(allk)
            outs.append((self.fresh("o"), kind, self.maybe_pre(scope, kind)))
        ionew = [(self.fresh("io"), v) for v in ios]
        names = [o[0] for o in outs] + [n for n, _ in ionew]
        rtys = [self.ty(o[1], o[2]) for o in outs] + [self.vty(v) for _, v in ionew]
        opnds = ins + ios
        self.emit(f'{", ".join(names)} = "test.allocatable"({", ".join(v.name for v in opnds)}) '
                  f'{{operandSegmentSizes = array<i32: {len(ins)}, {len(ios)}>, resultSegmentSizes = array<i32: {len(outs)}, {len(ionew)}>}} '
                  f': ({", ".join(self.vty(v) for v in opnds)}) -> ({", ".join(rtys)})')
        for nm, kind, reg in outs:
            scope.vals.append(Val(nm, kind, reg, scope))
        for nm, v in ionew:
            v.consumed = True
            if v in scope.vals:
                scope.vals.remove(v)
            scope.vals.append(Val(nm, v.kind, v.reg, scope))
        self.features.add("inout")

    def loop(self, scope, depth):
        r = self.rng
        c = self.cfg
        ivk = r.choice([q for q in c["widths"] if q in (64, 32)] or [64])
        lbv = r.choice([0, 0, 1, -2])
        trip = r.choice([0, 1, 2, 2, 3, 4] if depth == 0 else [0, 1, 2, 2])
        stepv = r.choice([1, 1, 2, 3])
        ubv = lbv + trip * stepv - (r.randint(0, stepv - 1) if trip else 0)
        lb = self.const(scope, ivk, lbv)  # fresh: dies at the loop (in/out with the induction variable)
        scope.vals.remove(lb)
        bounds = []
        if r.random() < 0.5:
            ub = self.const(scope, ivk, ubv)
            ub_txt = ub.name
            bounds.append(ub)
        else:
            ub_txt = f"{ubv} : si32"
        if r.random() < 0.5:
            st = self.const(scope, ivk, stepv)
            st_txt = st.name
            bounds.append(st)
        else:
            st_txt = f"{stepv} : si32"
        allk = c["widths"] + c["vecs"]
        inits = []
        for _ in range(r.choice([0, 1, 1, 2, 3])):
            v = self.tied_source(scope, r.choice(allk), bounds)
            if v not in inits:
                inits.append(v)
        for v in inits:
            v.consumed = True
            if v in scope.vals:
                scope.vals.remove(v)
        natural = r.random() < c["p_natural"]
        body = Scope(scope)
        iv = Val(self.fresh("iv"), ivk, None, body, is_arg=2)
        args = [Val(self.fresh("ca"), v.kind, v.reg, body, is_arg=True) for v in inits]
        body.vals.extend([iv] + args)
        lb_end = Val(self.fresh("le"), ivk, None, scope)
        res = [Val(self.fresh("lr"), v.kind, v.reg, scope) for v in inits]
        it = f" iter_args({', '.join(f'{a.name} = {v.name}' for a, v in zip(args, inits))}) -> ({', '.join(self.vty(v) for v in inits)})" if inits else ""
        self.emit(f"{', '.join(q.name for q in [lb_end] + res)} = x86_scf.for {iv.name} : {self.vty(iv)} = {lb.name} to {ub_txt} step {st_txt}{it} {{")
        self.indent += 1
        for _ in range(r.randint(1, c["body_size"])):
            self.stmt(body, depth + 1)
        ys = []
        for a in args:
            pool = [v for v in body.vals if v.kind == a.kind and v.reg is None and v not in ys and not v.is_arg]
            if natural and pool and a.reg is None and r.random() < 0.6:
                ys.append(r.choice(pool))
                self.features.add("yield-body-value")
                continue
            if r.random() < c.get('p_passthrough', 0.06) and not a.consumed:
                ys.append(a)
                continue
            safe = [v for v in body.visible() if v.kind == a.kind and (not v.is_arg or v is a) and v.reg is None]
            if not safe:
                safe = [self.const(body, a.kind)]
            s = r.choice(safe)
            nm = self.fresh("y")
            op = "x86.ds.mov" if a.kind not in ("y", "z") else "x86.ds.vmovapd"
            self.emit(f"{nm} = {op} {s.name} : ({self.vty(s)}) -> {self.ty(a.kind, a.reg)}")
            ys.append(Val(nm, a.kind, a.reg, body))
        if ys:
            self.emit(f"x86_scf.yield {', '.join(y.name for y in ys)} : {', '.join(self.vty(y) for y in ys)}")
        else:
            self.emit("x86_scf.yield")
        self.indent -= 1
        self.emit("}")
        self.release_scope(body)
        scope.vals.extend([lb_end] + res)
        self.features.add("for")
        if natural:
            self.features.add("for-natural-yield")
        if depth >= 1:
            self.features.add("nested-for")

    def chain_nest(self, scope, depth, levels):
        """x86 version of RvGen.chain_nest (one register carried through 2-3 nested x86_scf.for loops)."""
        kind = self.rng.choice([q for q in self.cfg["widths"] if q in (64, 32)] or [64])
        init = self.tied_source(scope, kind)
        self._chain_loop(scope, depth, levels, init, kind)
        self.features.add(f"chained-nest-{levels}")

    def _chain_op(self, scope, acc, kind, prefix):
        r = self.rng
        nm = self.fresh(prefix)
        if r.random() < 0.3:
            self.emit(f"{nm} = x86.ds.mov {acc.name} : ({self.vty(acc)}) -> {self.ty(kind, acc.reg)}")
        else:
            other = self.need(scope, kind)
            op = r.choice(["add", "sub", "xor", "or", "imul"])
            self.emit(f"{nm} = x86.rs.{op} {acc.name}, {other.name} : ({self.vty(acc)}, {self.vty(other)}) -> {self.vty(acc)}")
        acc.consumed = True
        return Val(nm, kind, acc.reg, scope)

    def _chain_loop(self, scope, depth, levels, init, kind):
        r = self.rng
        ivk = r.choice([q for q in self.cfg["widths"] if q in (64, 32)] or [64])
        lbv, stepv = r.choice([0, 0, 1]), r.choice([1, 1, 2])
        trip = r.choice([1, 2, 3] if depth == 0 else [1, 2])
        lb = self.const(scope, ivk, lbv)
        scope.vals.remove(lb)
        if r.random() < 0.5:
            ub_txt = self.const(scope, ivk, lbv + trip * stepv).name
        else:
            ub_txt = f"{lbv + trip * stepv} : si32"
        st_txt = self.const(scope, ivk, stepv).name if r.random() < 0.4 else f"{stepv} : si32"
        init.consumed = True
        if init in scope.vals:
            scope.vals.remove(init)
        body = Scope(scope)
        iv = Val(self.fresh("iv"), ivk, None, body, is_arg=2)
        acc = Val(self.fresh("acc"), kind, init.reg, body, is_arg=True)
        body.vals.append(iv)
        lb_end = Val(self.fresh("le"), ivk, None, scope)
        res = Val(self.fresh("nr"), kind, init.reg, scope)
        self.emit(f"{lb_end.name}, {res.name} = x86_scf.for {iv.name} : {self.vty(iv)} = {lb.name} to {ub_txt} step {st_txt} "
                  f"iter_args({acc.name} = {init.name}) -> ({self.vty(init)}) {{")
        self.indent += 1
        for _ in range(r.randint(0, 3)):
            self.stmt(body, depth + 1)
        if levels > 1:
            start = self._chain_op(body, acc, kind, "start")
            for _ in range(r.randint(0, 2)):
                self.stmt(body, depth + 1)
            y = self._chain_loop(body, depth + 1, levels - 1, start, kind)
            body.vals.remove(y)
            for _ in range(r.randint(0, 2)):
                self.stmt(body, depth + 1)
        else:
            for _ in range(r.randint(0, 2)):
                self.stmt(body, depth + 1)
            y = self._chain_op(body, acc, kind, "next")
        self.emit(f"x86_scf.yield {y.name} : {self.vty(y)}")
        self.indent -= 1
        self.emit("}")
        self.release_scope(body)
        scope.vals.extend([lb_end, res])
        self.features.add("for")
        if depth >= 1:
            self.features.add("nested-for")
        return res

    def function(self):
        r = self.rng
        c = self.cfg
        top = Scope()
        inputs = []
        for q in X86_IN_REGS[:c["n_inputs"]]:
            nm = self.fresh("in")
            self.emit(f"{nm} = x86.get_register : !x86.reg64<{q}>")
            v = Val(nm, 64, q, top, is_arg=True)
            self.hold(top, q)
            top.vals.append(v)
            inputs.append(q)
        for v in list(top.vals):
            if r.random() < 0.8:
                self.copy(top, v)
                if r.random() < 0.6:
                    top.vals.remove(v)
        for _ in range(c["size"]):
            self.stmt(top, 0)
        rest = list(top.vals)
        r.shuffle(rest)
        if c["sink"]:
            for i in range(0, len(rest), 6):
                self.observe(rest[i:i + 6])
        s = self.pick(top, 64, unalloc_only=True) or self.const(top, 64)
        if "rax" not in self.held or True:
            nm = self.fresh("ret")
            self.emit(f"{nm} = x86.ds.mov {s.name} : ({self.vty(s)}) -> !x86.reg64<rax>")
            self.emit(f'"test.allocatable"({nm}) {{operandSegmentSizes = array<i32: 1, 0>, resultSegmentSizes = array<i32: 0, 0>}} : (!x86.reg64<rax>) -> ()')
        self.emit("x86_func.ret")
        text = "x86_func.func @f() {\n" + "\n".join(self.lines) + "\n}\n"
        return {"arch": "x86", "xlen": 64, "text": text, "inputs": inputs, "features": sorted(self.features),
                "max_visible": self.max_visible}


X86_WEIGHTS = {"const": 6, "mov": 8, "rs": 20, "r": 6, "ri": 8, "dsi": 4, "simul": 2, "vec": 6, "fma": 4, "observe": 4,
               "inout": 4, "pmov": 2, "loop": 5, "nest": 1.2}


def x86_config(rng):
    w = dict(X86_WEIGHTS)
    style = rng.random()
    if style < 0.25:
        for k in ("loop", "nest", "inout", "pmov", "simul"):
            w[k] = 0
    elif style < 0.45:
        w["loop"] *= 3
        w["nest"] *= 3
    widths = rng.choice([[64], [64], [64, 32], [64, 32], [32], [64, 32, 16, 8]])
    vecs = rng.choice([[], [], ["y"], ["z"], ["y", "z"]])
    if not vecs:
        w["vec"] = w["fma"] = 0
    return {
        "widths": widths, "vecs": vecs,
        "n_inputs": rng.randint(0, 4),
        "size": rng.choice([3, 6, 10, 16, 25, 40]),
        "pressure": rng.choice([3, 5, 8, 12, 16, 24]),
        "p_pre": rng.choice([0.0, 0.03, 0.1, 0.2]),
        "p_natural": rng.choice([0.0, 0.0, 0.15, 0.5]),
        "max_depth": rng.choice([1, 2, 2]),
        "body_size": rng.choice([2, 4, 8]),
        "sink": rng.random() < 0.7,
        "weights": w,
    }


def gen_x86(rng, cfg=None):
    cfg = cfg or x86_config(rng)
    g = X86Gen(rng, cfg)
    out = g.function()
    out["cfg"] = {k: v for k, v in cfg.items() if k != "weights"}
    return out


# ============================================================================================== scf -> riscv
SCF_BIN = ["addi", "subi", "muli", "andi", "ori", "xori", "shli", "shrui", "shrsi", "divui", "divsi", "remui", "remsi"]
SCF_FBIN = ["addf", "subf", "mulf", "divf"]


class ScfGen:
    """Small func/arith/scf.for programs (i32 / f32) whose lowering by xDSL's own riscv passes
    (convert-func-to-riscv-func, convert-scf-to-riscv-scf, convert-arith-to-riscv, reconcile-unrealized-casts)
    is the input of the allocator: "arith-lowered code" with whatever yields the source program has."""

    def __init__(self, rng, cfg):
        self.rng, self.cfg, self.n, self.lines = rng, cfg, 0, []

    def fresh(self):
        self.n += 1
        return f"%s{self.n}"

    def emit(self, ind, s):
        self.lines.append("  " * ind + s)

    def pick(self, vals, ty):
        c = [v for v, t in vals if t == ty]
        if not c:
            nm = self.fresh()
            if ty == "i32":
                self.emit(self.ind, f"{nm} = arith.constant {self.rng.choice([0, 1, -1, 7, 100000, -2147483648])} : i32")
            else:
                self.emit(self.ind, f"{nm} = arith.constant {self.rng.choice(['0.0', '1.5', '-2.25', '3.0e+10'])} : f32")
            vals.append((nm, ty))
            return nm
        return self.rng.choice(c[-6:] if self.rng.random() < 0.5 else c)

    def stmts(self, vals, n, depth):
        r = self.rng
        tys = ["i32", "i32", "f32"] if self.cfg["floats"] else ["i32"]
        for _ in range(n):
            q = r.random()
            if q < 0.15:
                ty = r.choice(tys)
                nm = self.fresh()
                if ty == "i32":
                    self.emit(self.ind, f"{nm} = arith.constant {r.choice([0, 0, 1, -1, 5, 255, 2147483647])} : i32")
                else:
                    self.emit(self.ind, f"{nm} = arith.constant {r.choice(['0.0', '1.0', '-0.5', '2.5e+3'])} : f32")
                vals.append((nm, ty))
            elif q < 0.85 or depth >= self.cfg["max_depth"]:
                ty = r.choice(tys)
                a, b = self.pick(vals, ty), self.pick(vals, ty)
                nm = self.fresh()
                op = r.choice(SCF_BIN if ty == "i32" else SCF_FBIN)
                self.emit(self.ind, f"{nm} = arith.{op} {a}, {b} : {ty}")
                vals.append((nm, ty))
            else:
                self.loop(vals, depth)

    def loop(self, vals, depth):
        r = self.rng
        lb, ub, st = self.fresh(), self.fresh(), self.fresh()
        lbv, stepv = r.choice([0, 0, 1]), r.choice([1, 1, 2])
        trip = r.choice([0, 1, 2, 3] if depth == 0 else [0, 1, 2])
        self.emit(self.ind, f"{lb} = arith.constant {lbv} : index")
        self.emit(self.ind, f"{ub} = arith.constant {lbv + trip * stepv} : index")
        self.emit(self.ind, f"{st} = arith.constant {stepv} : index")
        tys = ["i32", "i32", "f32"] if self.cfg["floats"] else ["i32"]
        car = [r.choice(tys) for _ in range(r.choice([1, 1, 2, 2, 3]))]
        inits = [self.pick(vals, t) for t in car]
        iv = self.fresh()
        args = [self.fresh() for _ in car]
        res = [self.fresh() for _ in car]
        self.emit(self.ind, f"{', '.join(res)} = scf.for {iv} = {lb} to {ub} step {st} iter_args("
                  + ", ".join(f"{a} = {i}" for a, i in zip(args, inits)) + f") -> ({', '.join(car)}) {{")
        self.ind += 1
        inner = list(vals) + list(zip(args, car))
        if r.random() < 0.5:
            c = self.fresh()
            self.emit(self.ind, f"{c} = arith.index_cast {iv} : index to i32")
            inner.append((c, "i32"))
        self.stmts(inner, r.randint(1, self.cfg["body_size"]), depth + 1)
        ys = [self.pick(inner, t) for t in car]  # any visible value: block arguments of any position, outer values, ...
        self.emit(self.ind, f"scf.yield {', '.join(ys)} : {', '.join(car)}")
        self.ind -= 1
        self.emit(self.ind, "}")
        vals.extend(zip(res, car))

    def function(self):
        r = self.rng
        nargs = r.randint(1, 3)
        self.ind = 1
        vals = [(f"%arg{i}", "i32") for i in range(nargs)]
        self.stmts(vals, self.cfg["size"], 0)
        nret = r.choice([1, 1, 2])
        rets = [self.pick(vals, "i32") for _ in range(nret)]
        self.emit(1, f"func.return {', '.join(rets)} : {', '.join(['i32'] * nret)}")
        text = (f"func.func @f({', '.join(f'%arg{i}: i32' for i in range(nargs))}) -> ({', '.join(['i32'] * nret)}) {{\n"
                + "\n".join(self.lines) + "\n}\n")
        return text, nargs


def gen_scf(rng):
    cfg = {"floats": rng.random() < 0.3, "size": rng.choice([2, 4, 8, 14]), "body_size": rng.choice([2, 4, 7]),
           "max_depth": rng.choice([1, 2]), "pressure": rng.choice([6, 12])}
    text, nargs = ScfGen(rng, cfg).function()
    return {"arch": "riscv", "xlen": 32, "source": text, "n_int_args": nargs, "n_float_args": 0,
            "features": ["lowered-from-scf"], "cfg": cfg}
