"""c13_ref - independent reference for property C13 (dead-code elimination).

Nothing here calls xDSL's traits / get_effects / PostOrderIterator / is_trivially_dead / use lists: an op is
classified by its *name* through the table below (MLIR's `wouldOpBeTriviallyDead` semantics), uses are found by
scanning `op.operands` of every op of the module, reachable blocks by an own DFS over `last_op.successors`
(the successors of ANY last op, registered terminator or op of an unregistered dialect, are CFG edges).

Effect atoms: "read", "write", "free", "alloc_own" (allocation of one of the op's own results), "alloc_foreign"
(allocation tied to nothing / to a value that is not a result of the op), "unknown" (op declares nothing).
candidate(op)  = not terminator, not symbol, effects*(op) <= {read, alloc_own}
effects*(op)   = own effects, plus (recursive ops) effects* of every op in every block of every region
one round (`one_round`, DESIGN's oracle = one region_dce / runRegionDCE round): live = least set with
    op live <= op sits in a chain of reachable blocks and (not candidate(op) or a result is an operand of a live op);
    survivors = live ops whose ancestors are live (ops nested in an op that is going to be removed still propagate).
complete (`complete`, the property's end state "no removable operation or unreachable block remains"): rounds
    iterated on the shrinking module until a round removes nothing. A second round is needed when a definition was
    only used inside a removed op, or when a recursive op's only observable effect sat in an unreachable block.
precise (`precise_survivors`): least S with op in S <= reachable, parent in S, (not candidate or used by S); equals
    `complete` except for graph-region use-def cycles that pass through a region of one of their members.
trivial fixpoint (what iterated "erase if trivially dead" can remove at most): least R with
    op in R <= candidate(op) and every user of every result is in R or nested in an op of R   (all blocks count).
"""
from __future__ import annotations

# name -> (is_terminator, is_symbol, own effects, recursive)
_P = frozenset()
_R = frozenset(["read"])
_W = frozenset(["write"])
_U = frozenset(["unknown"])
TABLE = {
    "test.pureop": (False, False, _P, False),
    "test.op_with_memread": (False, False, _R, False),
    "test.op_with_memwrite": (False, False, _W, False),
    "test.op": (False, False, _U, False),
    "test.termop": (True, False, _U, False),
    "test.op_with_symbol": (False, True, _U, False),
    # ops defined by the check itself (trait combinations the stock dialects do not offer)
    "c13.sym_pure": (False, True, _P, False),
    "c13.term_pure": (True, False, _P, False),
    "c13.rec": (False, False, _P, True),
    "c13.rec_read": (False, False, _R, True),
    "c13.rec_write": (False, False, _W, True),
    "c13.alloc_own": (False, False, frozenset(["alloc_own"]), False),
    "c13.alloc_other": (False, False, frozenset(["alloc_foreign"]), False),
    "c13.free": (False, False, frozenset(["free"]), False),
    "c13.read_write": (False, False, frozenset(["read", "write"]), False),
    "c13.read_alloc": (False, False, frozenset(["read", "alloc_own"]), False),
    # stock dialects (MLIR semantics)
    "memref.alloc": (False, False, frozenset(["alloc_own"]), False),
    "memref.alloca": (False, False, frozenset(["alloc_own"]), False),
    "memref.load": (False, False, _R, False),
    "memref.store": (False, False, _W, False),
    "memref.dealloc": (False, False, frozenset(["free"]), False),
    "func.func": (False, True, _U, False),
    "func.call": (False, False, _U, False),
    "func.return": (True, False, _P, False),
    "printf.print_format": (False, False, _U, False),
    "scf.if": (False, False, _P, True),
    "scf.for": (False, False, _P, True),
    "scf.while": (False, False, _P, True),
    "scf.yield": (True, False, _P, False),
    "scf.condition": (True, False, _P, False),
    "cf.br": (True, False, _P, False),
    "cf.cond_br": (True, False, _P, False),
    "builtin.module": (False, False, _U, False),
    # op of an unregistered dialect: nothing is known => unknown effects, never removable (and it may be a terminator:
    # its successors count as CFG edges, see _mark_reach)
    "builtin.unregistered": (False, False, _U, False),
    "builtin.unrealized_conversion_cast": (False, False, _P, False),
}
HARMLESS = frozenset(["read", "alloc_own"])

# models of KNOWN wrong behaviour of the unchanged tree (used only to classify a disagreement narrowly)
DEVIATIONS = {
    "extsi": {"arith.extsi": (False, False, _U, False)},
    "remui": {"arith.remui": (False, False, _U, False)},
    "alloc": {"memref.alloc": (False, False, frozenset(["alloc_foreign"]), False),
              "memref.alloca": (False, False, frozenset(["alloc_foreign"]), False)},
}


class NotInTable(Exception):
    pass


def entry(name: str, dev=()):
    for d in dev:
        t = DEVIATIONS.get(d)
        if t and name in t:
            return t[name]
    e = TABLE.get(name)
    if e is not None:
        return e
    if name.startswith("arith."):
        return (False, False, _P, False)
    raise NotInTable(name)


# ------------------------------------------------------------------ snapshot (plain data, taken BEFORE the pass)
class Blk:
    __slots__ = ("owner", "ridx", "idx", "ops", "nargs", "succ", "reach")

    def __init__(self, owner, ridx, idx, nargs):
        self.owner, self.ridx, self.idx, self.nargs = owner, ridx, idx, nargs
        self.ops = []
        self.succ = []
        self.reach = False


class Node:
    __slots__ = ("id", "name", "parent", "blk", "operands", "nres", "regions", "users", "depth")

    def __init__(self, id_, name, parent, blk, nres):
        self.id, self.name, self.parent, self.blk, self.nres = id_, name, parent, blk, nres
        self.operands = []
        self.regions = []
        self.users = []
        self.depth = 0 if parent is None else parent.depth + 1


class Snap:
    def __init__(self):
        self.nodes = []          # pre-order
        self.top = []            # blocks of the module body
        self.by_id = {}


def op_id(op, key):
    a = op.attributes.get(key)
    return None if a is None else a.data


def snapshot(module, key="id") -> Snap:
    """Structure of everything nested in `module` (the module op itself is the root and not a node)."""
    s = Snap()
    valsrc = {}   # id(SSAValue) -> ("r", Node, i) | ("a", Blk, i)
    keep = []     # strong refs for id()-keyed maps
    blkmap = {}
    pending = []  # (Node, op)

    def build_region(region, owner, ridx):
        blks = []
        for bi, b in enumerate(region.blocks):
            bl = Blk(owner, ridx, bi, len(b.args))
            blkmap[id(b)] = bl
            keep.append(b)
            for ai, a in enumerate(b.args):
                valsrc[id(a)] = ("a", bl, ai)
                keep.append(a)
            blks.append(bl)
        for b, bl in zip(region.blocks, blks):
            for op in b.ops:
                i = op_id(op, key)
                if i is None:
                    raise AssertionError(f"op without id attribute: {op.name}")
                if i in s.by_id:
                    raise AssertionError(f"duplicate id {i}")
                n = Node(i, op.name, owner, bl, len(op.results))
                s.by_id[i] = n
                s.nodes.append(n)
                bl.ops.append(n)
                for ri, r in enumerate(op.results):
                    valsrc[id(r)] = ("r", n, ri)
                    keep.append(r)
                pending.append((n, op))
                for k, r in enumerate(op.regions):
                    n.regions.append(build_region(r, n, k))
        return blks

    s.top = build_region(module.regions[0], None, 0)
    for n, op in pending:
        for o in op.operands:
            src = valsrc.get(id(o))
            if src is None:
                raise AssertionError(f"operand of {n.id} defined outside the module")
            n.operands.append(src)
            if src[0] == "r":
                src[1].users.append(n)
    for n, op in pending:
        if op.successors:
            if n.blk.ops[-1] is not n:
                raise AssertionError("successors on a non-final op")
            n.blk.succ = [blkmap[id(b)] for b in op.successors]
    _mark_reach(s.top)
    for n in s.nodes:
        for reg in n.regions:
            _mark_reach(reg)
    return s


def _mark_reach(blks):
    if not blks:
        return
    stack = [blks[0]]
    while stack:
        b = stack.pop()
        if b.reach:
            continue
        b.reach = True
        # any LAST op that lists successors is a CFG edge, whatever the op is (registered terminator or an op of an
        # unregistered dialect, which may be a terminator); `succ` is only ever recorded for the last op of a block
        stack.extend(b.succ)


def regions_needing_unregistered_edges(s):
    """Number of regions in which some block is reachable ONLY through the successors of an unregistered last op."""
    cnt = 0
    regs = [s.top] + [reg for n in s.nodes for reg in n.regions]
    for blks in regs:
        if len(blks) < 2:
            continue
        seen = set()
        stack = [blks[0]]
        while stack:
            b = stack.pop()
            if id(b) in seen:
                continue
            seen.add(id(b))
            if b.ops and b.ops[-1].name != "builtin.unregistered":
                stack.extend(b.succ)
        if any(b.reach and id(b) not in seen for b in blks):
            cnt += 1
    return cnt


def entry_is_term(name):
    return entry(name)[0]


def canon(s: Snap):
    """Structural hash input: names, result counts, operand sources (positional), region/block shape, successors."""
    pos = {n.id: i for i, n in enumerate(s.nodes)}
    out = []
    for n in s.nodes:
        ops = tuple(("r", pos[o[1].id], o[2]) if o[0] == "r"
                    else ("a", -1 if o[1].owner is None else pos[o[1].owner.id], o[1].ridx, o[1].idx, o[2])
                    for o in n.operands)
        out.append((n.name, n.nres, -1 if n.parent is None else pos[n.parent.id], n.blk.ridx, n.blk.idx, ops,
                    tuple(b.idx for b in n.blk.succ) if n.blk.ops[-1] is n else (),
                    tuple(tuple(b.nargs for b in reg) for reg in n.regions)))
    return tuple(out)


# ------------------------------------------------------------------ reference analyses on a snapshot
def effects_star(n: Node, dev=(), memo=None, allblocks=True):
    """allblocks=True: every block of every region counts (MLIR's wouldOpBeTriviallyDead on the IR as it is);
    allblocks=False: only blocks reachable in their region (what is left once unreachable blocks are erased)."""
    if memo is not None and n.id in memo:
        return memo[n.id]
    _t, _s, eff, rec = entry(n.name, dev)
    if rec:
        acc = set(eff)
        for reg in n.regions:
            for b in reg:
                if allblocks or b.reach:
                    for c in b.ops:
                        acc |= effects_star(c, dev, memo, allblocks)
        eff = frozenset(acc)
    if memo is not None:
        memo[n.id] = eff
    return eff


def candidate(n: Node, dev=(), memo=None, allblocks=True) -> bool:
    t, sy, _e, _r = entry(n.name, dev)
    if t or sy:
        return False
    return effects_star(n, dev, memo, allblocks) <= HARMLESS


def why_not(n: Node, dev=(), allblocks=True):
    t, sy, _e, _r = entry(n.name, dev)
    if t:
        return "terminator"
    if sy:
        return "symbol"
    bad = sorted(effects_star(n, dev, None, allblocks) - HARMLESS)
    return "+".join(bad) if bad else None


def precise_survivors(s: Snap, dev=()):
    """Least set closed under 'reachable block, parent kept, and (not candidate or used by a kept op)'; recursive
    effects over reachable blocks only. Stricter than what iterated DCE reaches on graph-region style use-def cycles
    that pass through a region (observation counter only)."""
    memo = {}
    cand = {n.id: candidate(n, dev, memo, allblocks=False) for n in s.nodes}
    live = set()
    changed = True
    while changed:
        changed = False
        for n in s.nodes:
            if n.id in live or not n.blk.reach:
                continue
            if n.parent is not None and n.parent.id not in live:
                continue
            if not cand[n.id] or any(u.id in live for u in n.users):
                live.add(n.id)
                changed = True
    return live


def one_round(s: Snap, alive=None, dev=()):
    """ids left by ONE liveness round (xDSL region_dce / MLIR runRegionDCE after erasing unreachable blocks) applied
    to the module restricted to the ops in `alive`: live = lfp of 'in a reachable block chain and (not candidate or a
    result used by a live op)', where ops nested in ops that are going to be removed still propagate liveness;
    survivors = live ops whose ancestors are live."""
    if alive is None:
        alive = set(s.by_id)
    memo = {}

    def eff(n):
        if n.id in memo:
            return memo[n.id]
        _t, _s, e, rec = entry(n.name, dev)
        if rec:
            acc = set(e)
            for reg in n.regions:
                for b in reg:
                    for c in b.ops:
                        if c.id in alive:
                            acc |= eff(c)
            e = frozenset(acc)
        memo[n.id] = e
        return e

    cand = {}
    vis = {}
    for n in s.nodes:  # pre-order: parents first
        if n.id not in alive:
            continue
        t, sy, _e, _r = entry(n.name, dev)
        cand[n.id] = (not t) and (not sy) and eff(n) <= HARMLESS
        vis[n.id] = n.blk.reach and (n.parent is None or vis.get(n.parent.id, False))
    live = set()
    changed = True
    while changed:
        changed = False
        for n in s.nodes:
            if n.id not in alive or n.id in live or not vis[n.id]:
                continue
            if not cand[n.id] or any(u.id in live for u in n.users):
                live.add(n.id)
                changed = True
    out = set()
    for n in s.nodes:
        if n.id in live and (n.parent is None or n.parent.id in out):
            out.add(n.id)
    return out


def complete(s: Snap, dev=()):
    """ids left when liveness rounds are iterated until nothing is removable any more (the property's end state:
    `one_round` applied to the result removes nothing). Returns (survivors, number of rounds that removed something)."""
    cur = set(s.by_id)
    rounds = 0
    while True:
        nxt = one_round(s, cur, dev)
        if nxt == cur:
            return cur, rounds
        cur = nxt
        rounds += 1


def surviving_blocks(s: Snap, surv: set):
    """{(owner id | 'top', region index): number of reachable blocks} for regions of surviving owners."""
    out = {("top", 0): sum(1 for b in s.top if b.reach)}
    for n in s.nodes:
        if n.id in surv:
            for k, reg in enumerate(n.regions):
                out[(n.id, k)] = sum(1 for b in reg if b.reach)
    return out


def trivially_removable(s: Snap, dev=()):
    """ids removed (with everything nested in them) by iterating 'erase an op that is trivially dead' to a fixpoint."""
    memo = {}
    cand = {n.id: candidate(n, dev, memo) for n in s.nodes}
    gone = set()   # closed under nesting

    def add(n):
        if n.id in gone:
            return
        gone.add(n.id)
        for reg in n.regions:
            for b in reg:
                for c in b.ops:
                    add(c)

    changed = True
    while changed:
        changed = False
        for n in reversed(s.nodes):
            if n.id in gone or not cand[n.id]:
                continue
            if all(u.id in gone for u in n.users):
                add(n)
                changed = True
    return gone


# ------------------------------------------------------------------ reference on LIVE IR objects (for the hooks)
def live_effects(op, memo=None):
    _t, _s, eff, rec = entry(op.name)
    if rec:
        acc = set(eff)
        for r in op.regions:
            for b in r.blocks:
                for c in b.ops:
                    acc |= live_effects(c)
        eff = frozenset(acc)
    return eff


def live_why_not(op):
    """None if `op` would be trivially dead once its results are unused, else the reason (reference)."""
    t, sy, _e, _r = entry(op.name)
    if t:
        return "terminator"
    if sy:
        return "symbol"
    bad = sorted(live_effects(op) - HARMLESS)
    return "+".join(bad) if bad else None


def root_of(op):
    cur = op
    while True:
        b = cur.parent
        if b is None:
            return cur
        r = b.parent
        if r is None:
            return cur
        p = r.parent
        if p is None:
            return cur
        cur = p


def scan_users(op):
    """Ops (anywhere in the region holding `op`, nested regions included) that have a result of `op` as operand -
    found by scanning operands, not through the use lists."""
    res = {id(r) for r in op.results}
    if not res:
        return []
    out = []
    # a value is only visible in the region that holds its defining op (and regions nested in it)
    blk = op.parent
    reg = blk.parent if blk is not None else None
    if reg is None:
        stack = [root_of(op)]
    else:
        stack = [o for b in reg.blocks for o in b.ops]
    while stack:
        o = stack.pop()
        if any(id(x) in res for x in o.operands):
            out.append(o)
        for r in o.regions:
            for b in r.blocks:
                stack.extend(b.ops)
    return out


def collect(module, key="id"):
    """After a pass: (ids present, ops without id, {(owner id|'top', region idx): #blocks}, structural problems)."""
    ids = []
    noid = []
    blocks = {}
    problems = []
    ops_alive = set()
    blks_alive = set()
    keep = []
    allops = []

    def walk_region(region, owner_key, k):
        n = 0
        for b in region.blocks:
            n += 1
            blks_alive.add(id(b))
            keep.append(b)
            for op in b.ops:
                ops_alive.add(id(op))
                allops.append(op)
                i = op_id(op, key)
                if i is None:
                    noid.append(op.name)
                else:
                    ids.append(i)
                for kk, r in enumerate(op.regions):
                    walk_region(r, i, kk)
        if owner_key is not None:
            blocks[(owner_key, k)] = n

    walk_region(module.regions[0], "top", 0)
    for op in allops:
        for o in op.operands:
            ow = o.owner
            if type(ow).__name__ == "Block":
                if id(ow) not in blks_alive:
                    problems.append(("operand-from-removed-block", op.name))
            elif id(ow) not in ops_alive:
                problems.append(("operand-from-removed-op", op.name + "<-" + getattr(ow, "name", "?")))
        for b in op.successors:
            if id(b) not in blks_alive:
                problems.append(("successor-removed", op.name))
    if len(set(ids)) != len(ids):
        problems.append(("duplicate-id-after-pass", ""))
    return set(ids), noid, blocks, problems
