"""x86run - native execution harness for C21: the host CPU is the oracle for ABI behaviour.

* `Native()` creates a `mkdtemp` scratch directory (removed at exit), builds there the C driver
  `x86drv` (xv/x86drv.c + the assembly trampoline xv/x86tramp.S) and the control library `ctl.so`
  (xv/x86ctl.S: hand-written callees with known good / bad ABI behaviour).
* `Native.assemble(tag, [(symbol, asm text), ...])` assembles the units with `as`, attributes every
  rejection to one unit (by line number) and links the accepted ones into one shared object.
* `Native.run(so, [(symbol, nargs, [arg rows]), ...])` performs the calls in a CHILD process
  (`subprocess.run(timeout=)`); a SIGSEGV / SIGILL / hang of generated code kills only the child.  The
  driver prints "S sym" before and "D sym" after the calls of a function, so the culprit is the started but
  unfinished function; it is re-run ALONE in a fresh child to confirm, the remaining functions continue
  in a new child; if the lone re-run does not crash, all functions of the batch are run one at a time.
  With `valgrind=True` the child runs under `valgrind --tool=memcheck`; error blocks are attributed to the
  function whose S/D markers surround them.
* `judge(obs)` turns one trampoline observation into a list of ABI problems.
* `Native.controls()` runs the positive / negative controls and raises `ControlFailure` unless every bad
  callee is flagged with exactly the expected problem and every good callee is clean.

Nothing of xDSL is imported here.
"""
from __future__ import annotations

import atexit
import os
import re
import shutil
import signal
import subprocess
import tempfile

HERE = os.path.dirname(os.path.abspath(__file__))
TRAMP = os.path.join(HERE, "x86tramp.S")
CTL = os.path.join(HERE, "x86ctl.S")
DRV = os.path.join(HERE, "x86drv.c")

SENTINELS = (("rbx", 0x1111111111111111), ("rbp", 0x6666666666666666), ("r12", 0x2222222222222222),
             ("r13", 0x3333333333333333), ("r14", 0x4444444444444444), ("r15", 0x5555555555555555))
POISON_ARGREG = 0xDEADDEADDEADDEAD
PAD_WORD = 0x0BAD0BAD0BAD0BAD
CANARY0 = 0xC0DEC0DE00000000  # canary word i (i = 0 is the lowest address) = CANARY0 + i
M64 = (1 << 64) - 1


class HarnessError(Exception):
    """The harness itself failed (tool missing, driver broken): must crash the shard, never be 'held'."""


class ControlFailure(HarnessError):
    pass


def _s64(x):
    return x - (1 << 64) if x >> 63 else x


def parse_obs(words):
    """13 hex words printed by the driver -> observation dict."""
    w = [int(x, 16) for x in words]
    return {"rbx": w[0], "rbp": w[1], "r12": w[2], "r13": w[3], "r14": w[4], "r15": w[5],
            "rsp_delta": _s64(w[6]), "rax": w[7], "rflags": w[8], "fpenv_xor": w[9], "canary_bad": w[10],
            "ret_addr": w[11], "rdx": w[12]}


def judge(obs) -> list:
    """ABI problems of one call: list of (kind, detail). Empty = callee state intact."""
    out = []
    for name, val in SENTINELS:
        if obs[name] != val:
            out.append(("callee-saved-clobbered:" + name, f"{name}={obs[name]:#x} (sentinel {val:#x})"))
    if obs["rsp_delta"] != 0:
        out.append(("rsp-unbalanced", f"rsp after return is off by {obs['rsp_delta']} bytes"))
    if obs["canary_bad"] != 0:
        out.append(("caller-frame-written", f"{obs['canary_bad']} canary word(s) above the arguments changed"))
    if obs["rflags"] & (1 << 10):
        out.append(("direction-flag-set", "DF=1 on return"))
    if obs["fpenv_xor"] & 0x0F3F0000FFC0:  # x87 control word bits | MXCSR control bits (status flags are volatile)
        out.append(("fp-control-changed", f"mxcsr/x87cw xor = {obs['fpenv_xor']:#x}"))
    return out


def stack_layout(args, nargs, obs, pushed_sentinels=()):
    """The 8-byte words a callee finds at [rsp_entry + 8*j], j = 0.. : return address, stack arguments,
    alignment pad, caller canaries.  Used by wrong-offset models."""
    st = [obs["ret_addr"]]
    stk = list(args[6:nargs])
    st += stk
    if len(stk) % 2:
        st.append(PAD_WORD)
    st += [CANARY0 + i for i in range(8)]
    return st


class FuncResult:
    __slots__ = ("sym", "obs", "crash", "confirmed_alone", "missing", "valgrind", "isolated")

    def __init__(self, sym):
        self.sym = sym
        self.obs = []          # one observation dict per completed call
        self.crash = None      # None | "SIGSEGV" | "SIGILL" | ... | "timeout" | "exit:<n>"
        self.confirmed_alone = None
        self.missing = False   # symbol not found in the shared object
        self.valgrind = []     # memcheck error headlines attributed to this function
        self.isolated = False


class Native:
    def __init__(self, child_timeout: float = 30.0):
        for tool in ("gcc", "as", "nm"):
            if shutil.which(tool) is None:
                raise HarnessError(f"{tool} not found")
        self.dir = tempfile.mkdtemp(prefix="xv-c21-")
        atexit.register(shutil.rmtree, self.dir, True)
        self.child_timeout = child_timeout
        self.stats = {"children": 0, "children_crashed": 0, "children_timeout": 0, "asm_units": 0, "asm_rejected": 0,
                      "links": 0, "isolation_runs": 0, "valgrind_children": 0}
        self.driver = os.path.join(self.dir, "x86drv")
        self._sh(["gcc", "-O1", "-o", self.driver, DRV, TRAMP, "-ldl", "-Wl,-z,noexecstack"])
        self.ctl = os.path.join(self.dir, "ctl.so")
        self._sh(["gcc", "-shared", "-nostdlib", "-o", self.ctl, CTL, "-Wl,-z,noexecstack"])
        self._n = 0

    def _sh(self, cmd):
        p = subprocess.run(cmd, capture_output=True, text=True, timeout=120)
        if p.returncode != 0:
            raise HarnessError(f"{' '.join(cmd)} failed: {p.stderr[-800:]}")
        return p

    # ------------------------------------------------------------------ assembling
    def assemble(self, tag: str, units):
        """units: [(symbol, asm text)] -> (so path or None, {symbol: assembler stderr} for rejected units).

        All units are concatenated and assembled by ONE `as` run; error lines carry line numbers, which are mapped
        back to the unit (and rewritten unit-relative as `<asm>:N:`); rejected units are dropped and the rest is
        assembled again.  Anything that cannot be attributed falls back to one `as` run per unit."""
        rejected = {}
        self.stats["asm_units"] += len(units)
        live = list(units)
        obj = os.path.join(self.dir, f"{tag}.o")
        for _round in range(3):
            if not live:
                break
            src = os.path.join(self.dir, f"{tag}.s")
            spans = []
            line = 1
            with open(src, "w") as f:
                for sym, text in live:
                    if not text.endswith("\n"):
                        text += "\n"
                    n = text.count("\n")
                    spans.append((line, line + n - 1, sym))
                    f.write(text)
                    line += n
            if os.path.exists(obj):
                os.unlink(obj)
            p = subprocess.run(["as", "--64", "-o", obj, src], capture_output=True, text=True, timeout=120)
            self.stats["as_runs"] = self.stats.get("as_runs", 0) + 1
            if p.returncode == 0 and os.path.exists(obj):
                break
            bad = {}
            unattributed = False
            for ln in p.stderr.splitlines():
                mo = re.match(re.escape(src) + r":(\d+): (.*)", ln)
                if not mo:
                    if "Error" in ln and "Assembler messages" not in ln:
                        unattributed = True
                    continue
                no = int(mo.group(1))
                hit = [(a, sym) for a, b, sym in spans if a <= no <= b]
                if not hit:
                    unattributed = True
                    continue
                a, sym = hit[0]
                if "Error" in mo.group(2):
                    bad.setdefault(sym, []).append(f"<asm>:{no - a + 1}: {mo.group(2)}")
            if unattributed or not bad:
                return self._assemble_each(tag, units)
            for sym, msgs in bad.items():
                rejected[sym] = "\n".join(msgs)[:1500]
            live = [(sym, text) for sym, text in live if sym not in bad]
        else:
            return self._assemble_each(tag, units)
        if live and self._undefined(obj):
            # accepted by `as` but refers to symbols nobody defines (e.g. a garbled operand read as a symbol):
            # generated leaf functions must be self-contained; attribute per unit
            return self._assemble_each(tag, units)
        self.stats["asm_rejected"] += len(rejected)
        if not live:
            return None, rejected
        so = os.path.join(self.dir, f"{tag}.so")
        self._sh(["gcc", "-shared", "-nostdlib", "-o", so, obj, "-Wl,-z,noexecstack"])
        self.stats["links"] += 1
        return so, rejected

    def _undefined(self, obj) -> list:
        p = subprocess.run(["nm", "-u", obj], capture_output=True, text=True, timeout=60)
        if p.returncode != 0:
            raise HarnessError(f"nm -u {obj} failed: {p.stderr[-300:]}")
        return [ln.split()[-1] for ln in p.stdout.splitlines() if ln.strip()]

    def _assemble_each(self, tag: str, units):
        rejected = {}
        objs = []
        for sym, text in units:
            s = os.path.join(self.dir, f"{tag}_{sym}.s")
            o = os.path.join(self.dir, f"{tag}_{sym}.o")
            with open(s, "w") as f:
                f.write(text)
            p = subprocess.run(["as", "--64", "-o", o, s], capture_output=True, text=True, timeout=60)
            self.stats["as_runs"] = self.stats.get("as_runs", 0) + 1
            if p.returncode != 0 or not os.path.exists(o):
                rejected[sym] = p.stderr.replace(s, "<asm>")[:1500]
            elif (und := self._undefined(o)):
                rejected[sym] = "<asm>:0: Error: undefined symbol in generated code: " + " ".join(sorted(set(und))[:6])
            else:
                objs.append(o)
        self.stats["asm_rejected"] += len(rejected)
        if not objs:
            return None, rejected
        so = os.path.join(self.dir, f"{tag}.so")
        self._sh(["gcc", "-shared", "-nostdlib", "-o", so] + objs + ["-Wl,-z,noexecstack"])
        self.stats["links"] += 1
        return so, rejected

    # ------------------------------------------------------------------ running
    def _child(self, so, funcs, valgrind=False, timeout=None):
        self._n += 1
        spec = os.path.join(self.dir, f"spec{self._n}.txt")
        with open(spec, "w") as f:
            for sym, nargs, rows in funcs:
                f.write(f"F {sym} {nargs}\n")
                for row in rows:
                    f.write("C " + " ".join(f"{a & M64:x}" for a in row) + "\n")
                f.write("E\n")
        cmd = [self.driver, so, spec]
        if valgrind:
            cmd = ["valgrind", "--tool=memcheck", "-q", "--error-exitcode=0", "--num-callers=4",
                   "--child-silent-after-fork=yes"] + cmd
            self.stats["valgrind_children"] += 1
        self.stats["children"] += 1
        timeout = timeout or (self.child_timeout * (8 if valgrind else 1))
        try:
            p = subprocess.run(cmd, stdout=subprocess.PIPE, stderr=subprocess.STDOUT, timeout=timeout)
            rc, text = p.returncode, p.stdout.decode("utf-8", "replace")
        except subprocess.TimeoutExpired as e:
            rc, text = "timeout", (e.stdout or b"").decode("utf-8", "replace")
        os.unlink(spec)
        return rc, text

    @staticmethod
    def _status(rc):
        if rc == "timeout":
            return "timeout"
        if rc < 0:
            try:
                return signal.Signals(-rc).name
            except ValueError:
                return f"signal:{-rc}"
        return f"exit:{rc}"

    def _parse(self, text, results, valgrind):
        """Fill results from the driver output; returns (ended, symbol started but not finished or None)."""
        cur = None
        ended = False
        for line in text.splitlines():
            if line.startswith("S "):
                cur = line[2:].strip()
            elif line.startswith("R ") and cur is not None:
                results[cur].obs.append(parse_obs(line.split()[1:14]))
            elif line.startswith("D "):
                cur = None
            elif line.startswith("X "):
                results[line[2:].strip()].missing = True
            elif line == "END":
                ended = True
            elif line.startswith("=="):
                if valgrind:
                    body = re.sub(r"^==\d+==\s?", "", line)
                    if body and not body.startswith(" ") and cur is not None and not body.startswith("Process terminating"):
                        results[cur].valgrind.append(body.strip())
                    elif body and not body.startswith(" ") and cur is None:
                        results.setdefault("<outside>", FuncResult("<outside>")).valgrind.append(body.strip())
            elif line.strip():
                raise HarnessError(f"unexpected driver output line: {line[:200]!r}")
        return ended, cur

    def run(self, so, funcs, valgrind=False):
        """funcs: [(symbol, nargs, rows)]; returns {symbol: FuncResult}."""
        results = {sym: FuncResult(sym) for sym, _, _ in funcs}
        pending = list(funcs)
        while pending:
            rc, text = self._child(so, pending, valgrind)
            for sym, _, _ in pending:       # a re-run starts from scratch for these
                results[sym].obs = []
            ended, cur = self._parse(text, results, valgrind)
            if rc == 0 and ended:
                break
            if cur is None:
                raise HarnessError(f"driver failed outside any generated function: rc={rc} output={text[-500:]!r}")
            self.stats["children_crashed" if rc != "timeout" else "children_timeout"] += 1
            idx = [s for s, _, _ in pending].index(cur)
            culprit = pending[idx]
            # confirm: the culprit alone, in a fresh child
            rc2, text2 = self._child(so, [culprit], valgrind)
            alone = {cur: FuncResult(cur)}
            ended2, _ = self._parse(text2, alone, valgrind)
            if rc2 == 0 and ended2:
                # not reproducible alone: an earlier function of the batch corrupted the process. Isolate all.
                return self._isolated(so, funcs, valgrind)
            r = results[cur]
            r.crash = self._status(rc2)
            r.confirmed_alone = True
            r.obs = alone[cur].obs
            pending = pending[idx + 1:]
        return results

    def _isolated(self, so, funcs, valgrind):
        results = {}
        for fn in funcs:
            self.stats["isolation_runs"] += 1
            r = FuncResult(fn[0])
            r.isolated = True
            rc, text = self._child(so, [fn], valgrind)
            tmp = {fn[0]: r}
            ended, _ = self._parse(text, tmp, valgrind)
            if not (rc == 0 and ended):
                r.crash = self._status(rc)
                r.confirmed_alone = True
            results[fn[0]] = r
        return results

    # ------------------------------------------------------------------ controls
    def controls(self, valgrind=False) -> dict:
        """Run the hand-written callees; every expectation must hold. Returns counters."""
        G = 0xFEEDFACE00000000
        a9 = [3, 5, 7, 11, 13, 17, 19, 23, 29]
        want9 = sum((i + 1) * a for i, a in enumerate(a9)) & M64
        expect = {  # symbol: (nargs, rows, expected judge kinds, expected rax or None, expected crash)
            "xvc_ok9": (9, [a9, [M64] * 9], set(), None, None),
            "xvc_id32": (1, [[G | 77]], set(), None, None),
            "xvc_ebx": (2, [[1, 2]], {"callee-saved-clobbered:rbx"}, 3, None),
            "xvc_rbx": (1, [[9]], {"callee-saved-clobbered:rbx"}, 9, None),
            "xvc_rbp": (1, [[9]], {"callee-saved-clobbered:rbp"}, 9, None),
            "xvc_r12": (1, [[9]], {"callee-saved-clobbered:r12"}, 9, None),
            "xvc_r13": (1, [[9]], {"callee-saved-clobbered:r13"}, 9, None),
            "xvc_r14": (1, [[9]], {"callee-saved-clobbered:r14"}, 9, None),
            "xvc_r15": (1, [[9]], {"callee-saved-clobbered:r15"}, 9, None),
            "xvc_ret8": (1, [[9]], {"rsp-unbalanced"}, 9, None),
            "xvc_leak": (1, [[9]], {"rsp-unbalanced"}, 9, None),
            "xvc_canary": (7, [[1, 2, 3, 4, 5, 6, 7]], {"caller-frame-written"}, 1, None),
            "xvc_df": (1, [[9]], {"direction-flag-set"}, 9, None),
            "xvc_mxcsr": (1, [[9]], {"fp-control-changed"}, 9, None),
            "xvc_wrong": (1, [[9]], set(), 10, None),
            "xvc_off": (8, [[1, 2, 3, 4, 5, 6, 70, 80]], set(), 80, None),
            "xvc_ill": (0, [[]], None, None, "SIGILL"),
            "xvc_segv": (0, [[]], None, None, "SIGSEGV"),
        }
        order = ["xvc_ok9", "xvc_id32", "xvc_ebx", "xvc_rbx", "xvc_ill", "xvc_rbp", "xvc_r12", "xvc_r13", "xvc_r14",
                 "xvc_r15", "xvc_segv", "xvc_ret8", "xvc_leak", "xvc_canary", "xvc_df", "xvc_mxcsr", "xvc_wrong", "xvc_off"]
        if valgrind:  # memcheck controls only: clean callees stay clean, the below-rsp store is reported
            expect["xvc_below"] = (1, [[9]], set(), 9, None)
            order = ["xvc_ok9", "xvc_id32", "xvc_ebx", "xvc_off", "xvc_below", "xvc_canary"]
        res = self.run(self.ctl, [(s, expect[s][0], expect[s][1]) for s in order], valgrind=valgrind)
        n = {"controls_run": 0, "controls_bad_flagged": 0, "controls_good_clean": 0, "controls_crash_contained": 0}
        for s in order:
            nargs, rows, kinds, rax, crash = expect[s]
            r = res[s]
            n["controls_run"] += 1
            if crash is not None:
                if r.crash != crash or not r.confirmed_alone:
                    raise ControlFailure(f"control {s}: expected contained {crash}, got {r.crash}")
                n["controls_crash_contained"] += 1
                continue
            if r.crash or r.missing or len(r.obs) != len(rows):
                raise ControlFailure(f"control {s}: crash={r.crash} missing={r.missing} calls={len(r.obs)}/{len(rows)}")
            for row, obs in zip(rows, r.obs):
                got = {k for k, _ in judge(obs)}
                if got != kinds:
                    raise ControlFailure(f"control {s}: expected problems {sorted(kinds)}, trampoline saw {sorted(got)}")
                if rax is not None and obs["rax"] != rax:
                    raise ControlFailure(f"control {s}: rax={obs['rax']:#x}, expected {rax:#x}")
            if s == "xvc_ok9":
                if r.obs[0]["rax"] != want9 or r.obs[1]["rax"] != (45 * M64) & M64:
                    raise ControlFailure(f"control xvc_ok9: argument passing broken, rax={r.obs[0]['rax']:#x} want {want9:#x}")
            if s == "xvc_id32" and r.obs[0]["rax"] & 0xFFFFFFFF != 77:
                raise ControlFailure("control xvc_id32 returned a wrong value")
            if kinds:
                n["controls_bad_flagged"] += 1
            else:
                n["controls_good_clean"] += 1
            if valgrind:
                inv = [v for v in r.valgrind if v.startswith("Invalid")]
                if s == "xvc_below":
                    if not inv:
                        raise ControlFailure("valgrind control xvc_below: memcheck reported nothing")
                    n["controls_valgrind_flagged"] = 1
                elif inv and s not in ("xvc_leak",):
                    raise ControlFailure(f"valgrind control {s}: unexpected memcheck report {inv[:2]}")
        if valgrind:
            return n
        # hang containment (own child, short timeout)
        rc, _ = self._child(self.ctl, [("xvc_spin", 0, [[]])], timeout=1.5)
        if rc != "timeout":
            raise ControlFailure(f"control xvc_spin: expected timeout, got {rc}")
        n["controls_run"] += 1
        n["controls_hang_contained"] = 1
        return n


if __name__ == "__main__":
    import sys
    nat = Native()
    print(nat.controls(valgrind="--valgrind" in sys.argv))
    print(nat.stats)
