"""C23 micro workload: one llvm-dialect op per function, every op x type x flag variant the backend converts,
so that a wrong result is attributed to one converter (violation key = the op)."""
from __future__ import annotations

from xv import c23_gen as G
from xv.c23_ref import F16, F32, F64, FloatT, I1, I8, I16, I32, I64, IntT, VecT

WIDTHS = [1, 8, 16, 32, 64, 3, 7, 24, 33, 63]
OVF = [(), ("nsw",), ("nuw",), ("nsw", "nuw")]


def all_specs():
    S = []
    for op in G.INT_BIN:
        for w in WIDTHS:
            if op in ("add", "sub", "mul", "shl"):
                fls = OVF
            elif op in ("udiv", "sdiv", "lshr", "ashr"):
                fls = [(), ("exact",)]
            elif op == "or":
                fls = [(), ("disjoint",)]
            else:
                fls = [()]
            for fl in fls:
                S.append((f"llvm.{op}", "bin", (op, w, fl)))
        for vt in (VecT(2, I32), VecT(4, I16), VecT(8, I8)):
            S.append((f"llvm.{op}", "vbin", (op, vt)))
    for p in G.ICMP_PREDS:
        for w in WIDTHS:
            S.append(("llvm.icmp:" + p, "icmp", (p, w)))
    for p in G.FCMP_PREDS:
        for fw in (32, 64):
            S.append(("llvm.fcmp:" + p, "fcmp", (p, fw)))
    for a in WIDTHS:
        for b in WIDTHS:
            if a > b:
                for fl in OVF:
                    S.append(("llvm.trunc", "cast", ("trunc", a, b, fl)))
            elif a < b:
                S.append(("llvm.zext", "cast", ("zext", a, b, ())))
                S.append(("llvm.zext", "cast", ("zext", a, b, ("nneg",))))
                S.append(("llvm.sext", "cast", ("sext", a, b, ())))
    for w in (8, 16, 32, 64, 1, 7, 33):
        for fw in (32, 64):
            S.append(("llvm.sitofp", "sitofp", (w, fw)))
    S.append(("llvm.fpext", "fpext", (32, 64)))
    S.append(("llvm.fpext", "fpext", (16, 32)))
    S.append(("llvm.fpext", "fpext", (16, 64)))
    for fw in (32, 64):
        S.append(("llvm.bitcast", "bitcast", (fw,)))
        for op in G.FLOAT_BIN:
            for fm in [(), ("nnan",), ("ninf",), ("nnan", "ninf")]:
                S.append((f"llvm.{op}", "fbin", (op, fw, fm)))
        for n in G.UN_INTR:
            S.append((f"llvm.intr.{n}", "un", (n, fw)))
        for n in G.BIN_INTR:
            S.append((f"llvm.intr.{n}", "bini", (n, fw)))
        S.append(("llvm.intr.fma", "fma", (fw,)))
        S.append(("llvm.fneg", "fneg", (fw,)))
        for n in G.FLOAT_INTRINSICS:
            S.append((f"llvm.call_intrinsic:{n}", "fintr", (n, fw)))
    for t in (I1, I8, I16, I32, I64, F32, F64):
        S.append(("llvm.select", "select", (t,)))
    for base in G.INT_INTRINSICS:
        for w in ((16, 32, 64) if base == "bswap" else (8, 16, 32, 64)):
            S.append((f"llvm.call_intrinsic:{base}", "iintr", (base, w)))
    for op in ("fadd", "fmul"):
        for vt in (G.V4F32, G.V2F64):
            S.append((f"llvm.intr.vector.reduce.{op}", "vreduce", (op, vt)))
    return S


def _intr_use(spec):
    _k, kind, p = spec
    if kind in ("un", "bini"):
        return (p[0], p[1])
    return None


def group(specs, per):
    groups = []
    for s in specs:
        u = _intr_use(s)
        for g in groups:
            if len(g["items"]) < per and (u is None or g["intr"].get(u[0], u[1]) == u[1]):
                break
        else:
            g = {"items": [], "intr": {}}
            groups.append(g)
        g["items"].append(s)
        if u:
            g["intr"][u[0]] = u[1]
    return [g["items"] for g in groups]


def _sig(w):
    for t in G.SIG_INTS:
        if t.w >= w:
            return t
    raise ValueError(w)


def build_module(rng, grp):
    mg = G.MG(rng, "mix")
    mg.done = set()
    keymap = {}
    for i, (key, kind, p) in enumerate(grp):
        name = f"m{i}"
        keymap[name] = key
        _build(mg, name, kind, p)
    mg.mod.profile = "micro"
    return mg.mod, keymap


def _narrow(fb, n, st, t):
    return n if st == t else fb.cast("trunc", n, st, t)


def _widen(fb, n, t, st, signed=False):
    return n if st == t else fb.cast("sext" if signed else "zext", n, t, st)


def _build(mg, name, kind, p):
    rng = mg.rng
    if kind == "bin":
        op, w, fl = p
        st, t = _sig(w), IntT(w)
        fb = G.FB(mg, name, [("%a0", st), ("%a1", st)], st)
        a, b = _narrow(fb, "%a0", st, t), _narrow(fb, "%a1", st, t)
        r = fb.raw_bin(op, t, a, b, set(fl))
        fb.ret(_widen(fb, r, t, st, signed=rng.random() < 0.5))
    elif kind == "vbin":
        op, vt = p
        fb = G.FB(mg, name, [("%a0", I64), ("%a1", I64)], I64)
        a = fb.cast("bitcast", "%a0", I64, vt)
        b = fb.cast("bitcast", "%a1", I64, vt)
        r = fb.raw_bin(op, vt, a, b, set())
        fb.ret(fb.cast("bitcast", r, vt, I64))
    elif kind == "icmp":
        pred, w = p
        st, t = _sig(w), IntT(w)
        fb = G.FB(mg, name, [("%a0", st), ("%a1", st)], I1)
        a, b = _narrow(fb, "%a0", st, t), _narrow(fb, "%a1", st, t)
        r = fb.emit("icmp", I1, [a, b], {"pred": pred, "ty": t}, f'llvm.icmp "{pred}" {a}, {b} : {t.mlir}', {"opc": "icmp", "pred": pred})
        fb.ret(r)
    elif kind == "fcmp":
        pred, fw = p
        t = FloatT(fw)
        fb = G.FB(mg, name, [("%a0", t), ("%a1", t)], I1)
        r = fb.emit("fcmp", I1, ["%a0", "%a1"], {"pred": pred, "ty": t}, f'llvm.fcmp "{pred}" %a0, %a1 : {t.mlir}', {"opc": "fcmp", "pred": pred})
        fb.ret(r)
    elif kind == "cast":
        op, a, b, fl = p
        sa, sb, ta, tb = _sig(a), _sig(b), IntT(a), IntT(b)
        fb = G.FB(mg, name, [("%a0", sa)], sb)
        x = _narrow(fb, "%a0", sa, ta)
        r = fb.cast(op, x, ta, tb, set(fl))
        fb.ret(_widen(fb, r, tb, sb))
    elif kind == "sitofp":
        w, fw = p
        st, t, ft = _sig(w), IntT(w), FloatT(fw)
        fb = G.FB(mg, name, [("%a0", st)], ft)
        x = _narrow(fb, "%a0", st, t)
        fb.ret(fb.cast("sitofp", x, t, ft))
    elif kind == "fpext":
        a, b = p
        if a == 16:
            fb = G.FB(mg, name, [("%a0", I16)], FloatT(b))
            h = fb.cast("bitcast", "%a0", I16, F16)
            fb.ret(fb.cast("fpext", h, F16, FloatT(b)))
        else:
            fb = G.FB(mg, name, [("%a0", F32)], F64)
            fb.ret(fb.cast("fpext", "%a0", F32, F64))
    elif kind == "bitcast":
        (fw,) = p
        t, it = FloatT(fw), IntT(fw)
        fb = G.FB(mg, name, [("%a0", t), ("%a1", it)], it)
        x = fb.cast("bitcast", "%a0", t, it)
        y = fb.cast("bitcast", "%a1", it, t)
        z = fb.cast("bitcast", y, t, it)
        fb.ret(fb.raw_bin("xor", it, x, z, set()))
    elif kind == "fbin":
        op, fw, fm = p
        t = FloatT(fw)
        fb = G.FB(mg, name, [("%a0", t), ("%a1", t)], t)
        fb.ret(fb.raw_fbin(op, t, "%a0", "%a1", set(fm)))
    elif kind in ("un", "bini", "fma", "fneg", "fintr"):
        fw = p[-1]
        t = FloatT(fw)
        nargs = {"un": 1, "bini": 2, "fma": 3, "fneg": 1}.get(kind) or (3 if p[0] == "fma" else 2 if p[0] in ("copysign", "minimum", "maximum") else 1)
        fb = G.FB(mg, name, [(f"%a{i}", t) for i in range(nargs)], t)
        fb.scopes = [[]]
        # operands are taken in order from the arguments
        order = [f"%a{i}" for i in range(nargs)]
        it = iter(order)
        fb.pick = lambda _t, fresh=0.0: next(it)
        if kind == "un":
            r = fb.un_intr(t, p[0])
        elif kind == "bini":
            r = fb.bin_intr(t, p[0])
        elif kind == "fma":
            r = fb.fma(t)
        elif kind == "fneg":
            r = fb.fneg(t)
        else:
            r = fb.float_intrinsic(p[0], t)
        fb.ret(r)
    elif kind == "select":
        (t,) = p
        fb = G.FB(mg, name, [("%a0", I1), ("%a1", t), ("%a2", t)], t)
        r = fb.emit("select", t, ["%a0", "%a1", "%a2"], {}, f"llvm.select %a0, %a1, %a2 : i1, {t.mlir}", {"opc": "select"})
        fb.ret(r)
    elif kind == "iintr":
        base, w = p
        t = IntT(w)
        nargs = 3 if base in ("fshl", "fshr") else 1 if base in ("ctpop", "bswap", "bitreverse") else 2
        fb = G.FB(mg, name, [(f"%a{i}", t) for i in range(nargs)], t)
        fb.scopes = [[]]
        it = iter([f"%a{i}" for i in range(nargs)])
        fb.pick = lambda _t, fresh=0.0: next(it)
        r = fb.int_intrinsic(base, t)
        if base.endswith(".with.overflow"):
            st = fb.cur.ops[-1].ty
            v = fb.emit("extractvalue", t, [r], {"pos": [0]}, f"llvm.extractvalue {r}[0] : {st.mlir}", {"opc": "extractvalue"})
            o = fb.emit("extractvalue", I1, [r], {"pos": [1]}, f"llvm.extractvalue {r}[1] : {st.mlir}", {"opc": "extractvalue"})
            oz = fb.cast("zext", o, I1, t)
            sh = fb.const(t, w - 1, pool=False)
            hi = fb.raw_bin("shl", t, oz, sh, set())
            r = fb.raw_bin("xor", t, v, hi, set())
        fb.ret(r)
    elif kind == "vreduce":
        op, vt = p
        et = vt.e
        fb = G.FB(mg, name, [(f"%a{i}", et) for i in range(vt.n + 1)], et)
        cur = fb.emit("undef", vt, [], {}, f"llvm.mlir.undef : {vt.mlir}", pool=False)
        for i in range(vt.n):
            idx = fb.const(I32, i, pool=False)
            cur = fb.emit("insertelement", vt, [cur, f"%a{i + 1}", idx], {}, f"llvm.insertelement %a{i + 1}, {cur}[{idx} : i32] : {vt.mlir}",
                          {"opc": "insertelement"}, pool=False)
        r = fb.emit("vreduce", et, ["%a0", cur], {"op": op},
                    f'"llvm.intr.vector.reduce.{op}"(%a0, {cur}) <{{fastmathFlags = #llvm.fastmath<none>}}> : ({et.mlir}, {vt.mlir}) -> {et.mlir}',
                    {"opc": "call", "callee_prefix": f"llvm.vector.reduce.{op}"})
        fb.ret(r)
    else:
        raise KeyError(kind)
    mg.mod.funcs.append(fb.f)
    mg.done.add(name)
