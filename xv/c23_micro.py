"""C23 micro workload: one llvm-dialect op per function, every op x type x flag variant the backend converts,
so that a wrong result is attributed to one converter (violation key = the op)."""
from __future__ import annotations

from xv import c23_gen as G
from xv.c23_ref import ArrT, F16, F32, F64, FloatT, I1, I8, I16, I32, I64, IntT, PTR, StructT, VecT

WIDTHS = [1, 8, 16, 32, 64, 3, 7, 24, 33, 63]
OVF = [(), ("nsw",), ("nuw",), ("nsw", "nuw")]


def all_specs():
    S = []
    for op in G.INT_BIN:
        for w in WIDTHS:
            if op in ("add", "sub", "mul", "shl"):
                fls = OVF
            elif op in ("udiv", "sdiv", "lshr", "ashr"):
                fls = [(), ("exact",)]
            elif op == "or":
                fls = [(), ("disjoint",)]
            else:
                fls = [()]
            for fl in fls:
                S.append((f"llvm.{op}", "bin", (op, w, fl)))
        for vt in (VecT(2, I32), VecT(4, I16), VecT(8, I8)):
            S.append((f"llvm.{op}", "vbin", (op, vt)))
    for p in G.ICMP_PREDS:
        for w in WIDTHS:
            S.append(("llvm.icmp:" + p, "icmp", (p, w)))
    for p in G.FCMP_PREDS:
        for fw in (32, 64):
            S.append(("llvm.fcmp:" + p, "fcmp", (p, fw)))
    for a in WIDTHS:
        for b in WIDTHS:
            if a > b:
                for fl in OVF:
                    S.append(("llvm.trunc", "cast", ("trunc", a, b, fl)))
            elif a < b:
                S.append(("llvm.zext", "cast", ("zext", a, b, ())))
                S.append(("llvm.zext", "cast", ("zext", a, b, ("nneg",))))
                S.append(("llvm.sext", "cast", ("sext", a, b, ())))
    for w in (8, 16, 32, 64, 1, 7, 33):
        for fw in (32, 64):
            S.append(("llvm.sitofp", "sitofp", (w, fw)))
    S.append(("llvm.fpext", "fpext", (32, 64)))
    S.append(("llvm.fpext", "fpext", (16, 32)))
    S.append(("llvm.fpext", "fpext", (16, 64)))
    for fw in (32, 64):
        S.append(("llvm.bitcast", "bitcast", (fw,)))
        for op in G.FLOAT_BIN:
            for fm in [(), ("nnan",), ("ninf",), ("nnan", "ninf")]:
                S.append((f"llvm.{op}", "fbin", (op, fw, fm)))
        for n in G.UN_INTR:
            S.append((f"llvm.intr.{n}", "un", (n, fw)))
        for n in G.BIN_INTR:
            S.append((f"llvm.intr.{n}", "bini", (n, fw)))
        S.append(("llvm.intr.fma", "fma", (fw,)))
        S.append(("llvm.fneg", "fneg", (fw,)))
        for n in G.FLOAT_INTRINSICS:
            S.append((f"llvm.call_intrinsic:{n}", "fintr", (n, fw)))
    for t in (I1, I8, I16, I32, I64, F32, F64):
        S.append(("llvm.select", "select", (t,)))
    for base in G.INT_INTRINSICS:
        for w in ((16, 32, 64) if base == "bswap" else (8, 16, 32, 64)):
            S.append((f"llvm.call_intrinsic:{base}", "iintr", (base, w)))
    for op in ("fadd", "fmul"):
        for vt in (G.V4F32, G.V2F64):
            S.append((f"llvm.intr.vector.reduce.{op}", "vreduce", (op, vt)))
    import random
    r = random.Random("c23-micro-shapes")
    for vt in (VecT(2, I32), VecT(4, I16), VecT(8, I8)):
        for _ in range(6):
            S.append(("llvm.shufflevector", "shuffle", (vt, tuple(r.randrange(2 * vt.n) for _ in range(vt.n)))))
        S.append(("llvm.shufflevector", "shuffle", (vt, tuple(range(vt.n, 2 * vt.n)))))
        S.append(("llvm.insertelement", "insdyn", (vt,)))
    for v in range(4):
        S.append(("llvm.insertvalue/extractvalue", "aggregate", (v,)))
    for v in range(6):
        S.append(("block-arguments(phi)", "cfg", (v,)))
    for v in range(4):
        S.append(("llvm.getelementptr/load/store", "gep", (v,)))
    for v in range(5):
        S.append(("llvm.call", "callargs", (v,)))
    return S


def _intr_use(spec):
    _k, kind, p = spec
    if kind in ("un", "bini"):
        return (p[0], p[1])
    return None


def group(specs, per):
    groups = []
    for s in specs:
        u = _intr_use(s)
        for g in groups:
            if len(g["items"]) < per and (u is None or g["intr"].get(u[0], u[1]) == u[1]):
                break
        else:
            g = {"items": [], "intr": {}}
            groups.append(g)
        g["items"].append(s)
        if u:
            g["intr"][u[0]] = u[1]
    return [g["items"] for g in groups]


def _sig(w):
    for t in G.SIG_INTS:
        if t.w >= w:
            return t
    raise ValueError(w)


def build_module(rng, grp):
    mg = G.MG(rng, "mix")
    mg.done = set()
    keymap = {}
    for i, (key, kind, p) in enumerate(grp):
        name = f"m{i}"
        keymap[name] = key
        _build(mg, name, kind, p)
    mg.mod.profile = "micro"
    return mg.mod, keymap


def _narrow(fb, n, st, t):
    return n if st == t else fb.cast("trunc", n, st, t)


def _widen(fb, n, t, st, signed=False):
    return n if st == t else fb.cast("sext" if signed else "zext", n, t, st)


def _build(mg, name, kind, p):
    rng = mg.rng
    if kind == "bin":
        op, w, fl = p
        st, t = _sig(w), IntT(w)
        fb = G.FB(mg, name, [("%a0", st), ("%a1", st)], st)
        a, b = _narrow(fb, "%a0", st, t), _narrow(fb, "%a1", st, t)
        r = fb.raw_bin(op, t, a, b, set(fl))
        fb.ret(_widen(fb, r, t, st, signed=rng.random() < 0.5))
    elif kind == "vbin":
        op, vt = p
        fb = G.FB(mg, name, [("%a0", I64), ("%a1", I64)], I64)
        a = fb.cast("bitcast", "%a0", I64, vt)
        b = fb.cast("bitcast", "%a1", I64, vt)
        r = fb.raw_bin(op, vt, a, b, set())
        fb.ret(fb.cast("bitcast", r, vt, I64))
    elif kind == "icmp":
        pred, w = p
        st, t = _sig(w), IntT(w)
        fb = G.FB(mg, name, [("%a0", st), ("%a1", st)], I1)
        a, b = _narrow(fb, "%a0", st, t), _narrow(fb, "%a1", st, t)
        r = fb.emit("icmp", I1, [a, b], {"pred": pred, "ty": t}, f'llvm.icmp "{pred}" {a}, {b} : {t.mlir}', {"opc": "icmp", "pred": pred})
        fb.ret(r)
    elif kind == "fcmp":
        pred, fw = p
        t = FloatT(fw)
        fb = G.FB(mg, name, [("%a0", t), ("%a1", t)], I1)
        r = fb.emit("fcmp", I1, ["%a0", "%a1"], {"pred": pred, "ty": t}, f'llvm.fcmp "{pred}" %a0, %a1 : {t.mlir}', {"opc": "fcmp", "pred": pred})
        fb.ret(r)
    elif kind == "cast":
        op, a, b, fl = p
        sa, sb, ta, tb = _sig(a), _sig(b), IntT(a), IntT(b)
        fb = G.FB(mg, name, [("%a0", sa)], sb)
        x = _narrow(fb, "%a0", sa, ta)
        r = fb.cast(op, x, ta, tb, set(fl))
        fb.ret(_widen(fb, r, tb, sb))
    elif kind == "sitofp":
        w, fw = p
        st, t, ft = _sig(w), IntT(w), FloatT(fw)
        fb = G.FB(mg, name, [("%a0", st)], ft)
        x = _narrow(fb, "%a0", st, t)
        fb.ret(fb.cast("sitofp", x, t, ft))
    elif kind == "fpext":
        a, b = p
        if a == 16:
            fb = G.FB(mg, name, [("%a0", I16)], FloatT(b))
            h = fb.cast("bitcast", "%a0", I16, F16)
            fb.ret(fb.cast("fpext", h, F16, FloatT(b)))
        else:
            fb = G.FB(mg, name, [("%a0", F32)], F64)
            fb.ret(fb.cast("fpext", "%a0", F32, F64))
    elif kind == "bitcast":
        (fw,) = p
        t, it = FloatT(fw), IntT(fw)
        fb = G.FB(mg, name, [("%a0", t), ("%a1", it)], it)
        x = fb.cast("bitcast", "%a0", t, it)
        y = fb.cast("bitcast", "%a1", it, t)
        z = fb.cast("bitcast", y, t, it)
        fb.ret(fb.raw_bin("xor", it, x, z, set()))
    elif kind == "fbin":
        op, fw, fm = p
        t = FloatT(fw)
        fb = G.FB(mg, name, [("%a0", t), ("%a1", t)], t)
        fb.ret(fb.raw_fbin(op, t, "%a0", "%a1", set(fm)))
    elif kind in ("un", "bini", "fma", "fneg", "fintr"):
        fw = p[-1]
        t = FloatT(fw)
        nargs = {"un": 1, "bini": 2, "fma": 3, "fneg": 1}.get(kind) or (3 if p[0] == "fma" else 2 if p[0] in ("copysign", "minimum", "maximum") else 1)
        fb = G.FB(mg, name, [(f"%a{i}", t) for i in range(nargs)], t)
        fb.scopes = [[]]
        # operands are taken in order from the arguments
        order = [f"%a{i}" for i in range(nargs)]
        it = iter(order)
        fb.pick = lambda _t, fresh=0.0: next(it)
        if kind == "un":
            r = fb.un_intr(t, p[0])
        elif kind == "bini":
            r = fb.bin_intr(t, p[0])
        elif kind == "fma":
            r = fb.fma(t)
        elif kind == "fneg":
            r = fb.fneg(t)
        else:
            r = fb.float_intrinsic(p[0], t)
        fb.ret(r)
    elif kind == "select":
        (t,) = p
        fb = G.FB(mg, name, [("%a0", I1), ("%a1", t), ("%a2", t)], t)
        r = fb.emit("select", t, ["%a0", "%a1", "%a2"], {}, f"llvm.select %a0, %a1, %a2 : i1, {t.mlir}", {"opc": "select"})
        fb.ret(r)
    elif kind == "iintr":
        base, w = p
        t = IntT(w)
        nargs = 3 if base in ("fshl", "fshr") else 1 if base in ("ctpop", "bswap", "bitreverse") else 2
        fb = G.FB(mg, name, [(f"%a{i}", t) for i in range(nargs)], t)
        fb.scopes = [[]]
        it = iter([f"%a{i}" for i in range(nargs)])
        fb.pick = lambda _t, fresh=0.0: next(it)
        r = fb.int_intrinsic(base, t)
        if base.endswith(".with.overflow"):
            st = fb.cur.ops[-1].ty
            v = fb.emit("extractvalue", t, [r], {"pos": [0]}, f"llvm.extractvalue {r}[0] : {st.mlir}", {"opc": "extractvalue"})
            o = fb.emit("extractvalue", I1, [r], {"pos": [1]}, f"llvm.extractvalue {r}[1] : {st.mlir}", {"opc": "extractvalue"})
            oz = fb.cast("zext", o, I1, t)
            sh = fb.const(t, w - 1, pool=False)
            hi = fb.raw_bin("shl", t, oz, sh, set())
            r = fb.raw_bin("xor", t, v, hi, set())
        fb.ret(r)
    elif kind == "vreduce":
        op, vt = p
        et = vt.e
        fb = G.FB(mg, name, [(f"%a{i}", et) for i in range(vt.n + 1)], et)
        cur = fb.emit("undef", vt, [], {}, f"llvm.mlir.undef : {vt.mlir}", pool=False)
        for i in range(vt.n):
            idx = fb.const(I32, i, pool=False)
            cur = fb.emit("insertelement", vt, [cur, f"%a{i + 1}", idx], {}, f"llvm.insertelement %a{i + 1}, {cur}[{idx} : i32] : {vt.mlir}",
                          {"opc": "insertelement"}, pool=False)
        r = fb.emit("vreduce", et, ["%a0", cur], {"op": op},
                    f'"llvm.intr.vector.reduce.{op}"(%a0, {cur}) <{{fastmathFlags = #llvm.fastmath<none>}}> : ({et.mlir}, {vt.mlir}) -> {et.mlir}',
                    {"opc": "call", "callee_prefix": f"llvm.vector.reduce.{op}"})
        fb.ret(r)
    elif kind == "shuffle":
        vt, mask = p
        fb = G.FB(mg, name, [("%a0", I64), ("%a1", I64)], I64)
        a = fb.cast("bitcast", "%a0", I64, vt)
        b = fb.cast("bitcast", "%a1", I64, vt)
        r = fb.emit("shufflevector", vt, [a, b], {"mask": list(mask), "n": vt.n},
                    f"llvm.shufflevector {a}, {b} [{', '.join(map(str, mask))}] : {vt.mlir}", {"opc": "shufflevector"})
        fb.ret(fb.cast("bitcast", r, vt, I64))
    elif kind == "insdyn":
        (vt,) = p
        fb = G.FB(mg, name, [("%a0", I64), ("%a1", vt.e), ("%a2", I8)], I64)
        a = fb.cast("bitcast", "%a0", I64, vt)
        m = fb.const(I8, vt.n - 1, pool=False)
        idx = fb.raw_bin("and", I8, "%a2", m, set())
        r = fb.emit("insertelement", vt, [a, "%a1", idx], {}, f"llvm.insertelement %a1, {a}[{idx} : i8] : {vt.mlir}", {"opc": "insertelement"})
        fb.ret(fb.cast("bitcast", r, vt, I64))
    elif kind == "aggregate":
        (v,) = p
        inner = StructT([I8, I16])
        t = [StructT([I32, ArrT(2, I64), inner]), ArrT(2, StructT([I64, I64])), StructT([ArrT(2, ArrT(2, I32)), I64]),
             StructT([inner, inner, I64])][v]
        fb = G.FB(mg, name, [("%a0", I64), ("%a1", I64), ("%a2", I64)], I64)
        cur = fb.emit("undef", t, [], {}, f"llvm.mlir.undef : {t.mlir}", pool=False) if v % 2 else \
            fb.emit("zero", t, [], {}, f"llvm.mlir.zero : {t.mlir}", pool=False)
        leaves = list(G.leaf_positions(t))
        srcs = ["%a0", "%a1", "%a2"]
        for k, (pos, lt) in enumerate(leaves):
            x = fb.int_cast(srcs[k % 3], I64, lt) if lt != I64 else srcs[k % 3]
            if k >= 3:
                c = fb.const(lt, k * 37 % (1 << min(lt.w, 8)), pool=False)
                x = fb.raw_bin("xor", lt, x, c, set())
            cur = fb.emit("insertvalue", t, [cur, x], {"pos": pos}, f"llvm.insertvalue {x}, {cur}[{', '.join(map(str, pos))}] : {t.mlir}",
                          {"opc": "insertvalue"}, pool=False)
        acc = None
        for k, (pos, lt) in enumerate(leaves):
            # extract through an intermediate aggregate for deep positions
            base, bt, rest = cur, t, list(pos)
            if len(rest) > 1 and k % 2:
                sub_t = bt.fs[rest[0]] if isinstance(bt, StructT) else bt.e
                base = fb.emit("extractvalue", sub_t, [base], {"pos": rest[:1]}, f"llvm.extractvalue {base}[{rest[0]}] : {bt.mlir}",
                               {"opc": "extractvalue"}, pool=False)
                bt, rest = sub_t, rest[1:]
            e = fb.emit("extractvalue", lt, [base], {"pos": rest}, f"llvm.extractvalue {base}[{', '.join(map(str, rest))}] : {bt.mlir}",
                        {"opc": "extractvalue"}, pool=False)
            e = fb.cast("zext", e, lt, I64) if lt != I64 else e
            sh = fb.const(I64, (k * 7) % 40, pool=False)
            e = fb.raw_bin("shl", I64, e, sh, set())
            acc = e if acc is None else fb.raw_bin("add" if k % 2 else "xor", I64, acc, e, set())
        fb.ret(acc)
    elif kind == "cfg":
        (v,) = p
        fb = G.FB(mg, name, [("%a0", I8), ("%a1", I64), ("%a2", I64)], I64)
        c = fb.cast("trunc", "%a0", I8, I1)
        if v == 0:  # diamond, arms pass (a,b) and (b,a)
            t_, e_ = fb.new_block(), fb.new_block()
            m_ = fb.new_block([(fb.v(), I64), (fb.v(), I64)])
            fb.condbr(c, t_, [], e_, [])
            fb.cur = t_
            fb.br(m_, ["%a1", "%a2"])
            fb.cur = e_
            fb.br(m_, ["%a2", "%a1"])
            fb.cur = m_
            fb.ret(fb.raw_bin("sub", I64, m_.args[0][0], m_.args[1][0], set()))
        elif v == 1:  # triangle: direct edge and one arm, three args of the same type
            one = fb.const(I64, 1, pool=False)
            e_ = fb.new_block()
            m_ = fb.new_block([(fb.v(), I64), (fb.v(), I64), (fb.v(), I64)])
            fb.condbr(c, m_, ["%a1", "%a2", one], e_, [])
            fb.cur = e_
            s_ = fb.raw_bin("add", I64, "%a1", "%a2", set())
            fb.br(m_, [s_, one, "%a1"])
            fb.cur = m_
            x = fb.raw_bin("shl", I64, m_.args[0][0], m_.args[2][0], set())
            fb.ret(fb.raw_bin("sub", I64, x, m_.args[1][0], set()))
        elif v in (2, 3):  # loops: fibonacci-like pair of carried values (while / do-while)
            three = fb.const(I8, 3, pool=False)
            n = fb.raw_bin("and", I8, "%a0", three, set())
            zero, one = fb.const(I8, 0, pool=False), fb.const(I8, 1, pool=False)
            if v == 2:
                h_ = fb.new_block([(fb.v(), I8), (fb.v(), I64), (fb.v(), I64)])
                b_, x_ = fb.new_block(), fb.new_block()
                fb.br(h_, [zero, "%a1", "%a2"])
                fb.cur = h_
                i, x, y = (a[0] for a in h_.args)
                cc = fb.emit("icmp", I1, [i, n], {"pred": "ult", "ty": I8}, f'llvm.icmp "ult" {i}, {n} : i8', {"opc": "icmp", "pred": "ult"})
                fb.condbr(cc, b_, [], x_, [])
                fb.cur = b_
                s_ = fb.raw_bin("add", I64, x, y, set())
                i2 = fb.raw_bin("add", I8, i, one, set())
                fb.br(h_, [i2, y, s_])
                fb.cur = x_
                t3 = fb.raw_bin("shl", I64, y, fb.const(I64, 1, pool=False), set())
                fb.ret(fb.raw_bin("sub", I64, x, t3, set()))
            else:
                b_ = fb.new_block([(fb.v(), I8), (fb.v(), I64), (fb.v(), I64)])
                x_ = fb.new_block([(fb.v(), I64), (fb.v(), I64)])
                fb.br(b_, [zero, "%a1", "%a2"])
                fb.cur = b_
                i, x, y = (a[0] for a in b_.args)
                s_ = fb.raw_bin("add", I64, x, y, set())
                i2 = fb.raw_bin("add", I8, i, one, set())
                cc = fb.emit("icmp", I1, [i2, n], {"pred": "ule", "ty": I8}, f'llvm.icmp "ule" {i2}, {n} : i8', {"opc": "icmp", "pred": "ule"})
                fb.condbr(cc, b_, [i2, y, s_], x_, [s_, y])
                fb.cur = x_
                t3 = fb.raw_bin("shl", I64, x_.args[1][0], fb.const(I64, 1, pool=False), set())
                fb.ret(fb.raw_bin("sub", I64, x_.args[0][0], t3, set()))
        elif v == 4:  # nested diamonds with mixed-type arguments
            t_, e_ = fb.new_block([(fb.v(), I64)]), fb.new_block([(fb.v(), I64), (fb.v(), I1)])
            m_ = fb.new_block([(fb.v(), I64), (fb.v(), I1), (fb.v(), I64)])
            fb.condbr(c, t_, ["%a1"], e_, ["%a2", c])
            fb.cur = t_
            fb.br(m_, [t_.args[0][0], c, "%a2"])
            fb.cur = e_
            n_ = fb.raw_bin("xor", I1, e_.args[1][0], fb.const(I1, 1, pool=False), set())
            fb.br(m_, ["%a1", n_, e_.args[0][0]])
            fb.cur = m_
            z = fb.cast("zext", m_.args[1][0], I1, I64)
            x = fb.raw_bin("sub", I64, m_.args[0][0], m_.args[2][0], set())
            fb.ret(fb.raw_bin("add", I64, x, z, set()))
        else:  # three predecessors into one block
            b1, b2, b3 = fb.new_block(), fb.new_block(), fb.new_block()
            m_ = fb.new_block([(fb.v(), I64), (fb.v(), I64)])
            fb.condbr(c, b1, [], b2, [])
            fb.cur = b1
            fb.br(m_, ["%a1", "%a2"])
            fb.cur = b2
            lt = fb.emit("icmp", I1, ["%a1", "%a2"], {"pred": "slt", "ty": I64}, 'llvm.icmp "slt" %a1, %a2 : i64', {"opc": "icmp", "pred": "slt"})
            fb.condbr(lt, b3, [], m_, ["%a2", "%a1"])
            fb.cur = b3
            d = fb.raw_bin("sub", I64, "%a2", "%a1", set())
            fb.br(m_, [d, d])
            fb.cur = m_
            y2 = fb.raw_bin("shl", I64, m_.args[1][0], fb.const(I64, 1, pool=False), set())
            fb.ret(fb.raw_bin("sub", I64, m_.args[0][0], y2, set()))
    elif kind == "gep":
        (v,) = p
        t = [StructT([I8, I32, ArrT(4, I16), I64]), ArrT(3, StructT([I16, I64])), StructT([StructT([I8, I64]), ArrT(2, I32), I8]),
             ArrT(2, ArrT(3, I32))][v]
        fb = G.FB(mg, name, [("%a0", I64), ("%a1", I64), ("%a2", I8)], I64)
        one = fb.const(I32, 1, pool=False)
        obj = fb.emit("alloca", PTR, [one], {"elem": t, "align": None}, f"llvm.alloca {one} x {t.mlir} : (i32) -> !llvm.ptr",
                      {"opc": "alloca", "align": None}, pool=False)
        leaves = list(G.leaf_positions(t))
        srcs = ["%a0", "%a1"]
        ptrs = []
        for k, (pos, lt) in enumerate(leaves):
            idx, idxw, txt, tys = [0], {}, ["0"], []
            for d, i in enumerate(pos):
                # make the innermost array index dynamic (masked argument) when the bound allows
                idx.append(i)
                txt.append(str(i))
            inb = bool(k % 2)
            q = fb.emit("gep", PTR, [obj], {"elem": t, "idx": idx, "idxw": idxw, "inbounds": inb},
                        f"llvm.getelementptr {'inbounds ' if inb else ''}{obj}[{', '.join(txt)}] : (!llvm.ptr) -> !llvm.ptr, {t.mlir}",
                        {"opc": "getelementptr", "flags": {"inbounds"} if inb else set()}, pool=False)
            ptrs.append((q, lt))
            x = fb.int_cast(srcs[k % 2], I64, lt) if lt != I64 else srcs[k % 2]
            c = fb.const(lt, (k * 29 + 3) % (1 << min(lt.w, 8)), pool=False)
            x = fb.raw_bin("add", lt, x, c, set())
            i_ = fb.emit("cast", I64, [q], {"op": "ptrtoint", "from": PTR, "flags": set()}, f"llvm.ptrtoint {q} : !llvm.ptr to i64",
                         {"opc": "ptrtoint", "flags": set()}, pool=False)
            q2 = fb.emit("cast", PTR, [i_], {"op": "inttoptr", "from": I64, "flags": set()}, f"llvm.inttoptr {i_} : i64 to !llvm.ptr",
                         {"opc": "inttoptr", "flags": set()}, pool=False)
            fb.emit("store", None, [x, q2], {"ty": lt, "align": None}, f"llvm.store {x}, {q2} : {lt.mlir}, !llvm.ptr",
                    {"opc": "store", "align": None, "ty": lt})
        acc = None
        for k, (q, lt) in enumerate(ptrs):
            e = fb.emit("load", lt, [q], {"align": None}, f"llvm.load {q} : !llvm.ptr -> {lt.mlir}", {"opc": "load", "align": None, "ty": lt}, pool=False)
            e = fb.cast("zext", e, lt, I64) if lt != I64 else e
            sh = fb.const(I64, (k * 5) % 32, pool=False)
            e = fb.raw_bin("shl", I64, e, sh, set())
            acc = e if acc is None else fb.raw_bin("xor" if k % 2 else "add", I64, acc, e, set())
        fb.ret(acc)
    elif kind == "callargs" and p[0] >= 3:
        (v,) = p
        t = I64 if v == 3 else F64
        h = G.FB(mg, name + "_callee", [("%a0", t), ("%a1", t)], t)
        h.ret(h.raw_bin("sub", t, "%a0", "%a1", set()) if v == 3 else h.raw_fbin("fsub", t, "%a0", "%a1", set()))
        mg.mod.funcs.append(h.f)
        mg.done.add(h.f.name)
        fb = G.FB(mg, name, [("%a0", t), ("%a1", t)], t)
        txt = f"llvm.call @{h.f.name}(%a1, %a0) : ({t.mlir}, {t.mlir}) -> {t.mlir}"
        r = fb.emit("call", t, ["%a1", "%a0"], {"callee": h.f.name, "cconv": "ccc", "tail": "none", "fm": set()}, txt,
                    {"opc": "call", "callee": h.f.name, "cconv": "ccc", "tail": "none", "flags": set()})
        fb.ret(r)
    elif kind == "callargs":
        (v,) = p
        h = G.FB(mg, name + "_callee", [("%a0", I64), ("%a1", I64), ("%a2", I32)], I64, cconv="ccc", linkage=["", "internal", "private"][v])
        z = h.cast("zext", "%a2", I32, I64)
        d = h.raw_bin("sub", I64, "%a0", "%a1", set())
        h.ret(h.raw_bin("shl", I64, d, h.raw_bin("and", I64, z, h.const(I64, 7, pool=False), set()), set()))
        mg.mod.funcs.append(h.f)
        mg.done.add(h.f.name)
        fb = G.FB(mg, name, [("%a0", I64), ("%a1", I64), ("%a2", I32)], I64)
        kindt = ["none", "tail", "none"][v]
        txt = "llvm.call " + (kindt + " " if kindt != "none" else "") + f"@{h.f.name}(%a1, %a0, %a2) : (i64, i64, i32) -> i64"
        r = fb.emit("call", I64, ["%a1", "%a0", "%a2"], {"callee": h.f.name, "cconv": "ccc", "tail": kindt, "fm": set()}, txt,
                    {"opc": "call", "callee": h.f.name, "cconv": "ccc", "tail": kindt, "flags": set()})
        fb.ret(r)
    else:
        raise KeyError(kind)
    mg.mod.funcs.append(fb.f)
    mg.done.add(name)
