"""c14_gen - directed program generator for C14 (canonicalize / constant folding / CSE preserve results).

Subclass of `xv.genprog.Gen` (text only, nothing of xDSL imported). On top of the default statement mix it
emits *trigger shapes* for the passes under test:

* constant-constant operand pairs at boundary values for every integer / float binary op, compares, selects and
  casts (fold triggers; includes division by a constant zero, shift amounts >= width, negative and huge shifts)
* constant-variable identities on both sides: x+0, 0+x, x*1, x*0, x&0, x&-1, x|0, x^0, x<<0, x/1, ...
* same-operand ops: x&x, x|x, x^x, x-x, cmpi <pred> x,x (all predicates), select c,x,x, subf x,x, cmpf x,x
* select with constant condition / constant i1 arms, chains op(op(x,c1),c2)
* duplicates of earlier expressions whose operands are still in scope (CSE triggers, also across nested regions)
  and groups of float constants that are equal under `==` but differ in bits (+0.0/-0.0, NaN payloads) with an
  observer that tells them apart (bitcast / 1.0/x)
* memory reads (memref.load from argument memrefs and local allocs) with and without stores, calls, opaque
  writers and region ops in between
* scf.while loops, cf diamonds (multi-block functions), calls to generated helper functions and to an external
  function, effect markers

Program kinds: `module_text()` -> helper functions + @main; `modprog_text()` -> straight-line *module-level*
program (inputs are results of `"test.op"()`, outputs are operands of a final `"test.op"(...)`) which is the only
place `test-specialised-constant-folding` looks at.
`no_var_addi=True` makes every `arith.addi` constant-constant (the two test folding passes refuse anything else).
"""
import math
import re
import struct

from xv.genprog import BIN, FBIN, FPRED, INT_T, PRED, W, Gen, boundary, gen_inputs

MEMREFS = {"memref<4xi32>": "i32", "memref<4xf32>": "f32", "memref<4xi8>": "i8", "memref<4xi64>": "i64"}

F32_C = ["0.0", "-0.0", "1.0", "-1.0", "0.5", "2.0", "0.1", "3.4028235e+38", "-3.4028235e+38", "1.0e-45",
         "1.17549435e-38", "16777216.0", "16777217.0", "1.0e+30", "1.0e-30", "0x7F800000", "0xFF800000",
         "0x7FC00000", "0xFFC00000", "0x7FC00001", "0x7FA00000", "-2.25", "3.5"]
F64_C = ["0.0", "-0.0", "1.0", "-1.0", "0.5", "2.0", "0.1", "1.7976931348623157e+308", "-1.7976931348623157e+308",
         "5.0e-324", "2.2250738585072014e-308", "9007199254740992.0", "9007199254740993.0", "1.0e+30", "1.0e-30",
         "0x7FF0000000000000", "0xFFF0000000000000", "0x7FF8000000000000", "0xFFF8000000000000",
         "0x7FF8000000000001", "0x7FF4000000000000", "-2.25", "3.5"]
ZERO_NAN = {"f32": [["0.0", "-0.0"], ["0x7FC00000", "0xFFC00000", "0x7FC00001"], ["-0.0", "0.0", "-0.0"]],
            "f64": [["0.0", "-0.0"], ["0x7FF8000000000000", "0xFFF8000000000000", "0x7FF8000000000001"],
                    ["-0.0", "0.0", "-0.0"]]}

# (op, constant, constant may also be on the left)
IDENT = [("addi", 0, True), ("subi", 0, True), ("muli", 1, True), ("muli", 0, True), ("muli", -1, True),
         ("andi", 0, True), ("andi", -1, True), ("ori", 0, True), ("ori", -1, True), ("xori", 0, True),
         ("xori", -1, True), ("shli", 0, True), ("shrui", 0, True), ("shrsi", 0, True), ("divui", 1, False),
         ("divsi", 1, False), ("floordivsi", 1, False), ("ceildivsi", 1, False), ("ceildivui", 1, False),
         ("remui", 1, False), ("remsi", 1, False), ("divsi", -1, False), ("minui", 0, True), ("maxui", -1, True),
         ("minsi", 0, True), ("maxsi", -1, True), ("muli", 2, True), ("subi", 1, True)]
SAME_INT = ["andi", "ori", "xori", "subi", "minsi", "maxsi", "minui", "maxui", "addi", "muli"]
SAME_FLT = ["subf", "addf", "maximumf", "minimumf", "mulf", "divf"]
CASTS = ["extsi", "extui", "trunci", "index_cast", "index_cast", "extended", "sitofp", "uitofp", "fptosi", "fptoui", "extf",
         "truncf", "negf", "bitcast"]

_LINE = re.compile(r"^\s*(%v\d+) = ((?:arith\.\w+|memref\.load) [^{]*)$")
_VAL = re.compile(r"%[\w#]+")

SHAPES = (["cc_int"] * 10 + ["cc_flt"] * 6 + ["cc_cmp"] * 5 + ["ident"] * 10 + ["same"] * 7 + ["select"] * 6 +
          ["chain"] * 5 + ["dup"] * 12 + ["fconsts"] * 5 + ["iconsts"] * 2 + ["mem"] * 8 + ["call"] * 4 +
          ["while"] * 2 + ["effect"] * 4 + ["cast"] * 4 + ["guarded_cc"] * 5 + ["cc_addi"] * 3 + ["cast_pair"] * 3 + ["twin"] * 6)


class Gen14(Gen):
    def __init__(self, rng, p_directed=0.5, no_var_addi=False, helpers=(), memrefs=True, addi_focus=0, sinks=True, **kw):
        kw.setdefault("effects", True)
        super().__init__(rng, **kw)
        self.p_directed = p_directed
        self.no_var_addi = no_var_addi
        if no_var_addi:
            self.bin_ops = [o for o in self.bin_ops if o != "addi"]
        self.helpers = list(helpers)  # (name, argtypes, rettype)
        self.memrefs = memrefs
        self.shape_count = {}
        self.shapes = SHAPES + ["cc_addi"] * addi_focus
        self.sinks = sinks

    # ------------------------------------------------------------------ helpers
    def prelude(self):
        return "func.func private @ext_i32(i32) -> i32\n" if self.ext_calls else ""

    def types(self):
        return self.int_types + (self.flt_types if self.allow_float else [])

    def emit(self, env, lines, ind, rhs, t):
        v = self.fresh()
        lines.append(f"{ind}{v} = {rhs}")
        env.append((v, t))
        return v

    def cint(self, t, val, lines, ind):
        w = W[t]
        val = max(-(1 << (w - 1)), min((1 << w) - 1, val)) if w > 1 else val & 1
        v = self.fresh()
        if t == "i1" and self.rng.random() < 0.7:
            lines.append(f"{ind}{v} = arith.constant {'true' if val else 'false'}")
        else:
            lines.append(f"{ind}{v} = arith.constant {val} : {t}")
        return v

    def cflt(self, t, lines, ind, lit=None):
        v = self.fresh()
        lines.append(f"{ind}{v} = arith.constant {lit or self.rng.choice(F32_C if t == 'f32' else F64_C)} : {t}")
        return v

    def const(self, t, lines, ind):
        if t in W:
            return super().const(t, lines, ind)
        return self.cflt(t, lines, ind)

    def int_t(self, wide=False):
        c = [t for t in self.int_types if not wide or W[t] > 1]
        return self.rng.choice(c or self.int_types)

    def shift_amount(self, t):
        w = W[t]
        c = [0, 1, w - 1, w, w + 1, -1, 2, 1 << 20 if w >= 32 else w, (1 << (w - 1)) - 1 if w < 32 else 3]
        if w == 64:
            c += [1 << 62, 1 << 62]
        return self.rng.choice(c)

    def nonzero(self, env, lines, ind, v, t):
        """x | 1 (never zero); in i1 that is the constant true, which is what we want for a divisor"""
        one = self.cint(t, 1, lines, ind)
        return self.emit(env, lines, ind, f"arith.ori {v}, {one} : {t}", t)

    def var(self, env, t, lines, ind):
        """a non-constant value of type t when one is in scope"""
        c = [v for v, vt in env if vt == t]
        if c:
            return self.rng.choice(c)
        return self.const(t, lines, ind)

    # ------------------------------------------------------------------ statement mix
    def stmt(self, env, lines, ind, depth):
        if self.rng.random() >= self.p_directed:
            return super().stmt(env, lines, ind, depth)
        shape = self.rng.choice(self.shapes)
        self.shape_count[shape] = self.shape_count.get(shape, 0) + 1
        getattr(self, "s_" + shape)(env, lines, ind, depth)
        if depth > 0 and self.sinks and self.rng.random() < 0.15:
            self.sink(env[-6:], lines, ind, self.rng.choice([1, 2, 3]))

    def sink(self, env, lines, ind, k=None):
        """poison-tolerant observer of (a sample of) the scalar values in `env` (see xv.checks.c14: "c14.sink")"""
        c = [(v, t) for v, t in env if t not in MEMREFS]
        if not c:
            return
        if k is not None and len(c) > k:
            c = self.rng.sample(c, k)
        lines.append(f'{ind}"test.op"({", ".join(v for v, _ in c)}) {{c14.sink}} : ({", ".join(t for _, t in c)}) -> ()')

    def s_cc_int(self, env, lines, ind, depth, allow_ub=0.12, t=None):
        rng = self.rng
        t = t or self.int_t()
        opn = rng.choice(BIN)
        av = boundary(rng, t)
        bv = boundary(rng, t)
        if opn in ("shli", "shrui", "shrsi") and rng.random() < 0.8:
            bv = self.shift_amount(t)
        if ("div" in opn or "rem" in opn) and rng.random() >= allow_ub:
            bv = bv if (bv & ((1 << W[t]) - 1)) else 1
            if opn in ("divsi", "remsi", "floordivsi", "ceildivsi") and bv == -1 and W[t] > 1:
                bv = 3
        a = self.cint(t, av, lines, ind)
        b = self.cint(t, bv, lines, ind)
        self.emit(env, lines, ind, f"arith.{opn} {a}, {b} : {t}", t)

    def s_cc_addi(self, env, lines, ind, depth):
        """addi of constants (the only thing the two test folding passes fold), also chained"""
        rng = self.rng
        t = self.int_t()
        w = W[t]
        pool = [0, 1, -1, 2, 5, 100, (1 << (w - 1)) - 1, -(1 << (w - 1)), (1 << w) - 1, -(1 << (w - 1)) + 1]
        a = self.cint(t, rng.choice(pool), lines, ind)
        b = self.cint(t, rng.choice(pool), lines, ind)
        x = self.emit(env, lines, ind, f"arith.addi {a}, {b} : {t}", t)
        for _ in range(rng.choice([0, 0, 1, 2])):
            c = self.cint(t, rng.choice(pool), lines, ind)
            x = self.emit(env, lines, ind, f"arith.addi {x}, {c} : {t}" if rng.random() < 0.6 else
                          f"arith.addi {c}, {x} : {t}", t)

    def s_guarded_cc(self, env, lines, ind, depth):
        """constant-constant op that may be UB / poison, executed only on some inputs"""
        rng = self.rng
        if depth >= 2:
            return self.s_cc_int(env, lines, ind, depth)
        t = self.int_t()
        c = self.var(env, "i1", lines, ind)
        v = self.fresh()
        lines.append(f"{ind}{v} = scf.if {c} -> ({t}) {{")
        e2 = list(env)
        self.s_cc_int(e2, lines, ind + "  ", depth + 1, allow_ub=0.7, t=t)
        lines.append(f"{ind}  scf.yield {e2[-1][0]} : {t}")
        lines.append(f"{ind}}} else {{")
        e3 = list(env)
        y = self.pick(e3, t, lines, ind + "  ")
        lines.append(f"{ind}  scf.yield {y} : {t}")
        lines.append(f"{ind}}}")
        env.append((v, t))

    def s_cc_flt(self, env, lines, ind, depth):
        if not self.allow_float:
            return self.s_cc_int(env, lines, ind, depth)
        t = self.rng.choice(self.flt_types)
        a, b = self.cflt(t, lines, ind), self.cflt(t, lines, ind)
        opn = self.rng.choice(FBIN + ["divf", "divf", "maxnumf", "minnumf"])
        self.emit(env, lines, ind, f"arith.{opn} {a}, {b} : {t}", t)

    def s_cc_cmp(self, env, lines, ind, depth):
        rng = self.rng
        if self.allow_float and rng.random() < 0.3:
            t = rng.choice(self.flt_types)
            a, b = self.cflt(t, lines, ind), self.cflt(t, lines, ind)
            self.emit(env, lines, ind, f"arith.cmpf {rng.choice(FPRED)}, {a}, {b} : {t}", "i1")
            return
        t = self.int_t()
        av, bv = boundary(rng, t), boundary(rng, t)
        if rng.random() < 0.5 and W[t] > 1:  # operands of different sign: unsigned predicates disagree with signed ones
            av, bv = rng.choice([-1, -8, -(1 << (W[t] - 1))]), rng.choice([0, 1, 5, (1 << (W[t] - 1)) - 1])
            if rng.random() < 0.5:
                av, bv = bv, av
        a, b = self.cint(t, av, lines, ind), self.cint(t, bv, lines, ind)
        self.emit(env, lines, ind, f"arith.cmpi {rng.choice(PRED)}, {a}, {b} : {t}", "i1")

    def s_ident(self, env, lines, ind, depth):
        rng = self.rng
        t = self.int_t()
        opn, cv, left_ok = rng.choice(IDENT)
        if opn == "addi" and self.no_var_addi:
            opn = "ori"
        x = self.var(env, t, lines, ind)
        c = self.cint(t, cv, lines, ind)
        if left_ok and rng.random() < 0.4:
            self.emit(env, lines, ind, f"arith.{opn} {c}, {x} : {t}", t)
        else:
            self.emit(env, lines, ind, f"arith.{opn} {x}, {c} : {t}", t)

    def s_same(self, env, lines, ind, depth):
        rng = self.rng
        r = rng.random()
        if r < 0.3:
            t = self.int_t()
            x = self.var(env, t, lines, ind)
            self.emit(env, lines, ind, f"arith.cmpi {rng.choice(PRED)}, {x}, {x} : {t}", "i1")
        elif r < 0.7 or not self.allow_float:
            t = self.int_t()
            x = self.var(env, t, lines, ind)
            opn = rng.choice([o for o in SAME_INT if not (o == "addi" and self.no_var_addi)] + ["divui", "remsi"])
            if opn in ("divui", "remsi"):
                x = self.nonzero(env, lines, ind, x, t)
            self.emit(env, lines, ind, f"arith.{opn} {x}, {x} : {t}", t)
        elif r < 0.85:
            t = rng.choice(self.flt_types)
            x = self.var(env, t, lines, ind)
            self.emit(env, lines, ind, f"arith.{rng.choice(SAME_FLT)} {x}, {x} : {t}", t)
        else:
            t = rng.choice(self.flt_types)
            x = self.var(env, t, lines, ind)
            self.emit(env, lines, ind, f"arith.cmpf {rng.choice(FPRED)}, {x}, {x} : {t}", "i1")

    def s_select(self, env, lines, ind, depth):
        rng = self.rng
        t = rng.choice(self.types())
        r = rng.random()
        if r < 0.4:
            c = self.cint("i1", rng.choice([0, 1]), lines, ind)
            a, b = self.pick(env, t, lines, ind), self.pick(env, t, lines, ind)
        elif r < 0.7:
            t = "i1"
            c = self.var(env, "i1", lines, ind)
            a = self.cint("i1", rng.choice([0, 1]), lines, ind)
            b = self.cint("i1", rng.choice([0, 1]), lines, ind)
        elif r < 0.85:
            c = self.var(env, "i1", lines, ind)
            a = b = self.pick(env, t, lines, ind)
        else:
            c = self.var(env, "i1", lines, ind)
            a, b = self.const(t, lines, ind), self.const(t, lines, ind)
        self.emit(env, lines, ind, f"arith.select {c}, {a}, {b} : {t}", t)

    def s_chain(self, env, lines, ind, depth):
        rng = self.rng
        if self.allow_float and rng.random() < 0.25:
            t = rng.choice(self.flt_types)
            opn = rng.choice(["addf", "mulf", "subf"])
            x = self.var(env, t, lines, ind)
            for _ in range(rng.choice([2, 3])):
                c = self.cflt(t, lines, ind)
                x = self.emit(env, lines, ind, f"arith.{opn} {x}, {c} : {t}" if rng.random() < 0.7 else
                              f"arith.{opn} {c}, {x} : {t}", t)
            return
        t = self.int_t(wide=True)
        opn = rng.choice([o for o in ["addi", "muli", "subi", "xori", "andi", "ori", "shli", "shrui"]
                          if not (o == "addi" and self.no_var_addi)])
        x = self.var(env, t, lines, ind)
        cs = [boundary(rng, t) for _ in range(3)]
        if rng.random() < 0.3:
            cs[1] = cs[0]
        if opn in ("shli", "shrui"):
            cs = [rng.choice([0, 1, 2, W[t] // 2]) for _ in cs]
        for k in range(rng.choice([2, 3])):
            c = self.cint(t, cs[k], lines, ind)
            if opn in ("addi", "muli", "xori", "andi", "ori") and rng.random() < 0.3:
                x = self.emit(env, lines, ind, f"arith.{opn} {c}, {x} : {t}", t)
            else:
                x = self.emit(env, lines, ind, f"arith.{opn} {x}, {c} : {t}", t)

    _SWAP = re.compile(r"^(arith\.(?:addi|muli|andi|ori|xori|addf|mulf|subi|subf|divf|shli|shrui|shrsi|minsi|maxui|"
                       r"cmpi \w+,|cmpf \w+,)) (%[\w#]+), (%[\w#]+) (.*)$")
    _SEL = re.compile(r"^arith\.select (%[\w#]+), (%[\w#]+), (%[\w#]+) (.*)$")

    def s_twin(self, env, lines, ind, depth):
        """an earlier binary op / select re-emitted with swapped operands (same operand *set*, different meaning)"""
        return self.s_dup(env, lines, ind, depth, swap=True)

    def s_dup(self, env, lines, ind, depth, swap=False):
        """re-emit an earlier expression whose operands are all still in scope (identical -> CSE candidate)"""
        rng = self.rng
        names = {v: t for v, t in env}
        cands = []
        for ln in lines[-60:]:
            m = _LINE.match(ln)
            if not m:
                continue
            if self.no_var_addi and "arith.addi" in m.group(2):
                continue
            res, rhs = m.group(1), m.group(2)
            ops_ = _VAL.findall(rhs)
            if all(o in names for o in ops_):
                if swap:
                    m2 = self._SWAP.match(rhs) or self._SEL.match(rhs)
                    if not m2 or m2.group(2) == m2.group(3):
                        continue
                cands.append((res, rhs))
        if not cands:
            return self.s_ident(env, lines, ind, depth)
        res, rhs = rng.choice(cands)
        t = names.get(res) or self._type_of(rhs)
        if t is None:
            return self.s_ident(env, lines, ind, depth)
        if swap or rng.random() < 0.1:  # twin with swapped operands: must NOT be merged with the original unless commutative
            m = self._SWAP.match(rhs)
            if m and not (self.no_var_addi and "addi" in m.group(1)):
                rhs = f"{m.group(1)} {m.group(3)}, {m.group(2)} {m.group(4)}"
            else:
                m = self._SEL.match(rhs)
                if m:
                    rhs = f"arith.select {m.group(1)}, {m.group(3)}, {m.group(2)} {m.group(4)}"
        self.emit(env, lines, ind, rhs, t)

    @staticmethod
    def _type_of(rhs):
        if rhs.startswith(("arith.cmpi", "arith.cmpf")):
            return "i1"
        if rhs.startswith("arith.constant") and rhs.strip().endswith(("true", "false")):
            return "i1"
        if rhs.startswith("memref.load"):
            return MEMREFS.get(rhs.rsplit(":", 1)[1].strip())
        if " to " in rhs:
            return rhs.rsplit(" to ", 1)[1].strip()
        if ":" in rhs:
            return rhs.rsplit(":", 1)[1].strip()
        return None

    def s_fconsts(self, env, lines, ind, depth):
        """float constants equal under == / all-NaN-equal but different in bits, plus an observer"""
        rng = self.rng
        if not self.allow_float:
            return self.s_iconsts(env, lines, ind, depth)
        t = rng.choice(self.flt_types)
        group = rng.choice(ZERO_NAN[t])
        vs = []
        for lit in group:
            v = self.cflt(t, lines, ind, lit)
            env.append((v, t))
            vs.append(v)
        it = "i32" if t == "f32" else "i64"
        for v in vs:
            r = rng.random()
            if r < 0.35 and it in self.int_types and "C" not in group[0]:  # bitcast of NaN is not modelled
                self.emit(env, lines, ind, f"arith.bitcast {v} : {t} to {it}", it)
            elif r < 0.7:
                one = self.cflt(t, lines, ind, "1.0") if rng.random() < 0.5 else self.var(env, t, lines, ind)
                self.emit(env, lines, ind, f"arith.divf {one}, {v} : {t}", t)
            elif r < 0.85:
                x = self.var(env, t, lines, ind)
                self.emit(env, lines, ind, f"arith.{rng.choice(['maximumf', 'minimumf', 'addf', 'mulf'])} {x}, {v} : {t}", t)

    def s_iconsts(self, env, lines, ind, depth):
        """equal integer payloads at different types / spellings"""
        rng = self.rng
        val = rng.choice([0, 1, -1])
        for t in rng.sample(self.int_types, min(len(self.int_types), rng.choice([2, 3]))):
            v = self.cint(t, val, lines, ind)
            env.append((v, t))
        if rng.random() < 0.5:
            t = self.int_t()
            for _ in range(2):
                v = self.cint(t, val, lines, ind)
                env.append((v, t))

    def mem_index(self, env, lines, ind):
        rng = self.rng
        if rng.random() < 0.7 or "index" not in self.int_types:
            return self.const_idx(lines, ind, rng.choice([0, 1, 2, 3]))
        a = self.var(env, "index", lines, ind)
        m = self.const_idx(lines, ind, 3)
        v = self.fresh()
        lines.append(f"{ind}{v} = arith.andi {a}, {m} : index")
        return v

    def s_mem(self, env, lines, ind, depth):
        rng = self.rng
        mems = [(v, t) for v, t in env if t in MEMREFS]
        if not self.memrefs:
            return self.s_dup(env, lines, ind, depth)
        if not mems or rng.random() < 0.15:
            mt = rng.choice([m for m in MEMREFS if MEMREFS[m] in self.types()] or ["memref<4xi32>"])
            if MEMREFS[mt] not in self.types():
                return self.s_dup(env, lines, ind, depth)
            m = self.fresh()
            lines.append(f"{ind}{m} = memref.alloc() : {mt}")
            for k in range(4):
                x = self.pick(env, MEMREFS[mt], lines, ind)
                i = self.const_idx(lines, ind, k)
                lines.append(f"{ind}memref.store {x}, {m}[{i}] : {mt}")
            env.append((m, mt))
            mems.append((m, mt))
        m, mt = rng.choice(mems)
        et = MEMREFS[mt]
        i1 = self.mem_index(env, lines, ind)
        l1 = self.emit(env, lines, ind, f"memref.load {m}[{i1}] : {mt}", et)
        r = rng.random()
        if r < 0.2:
            pass
        elif r < 0.45:
            x = self.pick(env, et, lines, ind)
            i2 = i1 if rng.random() < 0.5 else self.mem_index(env, lines, ind)
            lines.append(f"{ind}memref.store {x}, {m}[{i2}] : {mt}")
        elif r < 0.55:
            lines.append(f'{ind}"test.op_with_memwrite"({l1}) : ({et}) -> ()')
        elif r < 0.65 and self.ext_calls and "i32" in self.int_types:
            a = self.pick(env, "i32", lines, ind)
            self.emit(env, lines, ind, f"func.call @ext_i32({a}) : (i32) -> i32", "i32")
        elif r < 0.8 and depth < 2:
            c = self.var(env, "i1", lines, ind)
            lines.append(f"{ind}scf.if {c} {{")
            e2 = list(env)
            x = self.pick(e2, et, lines, ind + "  ")
            lines.append(f"{ind}  memref.store {x}, {m}[{i1}] : {mt}")
            if rng.random() < 0.5:
                self.emit(e2, lines, ind + "  ", f"memref.load {m}[{i1}] : {mt}", et)
            lines.append(f"{ind}}}")
        elif r < 0.9:
            others = [(v, t) for v, t in mems if v != m and t == mt]
            if others:
                m2 = rng.choice(others)[0]
                x = self.pick(env, et, lines, ind)
                lines.append(f"{ind}memref.store {x}, {m2}[{i1}] : {mt}")
        else:
            self.stmt(env, lines, ind, depth + 1)
        l2 = self.emit(env, lines, ind, f"memref.load {m}[{i1}] : {mt}", et)
        if et in W:
            opn = rng.choice(["subi", "xori", "addi"] if not self.no_var_addi else ["subi", "xori"])
            self.emit(env, lines, ind, f"arith.{opn} {l1}, {l2} : {et}", et)
        else:
            self.emit(env, lines, ind, f"arith.subf {l1}, {l2} : {et}", et)

    def s_call(self, env, lines, ind, depth):
        rng = self.rng
        c = list(self.helpers)
        if not c:
            if self.ext_calls and "i32" in self.int_types:
                a = self.pick(env, "i32", lines, ind)
                self.emit(env, lines, ind, f"func.call @ext_i32({a}) : (i32) -> i32", "i32")
                if rng.random() < 0.5:  # the same call again: must stay two calls
                    self.emit(env, lines, ind, f"func.call @ext_i32({a}) : (i32) -> i32", "i32")
                return
            return self.s_ident(env, lines, ind, depth)
        name, argt, rett = rng.choice(c)
        args = [self.pick(env, t, lines, ind) for t in argt]
        call = f"func.call @{name}({', '.join(args)}) : ({', '.join(argt)}) -> {rett}"
        self.emit(env, lines, ind, call, rett)
        if rng.random() < 0.3:
            self.emit(env, lines, ind, call, rett)

    def s_effect(self, env, lines, ind, depth):
        rng = self.rng
        c = [(v, t) for v, t in env if t not in MEMREFS]
        if not c:
            return self.s_ident(env, lines, ind, depth)
        v, vt = rng.choice(c)
        lines.append(f'{ind}"{rng.choice(["test.op_with_memwrite", "test.op"])}"({v}) : ({vt}) -> ()')

    def s_cast(self, env, lines, ind, depth):
        rng = self.rng
        k = rng.choice(CASTS)
        its = [t for t in self.int_types if t not in ("index",)]
        konst = rng.random() < 0.5

        def src(t):
            return self.const(t, lines, ind) if konst else self.pick(env, t, lines, ind)
        if k in ("extsi", "extui", "trunci"):
            pairs = [(a, b) for a in its for b in its if W[a] < W[b]]
            if not pairs:
                return self.s_ident(env, lines, ind, depth)
            a, b = rng.choice(pairs)
            if k == "trunci":
                self.emit(env, lines, ind, f"arith.trunci {src(b)} : {b} to {a}", a)
            else:
                self.emit(env, lines, ind, f"arith.{k} {src(a)} : {a} to {b}", b)
        elif k == "extended":
            t = rng.choice([x for x in its if W[x] > 1] or its)
            a, b = src(t), (self.const(t, lines, ind) if rng.random() < 0.5 else self.pick(env, t, lines, ind))
            opn = rng.choice(["addui_extended", "mului_extended", "mulsi_extended"])
            v = self.fresh()
            if opn == "addui_extended":
                lines.append(f"{ind}{v}:2 = arith.addui_extended {a}, {b} : {t}, i1")
                env.append((f"{v}#1", "i1"))
            else:
                lines.append(f"{ind}{v}:2 = arith.{opn} {a}, {b} : {t}")
                env.append((f"{v}#1", t))
            env.append((f"{v}#0", t))
        elif k == "index_cast":
            if "index" not in self.int_types or not [t for t in its if W[t] > 1]:
                return self.s_ident(env, lines, ind, depth)
            a = rng.choice([t for t in its if W[t] > 1])
            if rng.random() < 0.5:
                self.emit(env, lines, ind, f"arith.{k} {src(a)} : {a} to index", "index")
            else:
                self.emit(env, lines, ind, f"arith.{k} {src('index')} : index to {a}", a)
        elif not self.allow_float:
            return self.s_ident(env, lines, ind, depth)
        elif k in ("sitofp", "uitofp"):
            a = rng.choice([t for t in its if W[t] > 1 and W[t] <= 32] or ["i32"])
            if a not in self.int_types:
                return self.s_ident(env, lines, ind, depth)
            f = rng.choice(self.flt_types)
            self.emit(env, lines, ind, f"arith.{k} {src(a)} : {a} to {f}", f)
        elif k in ("fptosi", "fptoui"):
            a = rng.choice([t for t in its if W[t] > 1] or ["i32"])
            if a not in self.int_types:
                return self.s_ident(env, lines, ind, depth)
            f = rng.choice(self.flt_types)
            self.emit(env, lines, ind, f"arith.{k} {src(f)} : {f} to {a}", a)
        elif k in ("extf", "truncf"):
            if not {"f32", "f64"} <= set(self.flt_types):
                return self.s_ident(env, lines, ind, depth)
            if k == "extf":
                self.emit(env, lines, ind, f"arith.extf {src('f32')} : f32 to f64", "f64")
            else:
                self.emit(env, lines, ind, f"arith.truncf {src('f64')} : f64 to f32", "f32")
        elif k == "negf":
            f = rng.choice(self.flt_types)
            self.emit(env, lines, ind, f"arith.negf {src(f)} : {f}", f)
        else:
            f = rng.choice(self.flt_types)
            it = "i32" if f == "f32" else "i64"
            if it not in self.int_types:
                return self.s_ident(env, lines, ind, depth)
            self.emit(env, lines, ind, f"arith.bitcast {src(it)} : {it} to {f}", f)

    def s_cast_pair(self, env, lines, ind, depth):
        """the same cast of the same value to two different result types (identical but for the result type)"""
        rng = self.rng
        its = [t for t in self.int_types if t != "index"]
        k = rng.choice(["extsi", "extui", "trunci", "sitofp", "fptosi", "index_cast"])
        if k in ("extsi", "extui"):
            srcs = [a for a in its if len([b for b in its if W[b] > W[a]]) >= 2]
            if not srcs:
                return self.s_ident(env, lines, ind, depth)
            a = rng.choice(srcs)
            x = self.pick(env, a, lines, ind)
            for b in rng.sample([b for b in its if W[b] > W[a]], 2):
                self.emit(env, lines, ind, f"arith.{k} {x} : {a} to {b}", b)
        elif k == "trunci":
            srcs = [a for a in its if len([b for b in its if W[b] < W[a]]) >= 2]
            if not srcs:
                return self.s_ident(env, lines, ind, depth)
            a = rng.choice(srcs)
            x = self.pick(env, a, lines, ind)
            for b in rng.sample([b for b in its if W[b] < W[a]], 2):
                self.emit(env, lines, ind, f"arith.trunci {x} : {a} to {b}", b)
        elif k == "index_cast":
            ws = [t for t in its if W[t] > 1]
            if "index" not in self.int_types or len(ws) < 2:
                return self.s_ident(env, lines, ind, depth)
            x = self.pick(env, "index", lines, ind)
            for b in rng.sample(ws, 2):
                self.emit(env, lines, ind, f"arith.index_cast {x} : index to {b}", b)
        elif not self.allow_float or len(self.flt_types) < 2:
            return self.s_ident(env, lines, ind, depth)
        elif k == "sitofp":
            a = rng.choice([t for t in its if 1 < W[t] <= 32] or ["i32"])
            if a not in self.int_types:
                return self.s_ident(env, lines, ind, depth)
            x = self.pick(env, a, lines, ind)
            for f in ("f32", "f64"):
                self.emit(env, lines, ind, f"arith.sitofp {x} : {a} to {f}", f)
        else:
            ws = [t for t in its if W[t] > 1]
            if len(ws) < 2:
                return self.s_ident(env, lines, ind, depth)
            f = rng.choice(self.flt_types)
            x = self.pick(env, f, lines, ind)
            for b in rng.sample(ws, 2):
                self.emit(env, lines, ind, f"arith.fptosi {x} : {f} to {b}", b)

    def s_while(self, env, lines, ind, depth):
        rng = self.rng
        if depth >= 2 or not self.allow_loops or "index" not in self.int_types:
            return self.s_chain(env, lines, ind, depth)
        t = rng.choice(self.types())
        c0 = self.const_idx(lines, ind, rng.choice([0, 0, 1]))
        n = self.const_idx(lines, ind, rng.choice([0, 1, 2, 3, 4])) if rng.random() < 0.7 else self.bounded_idx(env, lines, ind)
        init = self.pick(env, t, lines, ind)
        v, i, acc, i2, a2 = (self.fresh() for _ in range(5))
        lines.append(f"{ind}{v}:2 = scf.while ({i} = {c0}, {acc} = {init}) : (index, {t}) -> (index, {t}) {{")
        e2 = list(env) + [(i, "index"), (acc, t)]
        for _ in range(rng.choice([0, 0, 1])):
            self.stmt(e2, lines, ind + "  ", depth + 1)
        cc = self.fresh()
        lines.append(f"{ind}  {cc} = arith.cmpi slt, {i}, {n} : index")
        fwd = self.pick(e2, t, lines, ind + "  ") if rng.random() < 0.3 else acc
        lines.append(f"{ind}  scf.condition({cc}) {i}, {fwd} : index, {t}")
        lines.append(f"{ind}}} do {{")
        lines.append(f"{ind}^bb0({i2}: index, {a2}: {t}):")
        e3 = list(env) + [(i2, "index"), (a2, t)]
        for _ in range(rng.choice([1, 2, 3])):
            self.stmt(e3, lines, ind + "  ", depth + 1)
        nx = self.fresh()
        if self.no_var_addi:
            m1 = self.const_idx(lines, ind + "  ", -1)
            lines.append(f"{ind}  {nx} = arith.subi {i2}, {m1} : index")
        else:
            c1 = self.const_idx(lines, ind + "  ", 1)
            lines.append(f"{ind}  {nx} = arith.addi {i2}, {c1} : index")
        y = self.pick(e3, t, lines, ind + "  ")
        lines.append(f"{ind}  scf.yield {nx}, {y} : index, {t}")
        lines.append(f"{ind}}}")
        env.append((f"{v}#1", t))
        env.append((f"{v}#0", "index"))

    # ------------------------------------------------------------------ functions / modules
    def _ret(self, env, lines, ind):
        rng = self.rng
        c = [(v, t) for v, t in env if t not in MEMREFS]
        rets = [rng.choice(c) for _ in range(rng.randint(1, 3))] if c else []
        if not rets:
            rets = [(self.const("i32" if "i32" in self.int_types else self.int_types[0], lines, ind),
                     "i32" if "i32" in self.int_types else self.int_types[0])]
        # prefer recently defined values so that the directed shapes are observed
        recent = [(v, t) for v, t in env[-8:] if t not in MEMREFS]
        if recent and rng.random() < 0.8:
            rets[0] = rng.choice(recent)
        return rets

    def func(self, name="main", nstmts=None, memref_args=True, diamond=None, max_args=4):
        rng = self.rng
        types = self.types()
        args = [(f"%arg{i}", rng.choice(types)) for i in range(rng.randint(0, max_args))]
        if memref_args and self.memrefs and rng.random() < 0.45:
            ok = [m for m in MEMREFS if MEMREFS[m] in types]
            for _ in range(rng.choice([1, 1, 2])):
                if ok:
                    args.append((f"%arg{len(args)}", rng.choice(ok)))
        env = list(args)
        lines = []
        n = nstmts or rng.choice([3, 6, 10, 16])
        if diamond is None:
            diamond = rng.random() < 0.15
        if not diamond:
            for _ in range(n):
                self.stmt(env, lines, "  ", 0)
            rets = self._ret(env, lines, "  ")
        else:
            for _ in range(max(1, n // 3)):
                self.stmt(env, lines, "  ", 0)
            c = self.pick(env, "i1", lines, "  ")
            t = rng.choice(types)
            t1 = rng.choice(types)
            a1 = self.pick(env, t1, lines, "  ")
            p1, pj = self.fresh(), self.fresh()
            lines.append(f"  cf.cond_br {c}, ^bb1({a1} : {t1}), ^bb2")
            lines.append(f"^bb1({p1}: {t1}):")
            e1 = list(env) + [(p1, t1)]
            for _ in range(max(1, n // 3)):
                self.stmt(e1, lines, "  ", 0)
            y1 = self.pick(e1, t, lines, "  ")
            lines.append(f"  cf.br ^bb3({y1} : {t})")
            lines.append("^bb2:")
            e2 = list(env)
            for _ in range(rng.choice([0, 1, n // 3])):
                self.stmt(e2, lines, "  ", 0)
            y2 = self.pick(e2, t, lines, "  ")
            lines.append(f"  cf.br ^bb3({y2} : {t})")
            lines.append(f"^bb3({pj}: {t}):")
            env.append((pj, t))
            for _ in range(rng.choice([0, 1, n // 3])):
                self.stmt(env, lines, "  ", 0)
            rets = self._ret(env, lines, "  ")
            if rng.random() < 0.7:
                rets[-1] = (pj, t)
        if self.sinks and rng.random() < 0.8:
            self.sink(env, lines, "  ", 40)
        sig = ", ".join(f"{a}: {t}" for a, t in args)
        text = (f"func.func @{name}({sig}) -> ({', '.join(t for _, t in rets)}) {{\n" + "\n".join(lines) +
                f"\n  func.return {', '.join(v for v, _ in rets)} : {', '.join(t for _, t in rets)}\n}}\n")
        return text, [t for _, t in args], [t for _, t in rets]

    def module_text(self, nhelpers=None):
        """helpers + @main; returns (text, main argtypes)"""
        rng = self.rng
        parts = [self.prelude()]
        k = rng.choice([0, 0, 1, 2]) if nhelpers is None else nhelpers
        self.helpers = []
        for h in range(k):
            saved = self.helpers
            self.helpers = list(saved)  # a helper may call earlier helpers only (no recursion)
            text, argt, rett = self.func(name=f"h{h}", nstmts=rng.choice([2, 4, 6]), memref_args=False, diamond=False,
                                         max_args=3)
            self.helpers = saved
            if len(rett) != 1:
                # helpers return exactly one value: cut the signature down
                text, argt, rett = self._single_ret(text, argt, rett)
            parts.append(text)
            self.helpers.append((f"h{h}", argt, rett[0]))
        text, argt, rett = self.func()
        parts.append(text)
        return "".join(parts), argt

    @staticmethod
    def _single_ret(text, argt, rett):
        head, rest = text.split("\n", 1)
        body, retline = rest.rstrip("\n").rsplit("\n", 2)[0], rest.rstrip("\n").rsplit("\n", 2)[1]
        vals = retline.strip()[len("func.return "):].split(" : ")[0].split(", ")
        head = head[:head.index(") -> (")] + f") -> ({rett[0]}) {{"
        return f"{head}\n{body}\n  func.return {vals[0]} : {rett[0]}\n}}\n", argt, [rett[0]]

    def modprog_text(self, nstmts=None):
        """module-level straight-line program; returns (text, input types)"""
        rng = self.rng
        types = self.types()
        ins = [rng.choice(types) for _ in range(rng.randint(0, 4))]
        lines = []
        env = []
        for t in ins:
            v = self.fresh()
            lines.append(f'{v} = "test.op"() : () -> {t}')
            env.append((v, t))
        for _ in range(nstmts or rng.choice([3, 6, 10, 16])):
            self.stmt(env, lines, "", 0)
        rets = self._ret(env, lines, "")
        if self.sinks and rng.random() < 0.8:
            self.sink(env, lines, "", 40)
        lines.append(f'"test.op"({", ".join(v for v, _ in rets)}) : ({", ".join(t for _, t in rets)}) -> ()')
        return self.prelude() + "\n".join(lines) + "\n", ins


def inputs_for(rng, argtypes, n):
    """argument rows (scalars as in genprog.gen_inputs; memref arguments as ("memref", [4], values))"""
    rows = []
    scal = [MEMREFS.get(t, t) for t in argtypes]
    for _ in range(n):
        row = []
        base = gen_inputs(rng, scal, 1)[0]
        for t, v in zip(argtypes, base):
            if t in MEMREFS:
                vals = [v] + [x[0] for x in gen_inputs(rng, [MEMREFS[t]] * 1, 3)]
                row.append(["memref", [4], vals])
            else:
                row.append(v)
        rows.append(row)
    return rows


def jsonable_row(row):
    out = []
    for v in row:
        if isinstance(v, float):
            out.append({"f64hex": struct.pack("<d", v).hex()} if not math.isnan(v) else {"f64hex": "nan"})
        elif isinstance(v, list) and v and v[0] == "memref":
            out.append(["memref", v[1], jsonable_row(v[2])])
        else:
            out.append(v)
    return out


def unjson_row(row):
    out = []
    for v in row:
        if isinstance(v, dict):
            out.append(math.nan if v["f64hex"] == "nan" else struct.unpack("<d", bytes.fromhex(v["f64hex"]))[0])
        elif isinstance(v, list) and v and v[0] == "memref":
            out.append(["memref", v[1], unjson_row(v[2])])
        else:
            out.append(v)
    return out


def cfg_program(rng, trap_bias=0.35):
    """Multi-block cf program of xv.gencfg, with the values that are block arguments of pass-through blocks preferred
    as operands in the blocks they dominate (the situation in which a branch through such a block must not be
    collapsed). Returns (text, argtypes, rettypes)."""
    from xv.gencfg import CfgGen

    class Cfg14(CfgGen):
        def __init__(self, rng):
            super().__init__(rng)
            self.trap = set()

        def jump(self, b, scope, target, targs, shuffle=True):
            extra = super().jump(b, scope, target, targs, shuffle)
            self.trap.update(extra)
            return extra

        def segment(self, b, scope, depth):
            """extra template: a pass-through block (only a cf.br) with TWO predecessors whose argument is also used
            in the blocks it dominates - it can neither be merged into a predecessor nor be bypassed"""
            rng = self.rng
            if depth < 2 and rng.random() < 0.25:
                self.compute(b, scope, rng.choice([0, 1]))
                c = self.cond(b, scope)
                p = self.block(1)
                n = self.block(rng.choice([1, 2]))
                if rng.random() < 0.4:
                    self._cbr(b, c, p, [self.value(b, scope)], p, [self.value(b, scope)])
                else:
                    tb, eb = self.block(0), self.block(0)
                    self._cbr(b, c, tb, [], eb, [])
                    for side in (tb, eb):
                        sc = list(scope)
                        self.compute(side, sc, rng.choice([0, 1, 2]))
                        self._br(side, p, [self.value(side, sc)])
                a = p.args[0]
                self._br(p, n, [a if rng.random() < 0.7 else rng.choice(scope) for _ in n.args])
                self.trap.add(a)
                return self.segment(n, scope + [a] + n.args, depth + 1)
            return super().segment(b, scope, depth)

        def value(self, b, scope):
            c = [v for v in scope if v in self.trap]
            if c and self.rng.random() < trap_bias:
                return self.rng.choice(c)
            return super().value(b, scope)

    return Cfg14(rng).func("main")


# ------------------------------------------------------------------------------------------- exhaustive float grid
GRID = {
    "f32": ["0.0", "-0.0", "1.0", "-1.0", "2.0", "0.5", "0.1", "-3.5", "3.4028235e+38", "-3.4028235e+38", "1.0e-45",
            "-1.0e-45", "1.17549435e-38", "16777217.0", "1.0e+30", "1.0e-30", "0x7F800000", "0xFF800000", "0x7FC00000",
            "0xFFC00000", "0x7FC00001", "0x7FA00000"],
    "f64": ["0.0", "-0.0", "1.0", "-1.0", "2.0", "0.5", "0.1", "-3.5", "1.7976931348623157e+308",
            "-1.7976931348623157e+308", "5.0e-324", "-5.0e-324", "2.2250738585072014e-308", "9007199254740993.0",
            "1.0e+300", "1.0e-300", "0x7FF0000000000000", "0xFFF0000000000000", "0x7FF8000000000000",
            "0xFFF8000000000000", "0x7FF8000000000001", "0x7FF4000000000000"],
}
GRID_BIN = ["addf", "subf", "mulf", "divf", "maximumf", "minimumf", "maxnumf", "minnumf"]


def float_grid_programs(t, rows_per_program=6):
    """Deterministic directed programs: for every float binary op and every cmpf predicate, EVERY ordered pair of the
    boundary constants of type t (signed zeros, +-1, max, min subnormal, +-inf, quiet/negative/payload/signalling
    NaNs, values needing rounding) as constant-constant operands; all results go to poison-tolerant sinks, so each
    folded constant is observed bit-exactly. Returns [(label, text)]."""
    vals = GRID[t]
    ops = [("arith." + o, t) for o in GRID_BIN] + [("arith.cmpf " + p + ",", "i1") for p in FPRED]
    out = []
    for opn, rt in ops:
        for r0 in range(0, len(vals), rows_per_program):
            lines, n = [], 0
            cs = []
            for lit in vals:
                n += 1
                lines.append(f"  %c{n} = arith.constant {lit} : {t}")
                cs.append(f"%c{n}")
            res = []
            for i in range(r0, min(r0 + rows_per_program, len(vals))):
                for j in range(len(vals)):
                    n += 1
                    lines.append(f"  %r{n} = {opn} {cs[i]}, {cs[j]} : {t}")
                    res.append(f"%r{n}")
            for k in range(0, len(res), 22):
                chunk = res[k:k + 22]
                lines.append(f'  "test.op"({", ".join(chunk)}) {{c14.sink}} : ({", ".join(rt for _ in chunk)}) -> ()')
            text = (f"func.func @main() -> ({rt}) {{\n" + "\n".join(lines) + f"\n  func.return {res[0]} : {rt}\n}}\n")
            out.append((f"{opn.split()[0]}{'/' + opn.split()[1].rstrip(',') if ' ' in opn else ''}:{t}:rows{r0}", text))
    return out
