"""Reference model for C18: an independent, hand-written (no `re`) lexer / parser / printer of the
pass-pipeline specification format documented in xdsl/utils/arg_spec.py, a typed canonical form of
option values, and value generators per declared option type.

    pipeline          ::= pipeline-element (`,` pipeline-element)* [`,`]
    pipeline-element  ::= `mlir-opt` MLIR_PIPELINE | pass-name options?
    options           ::= `{` [options-element (SPACE options-element)* [SPACE]] `}`
    options-element   ::= key (`=` value (`,` value)* )?
    value             ::= NUMBER | `true` | `false` | IDENT | STRING_LITERAL

Token rules are tried in the documented order (digit-led identifier, number, identifier, string,
`[...]`, `{`, `}`, `=`, white space, `,`).  A string literal is `"` (escape | plain)* `"` with
escape ::= `\\` one of n f v t r " \\ ; its value is the text with each escape replaced by the
character it names (the reading every escape-aware printer needs).

Nothing here imports xdsl."""
from __future__ import annotations

import math
import struct
import types
import typing
from typing import Literal, Union, get_args, get_origin

DIG = "0123456789"
LET = "ABCDEFGHIJKLMNOPQRSTUVWXYZabcdefghijklmnopqrstuvwxyz"
IDC = DIG + LET + "_-"
ESC = {"n": "\n", "f": "\f", "v": "\v", "t": "\t", "r": "\r", '"': '"', "\\": "\\"}
RAW_FORBIDDEN = "\n\f\v\r"


class RefReject(Exception):
    """The reference parser rejects the input (reason in args[0])."""


class WrongModel(Exception):
    """Raised by the model of the KNOWN WRONG string decoding; args[0] is the mechanism."""


# ----------------------------------------------------------------------------- lexer
def lex(s: str, partial: bool = False):
    """-> list of (kind, text).  kinds: IDENT NUMBER STRING PIPE { } = SPACE , EOF.  Raises RefReject
    (with partial=True: returns the tokens before the first unknown token instead, without EOF)."""
    out = []
    n = len(s)
    pos = 0
    if n == 0:
        return [("EOF", "")]
    while pos < n:
        c = s[pos]
        tok = None
        # rule 1: [0-9]+[A-Za-z_-]+[A-Za-z0-9_-]*
        if c in DIG:
            j = pos
            while j < n and s[j] in DIG:
                j += 1
            if j < n and (s[j] in LET or s[j] in "_-"):
                while j < n and s[j] in IDC:
                    j += 1
                tok = ("IDENT", s[pos:j])
        # rule 2: [-+]?[0-9]+(\.[0-9]*([eE][-+]?[0-9]+)?)?
        if tok is None and (c in DIG or (c in "+-" and pos + 1 < n and s[pos + 1] in DIG)):
            j = pos + (1 if c in "+-" else 0)
            while j < n and s[j] in DIG:
                j += 1
            if j < n and s[j] == ".":
                j += 1
                while j < n and s[j] in DIG:
                    j += 1
                if j < n and s[j] in "eE":
                    k = j + 1
                    if k < n and s[k] in "+-":
                        k += 1
                    if k < n and s[k] in DIG:
                        while k < n and s[k] in DIG:
                            k += 1
                        j = k
            tok = ("NUMBER", s[pos:j])
        # rule 3: [A-Za-z0-9_-]+
        if tok is None and c in IDC:
            j = pos
            while j < n and s[j] in IDC:
                j += 1
            tok = ("IDENT", s[pos:j])
        if tok is None and c in '"[':
            close = '"' if c == '"' else "]"
            j = pos + 1
            ok = False
            while j < n:
                d = s[j]
                if d == close:
                    ok = True
                    j += 1
                    break
                if d == "\\":
                    if j + 1 < n and s[j + 1] in ESC:
                        j += 2
                        continue
                    break
                if d in RAW_FORBIDDEN:
                    break
                j += 1
            if ok:
                tok = ("STRING" if c == '"' else "PIPE", s[pos:j])
        if tok is None and c in "{}=,":
            tok = (c, c)
        if tok is None and c.isspace():
            j = pos
            while j < n and s[j].isspace():
                j += 1
            tok = ("SPACE", s[pos:j])
        if tok is None:
            if partial:
                return out
            raise RefReject(f"unknown token at {pos}")
        out.append(tok)
        pos += len(tok[1])
    out.append(("EOF", ""))
    return out


def lex_prefix(s: str):
    """(tokens up to the first lexing error, whole input lexed?) - used to describe / hash fuzz inputs and to look
    for string literals the real parser may have decoded before it stopped."""
    toks = lex(s, partial=True)
    done = bool(toks) and toks[-1][0] == "EOF"
    return (toks if done else toks + [("EOF", "")]), done


# ----------------------------------------------------------------------------- string decoding
def decode_string(lit: str) -> str:
    """Intended value of a string literal token (including the quotes)."""
    body = lit[1:-1]
    out = []
    i = 0
    while i < len(body):
        if body[i] == "\\":
            out.append(ESC[body[i + 1]])
            i += 2
        else:
            out.append(body[i])
            i += 1
    return "".join(out)


def decode_string_known_wrong(lit: str) -> str:
    """Model of the KNOWN WRONG decoding on the unfixed tree: the MLIR string-literal decoder is used,
    which knows only \\n \\t \\\\ \\" and two-hex-digit escapes; the pipeline lexer admits \\f \\v \\r.
    Where that decoder would fail or read `\\f<hex>` as a byte, WrongModel('strlit-escape-fvr') is raised."""
    body = lit[1:-1]
    i = 0
    while i < len(body):
        if body[i] == "\\":
            if body[i + 1] in "fvr":
                raise WrongModel("strlit-escape-fvr")
            i += 2
        else:
            i += 1
    return decode_string(lit)


# ----------------------------------------------------------------------------- parser
def parse(s: str, decode=decode_string):
    """-> list of (name, {key: tuple(values)}) ; raises RefReject (or whatever `decode` raises)."""
    toks = lex(s)
    p = 0

    def value():
        nonlocal p
        k, t = toks[p]
        p += 1
        if k == "STRING":
            return decode(t)
        if k == "NUMBER":
            try:
                return float(t) if "." in t else int(t)
            except ValueError as e:  # int digit limit
                raise RefReject("number: " + str(e)[:40])
        if k == "IDENT":
            return True if t == "true" else False if t == "false" else t
        raise RefReject("bad value token " + k)

    def params():
        nonlocal p
        args = {}
        while True:
            k, t = toks[p]
            p += 1
            if k == "}":
                return args
            if k != "IDENT":
                raise RefReject("expected argument name")
            k2, _ = toks[p]
            p += 1
            if k2 == "SPACE":
                args[t] = ()
                continue
            if k2 == "}":
                args[t] = ()
                return args
            if k2 != "=":
                raise RefReject("expected = / space / }")
            vals = [value()]
            while toks[p][0] == ",":
                p += 1
                vals.append(value())
            args[t] = tuple(vals)
            k3, _ = toks[p]
            p += 1
            if k3 == "SPACE":
                continue
            if k3 == "}":
                return args
            raise RefReject("expected space or }")

    out = []
    while True:
        if toks[p][0] == "EOF":
            return out
        k, name = toks[p]
        p += 1
        if k != "IDENT":
            raise RefReject("expected pass name")
        k2, t2 = toks[p]
        if k2 in ("EOF", ","):
            out.append((name, {}))
        elif k2 == "{":
            p += 1
            out.append((name, params()))
        elif k2 == "PIPE":
            if name != "mlir-opt":
                raise RefReject("[...] after a name other than mlir-opt")
            p += 1
            out.append(("mlir-opt", {"arguments": ("--mlir-print-op-generic", "--allow-unregistered-dialect", "-p",
                                                   f"builtin.module({t2[1:-1]})")}))
        else:
            raise RefReject("expected , or {")
        k3, _ = toks[p]
        p += 1
        if k3 == "EOF":
            return out
        if k3 != ",":
            raise RefReject("expected comma after pass")


# ----------------------------------------------------------------------------- printer
def esc_string(v: str) -> str:
    out = ['"']
    for ch in v:
        if ch == "\\":
            out.append("\\\\")
        elif ch == '"':
            out.append('\\"')
        elif ch == "\n":
            out.append("\\n")
        elif ch == "\f":
            out.append("\\f")
        elif ch == "\v":
            out.append("\\v")
        elif ch == "\r":
            out.append("\\r")
        else:
            out.append(ch)
    out.append('"')
    return "".join(out)


def print_value(v, escape=True, point=True) -> str:
    if isinstance(v, bool):
        return "true" if v else "false"
    if isinstance(v, str):
        return esc_string(v) if escape else '"' + v + '"'
    if isinstance(v, int):
        return str(v)
    if isinstance(v, float):
        r = repr(v)
        if point and "e" in r and "." not in r:
            m, e = r.split("e")
            r = m + ".0e" + e
        return r
    raise TypeError(type(v))


def print_spec(name: str, params: dict, dash_keys=False, escape=True, point=True) -> str:
    if not params:
        return name
    parts = []
    for k, vals in params.items():
        k = k.replace("_", "-") if dash_keys else k
        parts.append(k + "=" + ",".join(print_value(v, escape, point) for v in vals) if vals else k)
    return name + "{" + " ".join(parts) + "}"


# ----------------------------------------------------------------------------- canonical values
def canon(v):
    """Typed canonical form: bool/int/float/str never compare equal across types; floats by bit pattern
    (all NaNs identified: the text form has one spelling for NaN)."""
    if v is None:
        return ("none",)
    if isinstance(v, bool):
        return ("bool", v)
    if isinstance(v, int):
        return ("int", v)
    if isinstance(v, float):
        return ("float", "nan") if math.isnan(v) else ("float", struct.pack(">d", v).hex())
    if isinstance(v, str):
        return ("str", v)
    if isinstance(v, tuple):
        return ("tuple",) + tuple(canon(x) for x in v)
    return ("other", type(v).__name__, repr(v))


def canon_params(params: dict):
    return tuple((k, canon(tuple(v))) for k, v in params.items())


def canon_specs(specs):
    return tuple((n, canon_params(p)) for n, p in specs)


def leaves(v):
    if isinstance(v, tuple):
        for x in v:
            yield from leaves(x)
    else:
        yield v


# ----------------------------------------------------------------------------- value classes (for "distinct")
def _str_class(s: str) -> str:
    if s == "":
        return "s:empty"
    cl = set()
    for ch in s:
        o = ord(ch)
        if ch in LET or ch in DIG:
            cl.add("an")
        elif ch in "-_":
            cl.add("dash")
        elif ch == " ":
            cl.add("sp")
        elif ch == "\t":
            cl.add("tab")
        elif ch == '"':
            cl.add("dq")
        elif ch == "\\":
            cl.add("bs")
        elif ch == "\n":
            cl.add("nl")
        elif ch in "\r\f\v":
            cl.add("crffvt")
        elif ch in "{}=,[]":
            cl.add("struct")
        elif o < 32 or o == 127:
            cl.add("ctl")
        elif o < 128:
            cl.add("punct")
        elif o < 0x10000:
            cl.add("uni-ws" if ch.isspace() else "bmp")
        else:
            cl.add("astral")
    kw = ""
    if s in ("true", "false", "none", "None", "inf", "nan", "-inf"):
        kw = "!kw"
    elif s[0] in DIG + "+-." and any(c in DIG for c in s):
        kw = "!numlike"
    return "s:" + "+".join(sorted(cl)) + kw + ("!long" if len(s) > 64 else "")


def vclass(v) -> str:
    if v is None:
        return "none"
    if isinstance(v, bool):
        return "T" if v else "F"
    if isinstance(v, int):
        b = v.bit_length()
        return ("i-" if v < 0 else "i+") + ("0" if b == 0 else "8" if b <= 8 else "31" if b <= 31 else "63" if b <= 63 else "big")
    if isinstance(v, float):
        if math.isnan(v):
            return "f:nan"
        if math.isinf(v):
            return "f:inf" if v > 0 else "f:-inf"
        r = repr(v)
        return "f:" + ("-" if math.copysign(1, v) < 0 else "+") + ("zero" if v == 0 else "exp" if "e" in r else "dec")
    if isinstance(v, str):
        return _str_class(v)
    if isinstance(v, tuple):
        return "(" + ",".join(vclass(x) for x in v[:4]) + ")"
    return "?"


# ----------------------------------------------------------------------------- generators
STR_FIXED = ["a", "abc", "a-b", "a_b", "2d-slice", "a b", ' lead', 'trail ', 'q"uote', '"', '""', "back\\slash", "\\", "\\\\",
             "\\n", "end\\", '\\"', "", "true", "false", "True", "none", "None", "inf", "-inf", "nan", "1", "-1", "+5", "1.5",
             "1e5", "1.0e5", "1.", "0x10", "x,y", ",", "{", "}", "{}", "a{b=1}", "=", "k=v", "é", "中文", "\U0001f600", "e\u0301",
             "\u05d0\u05d1", "tab\t", "\t", "new\nline", "\n", "cr\rlf\n", "\f", "\v", "\x00", "\x1b[0m", "\x7f", "\u0085",
             "\u2028", "\u00a0", "-", "_", "--", "a" * 50, "b" * 1500, "'", "`$HOME`", "[x]", "mlir-opt[a]", "[", "]", "a]b",
             "/path/to/file.mlir", "C:\\dir\\file.pdl", "%s", "#", "fast", "none", "static", "wse2", "x y z", "  "]
CH_POOL = (list("abcXYZ019-_") + list(' "\\\n\t\r\f\v{}=,[].+-e') + ["é", "ß", "中", "\U0001f600", "\u0301", "\x00", "\x1b", "\x7f",
           "\u0085", "\u2028", "\u00a0", "'", "/", ":", ";", "%", "#", "@", "!", "?", "*", "(", ")", "<", ">", "|", "&", "~", "^"])
INT_FIXED = [0, 1, -1, 2, 7, 10, -10, 255, 2 ** 31 - 1, 2 ** 31, -2 ** 31, 2 ** 63 - 1, 2 ** 63, -2 ** 63, 2 ** 64, 10 ** 20,
             -10 ** 20, 10 ** 100, 123456789]
FLT_FIXED = [0.0, -0.0, 1.0, -1.0, 1.5, -2.25, 0.1, 1e-05, 1e-7, 1e22, 1e16, 9007199254740993.0, 1e21, 123456789.125, 3.0,
             5e-324, 2.2250738585072014e-308, 1.7976931348623157e308, -1.7976931348623157e308, 1e100, -1e-100, 2.5e-10,
             float("inf"), float("-inf"), float("nan"), 6.02e23, 1e300, 100000.0, 1e15, 12345678901234567890.0]


def gen_str(rng, hostile=True) -> str:
    r = rng.random()
    if not hostile:
        if r < 0.6:
            return rng.choice(["a", "abc", "a-b", "a_b", "x1", "file.mlir", "a b", "é", "x,y", "true", "1", "1.5", "", "k=v"])
        return "".join(rng.choice("abcxyz019-_ .,=é") for _ in range(rng.randint(1, 8)))
    if r < 0.55:
        return rng.choice(STR_FIXED)
    if r < 0.9:
        return "".join(rng.choice(CH_POOL) for _ in range(rng.choice([1, 1, 2, 3, 5, 8, 20])))
    if r < 0.95:
        return chr(rng.choice([rng.randrange(0x20, 0x7f), rng.randrange(0xa0, 0xd800), rng.randrange(0xe000, 0x10000),
                               rng.randrange(0x10000, 0x110000), rng.randrange(0, 0x20)])) * rng.choice([1, 2])
    return rng.choice(STR_FIXED) + rng.choice(STR_FIXED)


def gen_int(rng) -> int:
    r = rng.random()
    if r < 0.5:
        return rng.choice(INT_FIXED)
    if r < 0.8:
        return rng.randint(-100, 100)
    v = rng.getrandbits(rng.choice([8, 16, 31, 32, 63, 64, 65, 128, 200, 1000]))
    return -v if rng.random() < 0.4 else v


def gen_float(rng, hostile=True) -> float:
    r = rng.random()
    if not hostile:
        return rng.choice([0.0, 1.0, 1.5, -2.25, 0.1, 3.0, 100000.0, 123456789.125, -0.5])
    if r < 0.45:
        return rng.choice(FLT_FIXED)
    if r < 0.75:
        return struct.unpack(">d", struct.pack(">Q", rng.getrandbits(64)))[0]
    if r < 0.9:
        return float(rng.randint(-1000, 1000)) / rng.choice([1, 2, 4, 8, 10, 3, 1000])
    return rng.choice([1.0, -1.0, 1.5, 7.0]) * 10.0 ** rng.randint(-320, 308)


def gen_value(t, rng, hostile=True, lits=()):
    """A value admitted by the declared type `t` (types as returned by typing.get_type_hints)."""
    o = get_origin(t)
    if t is bool:
        return rng.random() < 0.5
    if t is int:
        return gen_int(rng)
    if t is float:
        return gen_float(rng, hostile)
    if t is str:
        if lits and rng.random() < 0.5:
            return rng.choice(lits)
        return gen_str(rng, hostile)
    if t is type(None):
        return None
    if o is Literal:
        return rng.choice(get_args(t))
    if o in (Union, types.UnionType):
        args = get_args(t)
        lits = tuple(x for a in args if get_origin(a) is Literal for x in get_args(a) if isinstance(x, str))
        return gen_value(rng.choice(args), rng, hostile, lits)
    if o is tuple:
        a = get_args(t)
        if len(a) == 2 and a[1] is Ellipsis:
            n = rng.choice([0, 1, 1, 2, 3, 5]) if hostile else rng.choice([1, 2, 3])
            return tuple(gen_value(a[0], rng, hostile, lits) for _ in range(n))
        return tuple(gen_value(x, rng, hostile) for x in a)
    raise TypeError(f"unsupported option type {t!r}")


def admits(v, t) -> bool:
    """Own (independent of xdsl.utils.hints.isa) reading of 'value v inhabits declared type t';
    bool is NOT accepted for int here (used only by the failure classifier)."""
    o = get_origin(t)
    if t is typing.Any:
        return True
    if t is bool:
        return isinstance(v, bool)
    if t is int:
        return isinstance(v, int) and not isinstance(v, bool)
    if t is float:
        return isinstance(v, float)
    if t is str:
        return isinstance(v, str)
    if t is type(None):
        return v is None
    if o is Literal:
        return any(type(v) is type(x) and v == x for x in get_args(t))
    if o in (Union, types.UnionType):
        return any(admits(v, a) for a in get_args(t))
    if o is tuple:
        if not isinstance(v, tuple):
            return False
        a = get_args(t)
        if len(a) == 2 and a[1] is Ellipsis:
            return all(admits(x, a[0]) for x in v)
        return len(a) == len(v) and all(admits(x, y) for x, y in zip(v, a))
    return False
